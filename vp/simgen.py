"""Generated survey/simulation problems shared by C07, C08, C12.

A spec is JSON-able; `build(spec)` expands it deterministically into grid,
model, sources, receivers, frequencies and helpers to create surveys and
simulations.
"""
import numpy as np
from hypothesis import strategies as st

from vp import gen

SRC_KINDS = ['el_point', 'el_dipole_2pt', 'el_dipole_flat', 'el_dipole_azm',
             'el_wire', 'mag_point', 'mag_dipole']
REC_KINDS = ['el', 'el', 'mag', 'el_rel', 'mag_rel']
NOISE_SHAPES = ['scalar', 'src', 'rec', 'freq', 'full']
NOISE_KINDS = ['nf', 're', 'both', 'std']


def problem_spec(nx=(6, 7, 8, 10), nyz=(4, 5, 6, 8), max_src=3, max_rec=4,
                 max_freq=3, cases=gen.CASES, mappings=gen.MAPPINGS,
                 src_kinds=SRC_KINDS, max_decades=1.5):
    return st.fixed_dictionaries({
        'grid': gen.grid_spec([list(nx), list(nyz), list(nyz)]),
        'model': gen.model_spec(cases=cases, mappings=mappings,
                                max_decades=max_decades, mur=False,
                                epsr=False),
        'lgind': st.floats(-2.0, 0.3),
        'src': st.one_of(
            st.lists(st.sampled_from(list(src_kinds)), min_size=1,
                     max_size=max_src),
            st.lists(st.sampled_from(list(src_kinds)),
                     min_size=min(2, max_src), max_size=max_src)),
        'rec': st.lists(st.sampled_from(REC_KINDS), min_size=1,
                        max_size=max_rec),
        'freq': st.one_of(
            st.lists(gen.lgfloat(0.3, 3.0), min_size=1, max_size=max_freq,
                     unique=True),
            st.lists(gen.lgfloat(0.3, 3.0), min_size=min(2, max_freq),
                     max_size=max_freq, unique=True)),
        'noise_shape': st.sampled_from(NOISE_SHAPES),
        'noise_kind': st.sampled_from(NOISE_KINDS),
        'nan_frac': st.sampled_from([0.0, 0.0, 0.15, 0.3]),
        # structure of the missing data: single entries, or (additionally) a
        # whole source-frequency pair / a whole receiver without data
        'nan_mode': st.sampled_from(['entries', 'pair', 'receiver', 'pair']),
        'seed': gen.SEED,
    })


class Problem:
    pass


def _interior(nodes):
    return nodes[1], nodes[-2]


def build(spec):
    import emg3d
    p = Problem()
    p.spec = spec
    h, origin = gen.build_widths(spec['grid'])
    if spec.get('shift') is not None:
        # optional translation of the whole problem (e.g. to UTM-scale
        # coordinates); sources and receivers below derive from the nodes
        origin = origin + np.asarray(spec['shift'], float)
    p.grid = emg3d.TensorMesh(h, origin=origin)
    grid = p.grid
    freqs = sorted(float(f) for f in spec['freq'])
    # Background conductivity such that the largest extent of the grid is
    # alpha = 0.5..4 skin depths at the middle frequency (drawn through
    # 'lgind' in [-2, 0.3]); responses then stay well above the accuracy of
    # the solver (a response 30 skin depths away is numerical noise).
    fmid = freqs[len(freqs)//2]
    alpha = 0.5 + (spec['lgind']+2.0)/2.3*3.5
    extent = max(hh.sum() for hh in h)
    bg = 2*alpha**2/(2*np.pi*fmid*gen.mu_0*extent**2)
    p.bg = bg
    p.skin_depths = alpha
    p.model, p.cond = gen.build_model(grid, spec['model'], bg)
    p.mapping = spec['model']['mapping']
    p.case = spec['model']['case']
    p.freqs = freqs
    rng = gen.rng_of(spec['seed'], 81)
    nodes = [grid.nodes_x, grid.nodes_y, grid.nodes_z]
    lo = np.array([_interior(x)[0] for x in nodes])
    hi = np.array([_interior(x)[1] for x in nodes])
    hmin = min(hh.min() for hh in h)

    def point(magnetic=False):
        # Magnetic sources (curl-type stencil, +-1 cell) are kept in the
        # third..third-last cell so that, like all generated sources, they
        # are supported away from the outermost cells (the solver's stated
        # domain, cf. C01); electric ones in the second..second-last.
        out = []
        for d, x in enumerate(nodes):
            r = rng.random()
            a, b = (x[2], x[-3]) if magnetic else (lo[d], hi[d])
            if r < 0.15 and len(x) > 4:
                out.append(float(rng.choice(x[2:-2])))
            elif r < 0.3 and not magnetic:
                cc = 0.5*(x[1:-2]+x[2:-1])
                out.append(float(rng.choice(cc)))
            else:
                out.append(float(rng.uniform(a, b)))
        return np.array(out)

    def angles():
        if rng.random() < 0.25:
            return (float(rng.choice([0., 90., -90., 180.])),
                    float(rng.choice([0., 90., -90.])))
        return float(rng.uniform(-180, 180)), float(rng.uniform(-90, 90))

    srcs = []
    for kind in spec['src']:
        strength = float(rng.uniform(0.5, 3.0))
        if kind == 'el_point':
            az, el = angles()
            s = emg3d.TxElectricPoint((*point(), az, el), strength=strength)
        elif kind == 'mag_point':
            az, el = angles()
            s = emg3d.TxMagneticPoint((*point(True), az, el),
                                      strength=strength)
        elif kind in ('el_dipole_2pt', 'el_dipole_flat', 'mag_dipole'):
            p0 = point()
            p1 = point()
            if kind == 'mag_dipole':
                # short dipole: the square loop (area = length) must stay
                # inside the interior region
                c = point(True)
                dvec = rng.standard_normal(3)
                dvec *= min(0.3*hmin, 0.04*hmin**2)/np.linalg.norm(dvec)
                p0, p1 = c - dvec/2, c + dvec/2
            elif np.linalg.norm(p1-p0) < 1e-3*hmin:
                p1 = np.clip(p0 + 0.5*hmin, lo, hi)
            if kind == 'el_dipole_flat':
                coo = (p0[0], p1[0], p0[1], p1[1], p0[2], p1[2])
                s = emg3d.TxElectricDipole(coo, strength=strength)
            elif kind == 'el_dipole_2pt':
                s = emg3d.TxElectricDipole(np.array([p0, p1]),
                                           strength=strength)
            else:
                s = emg3d.TxMagneticDipole(np.array([p0, p1]),
                                           strength=strength)
        elif kind == 'el_dipole_azm':
            az, el = angles()
            c = np.clip(point(), lo + 0.5*hmin, hi - 0.5*hmin)
            s = emg3d.TxElectricDipole((*c, az, el), strength=strength,
                                       length=float(rng.uniform(0.2, 0.9)
                                                    * hmin))
        elif kind == 'el_wire':
            npts = int(rng.integers(3, 6))
            pts = [point()]
            while len(pts) < npts:
                q = point()
                if np.linalg.norm(q-pts[-1]) > 1e-3*hmin:
                    pts.append(q)
            s = emg3d.TxElectricWire(np.array(pts), strength=strength)
        else:
            raise ValueError(kind)
        srcs.append(s)
    p.sources = srcs
    centers = np.array([s.center for s in srcs])
    recs = []
    p.rec_relative = []
    for kind in spec['rec']:
        az, el = angles()
        rel = kind.endswith('_rel')
        cls = emg3d.RxElectricPoint if kind.startswith('el') \
            else emg3d.RxMagneticPoint
        if rel:
            a = lo - centers.min(axis=0)
            b = hi - centers.max(axis=0)
            if np.all(b > a):
                off = rng.uniform(a, b)
                recs.append(cls((*off, az, el), relative=True))
                p.rec_relative.append(True)
                continue
        recs.append(cls((*point(), az, el)))
        p.rec_relative.append(False)
    p.receivers = recs
    p.shape = (len(srcs), len(recs), len(freqs))
    p.rng_data = gen.rng_of(spec['seed'], 82)
    return p


def noise_args(p, obs):
    """Noise-model keyword arguments for Survey (and explicit std or None),
    amplitude-relative so that weights are O(1/|d|^2)."""
    spec = p.spec
    rng = gen.rng_of(spec['seed'], 83)
    ns, nr, nf = p.shape
    shp = {'scalar': None, 'src': (ns, 1, 1), 'rec': (1, nr, 1),
           'freq': (1, 1, nf), 'full': (ns, nr, nf)}[spec['noise_shape']]
    amp = float(np.nanmedian(np.abs(obs))) if np.any(np.isfinite(obs)) \
        else 1.0
    if not np.isfinite(amp) or amp == 0:
        amp = 1.0

    def draw(base):
        if shp is None:
            return float(base*rng.uniform(0.5, 2))
        return base*rng.uniform(0.5, 2, size=shp)
    kw = {}
    std = None
    kind = spec['noise_kind']
    if kind in ('nf', 'both'):
        kw['noise_floor'] = draw(0.05*amp)
    if kind in ('re', 'both'):
        kw['relative_error'] = draw(0.05)
    if kind == 'std':
        std = np.broadcast_to(draw(0.1*amp), p.shape).copy()
    return kw, std


def make_survey(p, obs=None, with_noise=True):
    import emg3d
    kw, std = ({}, None)
    if with_noise and obs is not None:
        kw, std = noise_args(p, obs)
    sv = emg3d.Survey(p.sources, p.receivers, p.freqs,
                      data=None if obs is None else obs.copy(), **kw)
    if std is not None:
        sv.standard_deviation = std
    return sv


# Krylov solver without multigrid: most robust on the tiny generated problems
# (29 of 30 converge to 1e-11; multigrid variants stagnate on ~13 %).
SOLVER = dict(sslsolver='gcrotmk', cycle=None, semicoarsening=False,
              linerelaxation=False, tol=1e-11, maxit=1000, verb=-1)


def make_sim(p, survey, model=None, **kw):
    import emg3d
    opts = dict(gridding='same', max_workers=1,
                receiver_interpolation='linear', tqdm_opts=False,
                solver_opts=dict(SOLVER))
    opts.update(kw)
    import warnings
    with warnings.catch_warnings():
        warnings.simplefilter('ignore')
        return emg3d.Simulation(survey, model if model is not None
                                else p.model.copy(), **opts)


def all_converged(sim, which='efield'):
    info = getattr(sim, f'_dict_{which}_info', None)
    if info is None:
        return True
    for src, d in info.items():
        for f, i in d.items():
            if i is None:
                continue
            if isinstance(i, str):    # file-based: stored on disk
                i = sim._dict_get(f'{which}_info', src, f)
            if i['exit'] != 0:
                return False
    return True


def data_converged(p, sim, rtol=1e-6):
    """Precondition of the derivative oracles: emg3d's own synthetic data
    agree with the direct-solve data, i.e. they are not solver noise
    (responses many skin depths away, ill-conditioned systems)."""
    a = sim.data.synthetic.data
    b = direct_data(p, sim)
    m = np.isfinite(a) & np.isfinite(b)
    if not m.any():
        return True
    return bool(np.all(np.abs(a-b)[m] <= rtol*np.abs(b)[m]))


def direct_data(p, sim, direction=None, eps=0.0):
    """Synthetic data of the model with parameters m + eps*direction from
    DIRECT sparse solves of the checker-assembled operator (vp/refop.py) with
    emg3d's source vectors and receiver sampling.  Free of the iteration
    noise of Krylov/multigrid solves (error ~ cond * tol), which makes
    finite differences of emg3d's own forward data unusable on
    ill-conditioned (low induction number) problems."""
    import emg3d
    import scipy.sparse.linalg as spla
    from vp import refop
    names, arrs = param_arrays(p)
    conds = {}
    for i, (n, a) in enumerate(zip(names, arrs)):
        a = a if direction is None else a + eps*direction[i]
        conds[n] = gen.map_backward(p.mapping, a)
    sx = conds['property_x']
    sy = conds.get('property_y', sx)
    sz = conds.get('property_z', sx)
    h = [p.grid.h[0], p.grid.h[1], p.grid.h[2]]
    interior = refop.interior_mask(*p.grid.shape_cells)
    ii = np.flatnonzero(interior)
    out = np.full(p.shape, np.nan+1j*np.nan)
    lus = {}
    for i, (sn, src) in enumerate(sim.survey.sources.items()):
        for k, (fn, f) in enumerate(sim.survey.frequencies.items()):
            if fn not in lus:
                A, *_ = refop.assemble(*h, sx, sy, sz, None, None,
                                       2j*np.pi*f)
                lus[fn] = spla.splu(A[ii][:, ii].tocsc())
            sf = emg3d.get_source_field(p.grid, src, f)
            e = emg3d.Field(p.grid, frequency=f)
            e.field[ii] = lus[fn].solve(sf.field[ii])
            out[i, :, k] = sim._get_responses(sn, fn, e)
    return out


def observed_from_true(p):
    """Observed data = synthetic data of a perturbed 'true' model, with a
    generated NaN mask.  Returns None if the true solve did not converge."""
    import emg3d
    rng = p.rng_data
    fac = np.exp(0.3*rng.standard_normal(p.grid.shape_cells))
    sx, sy, sz, _, _ = p.cond
    m = p.mapping
    true = emg3d.Model(p.grid, gen.map_forward(m, sx*fac),
                       gen.map_forward(m, None if sy is None else sy*fac),
                       gen.map_forward(m, None if sz is None else sz/fac),
                       mapping=m)
    sv = make_survey(p)
    sim = make_sim(p, sv, true)
    sim.compute(observed=True, add_noise=False)
    if not all_converged(sim):
        return None
    obs = sv.data.observed.data.copy()
    frac = p.spec['nan_frac']
    mode = p.spec.get('nan_mode', 'entries')
    if frac > 0 and obs.size > 1:
        mask = rng.random(obs.shape) < frac
        ns, nr, nf = obs.shape
        if mode == 'pair' and ns*nf > 1:
            mask[int(rng.integers(0, ns)), :, int(rng.integers(0, nf))] = True
        elif mode == 'receiver' and nr > 1:
            mask[:, int(rng.integers(0, nr)), :] = True
        if mask.all():
            mask.flat[0] = False
        obs[mask] = np.nan
    return obs


def param_arrays(p, model=None):
    model = p.model if model is None else model
    names = ['property_x']
    if p.case in ('HTI', 'triaxial'):
        names.append('property_y')
    if p.case in ('VTI', 'triaxial'):
        names.append('property_z')
    return names, [np.array(getattr(model, n), float) for n in names]


def perturbed_model(p, direction, eps):
    """Model with parameters m + eps*direction (direction: (ncomp, nx,ny,nz))."""
    import emg3d
    names, arrs = param_arrays(p)
    kw = {n: a + eps*direction[i] for i, (n, a) in enumerate(zip(names, arrs))}
    return emg3d.Model(p.grid, mapping=p.mapping, **kw)


def direction(p, kind, seed):
    """Perturbation direction in the model's own parametrisation; relative
    per cell for the linear mappings (keeps parameters positive)."""
    rng = gen.rng_of(seed, 84)
    names, arrs = param_arrays(p)
    ncomp = len(names)
    shape = tuple(p.grid.shape_cells)
    d = np.zeros((ncomp,)+shape)
    if kind == 'dense':
        d[:] = np.clip(rng.standard_normal(d.shape), -3, 3)
    elif kind == 'cell':
        idx = tuple(int(rng.integers(1, n-1)) if n > 2 else 0 for n in shape)
        d[(int(rng.integers(0, ncomp)),)+idx] = 1.0
    else:  # single component
        c = int(rng.integers(0, ncomp))
        d[c] = np.clip(rng.standard_normal(shape), -3, 3)
    if not p.mapping.startswith('L'):
        for i, a in enumerate(arrs):
            d[i] *= np.abs(a)
    return d

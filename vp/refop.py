"""Checker-side reference operators.  Nothing here imports emg3d.core: the
operators are assembled from cell widths and cell properties only.

Field ordering = emg3d.Field: [fx (nx, ny+1, nz+1), fy (nx+1, ny, nz+1),
fz (nx+1, ny+1, nz)], each flattened in Fortran order.
"""
import numpy as np
import scipy.sparse as sp

from scipy.constants import mu_0, epsilon_0


def idx(shape, offset=0):
    n = int(np.prod(shape))
    return np.arange(n).reshape(shape, order='F') + offset


def edge_index(nx, ny, nz):
    ex = idx((nx, ny+1, nz+1))
    ey = idx((nx+1, ny, nz+1), ex.size)
    ez = idx((nx+1, ny+1, nz), ex.size+ey.size)
    return ex, ey, ez


def face_index(nx, ny, nz):
    fx = idx((nx+1, ny, nz))
    fy = idx((nx, ny+1, nz), fx.size)
    fz = idx((nx, ny, nz+1), fx.size+fy.size)
    return fx, fy, fz


def interior_mask(nx, ny, nz):
    """Boolean mask over all edges: True where the edge is not tangential on
    the domain boundary."""
    ex, ey, ez = edge_index(nx, ny, nz)
    interior = np.zeros(ex.size+ey.size+ez.size, bool)
    m = np.zeros(ex.shape, bool); m[:, 1:-1, 1:-1] = True
    interior[ex[m]] = True
    m = np.zeros(ey.shape, bool); m[1:-1, :, 1:-1] = True
    interior[ey[m]] = True
    m = np.zeros(ez.shape, bool); m[1:-1, 1:-1, :] = True
    interior[ez[m]] = True
    return interior


def curl(hx, hy, hz):
    """Edge -> face curl acting on field *values* (entries +-1/h)."""
    nx, ny, nz = len(hx), len(hy), len(hz)
    ex, ey, ez = edge_index(nx, ny, nz)
    fx, fy, fz = face_index(nx, ny, nz)
    ne = ex.size+ey.size+ez.size
    nf = fx.size+fy.size+fz.size
    rows, cols, vals = [], [], []

    def add(r, c, v):
        rows.append(r.ravel())
        cols.append(c.ravel())
        vals.append(np.broadcast_to(v, r.shape).ravel())

    HX = hx[:, None, None]; HY = hy[None, :, None]; HZ = hz[None, None, :]
    # x-faces: dEz/dy - dEy/dz
    add(fx, ez[:, 1:, :], 1/HY); add(fx, ez[:, :-1, :], -1/HY)
    add(fx, ey[:, :, 1:], -1/HZ); add(fx, ey[:, :, :-1], 1/HZ)
    # y-faces: dEx/dz - dEz/dx
    add(fy, ex[:, :, 1:], 1/HZ); add(fy, ex[:, :, :-1], -1/HZ)
    add(fy, ez[1:, :, :], -1/HX); add(fy, ez[:-1, :, :], 1/HX)
    # z-faces: dEy/dx - dEx/dy
    add(fz, ey[1:, :, :], 1/HX); add(fz, ey[:-1, :, :], -1/HX)
    add(fz, ex[:, 1:, :], -1/HY); add(fz, ex[:, :-1, :], 1/HY)
    return sp.csr_matrix((np.concatenate(vals),
                          (np.concatenate(rows), np.concatenate(cols))),
                         shape=(nf, ne))


def _pair_sum(q, ax):
    pad = [(0, 0)]*3
    pad[ax] = (1, 1)
    qp = np.pad(q, pad)
    s0 = [slice(None)]*3; s1 = [slice(None)]*3
    s0[ax] = slice(0, -1); s1[ax] = slice(1, None)
    return qp[tuple(s0)] + qp[tuple(s1)]


def face_mass(hx, hy, hz, mur=None):
    """Two-cell average of V/mu_r on faces (zero outside the domain)."""
    vol = hx[:, None, None]*hy[None, :, None]*hz[None, None, :]
    zeta = vol/(1.0 if mur is None else mur)
    return np.concatenate([0.5*_pair_sum(zeta, ax).ravel('F')
                           for ax in range(3)])


def edge_mass(hx, hy, hz, sx, sy, sz, epsr, s):
    """Four-cell average of V (sigma_dir + s eps0 eps_r) on edges."""
    vol = hx[:, None, None]*hy[None, :, None]*hz[None, None, :]
    e = 0 if epsr is None else s*epsilon_0*epsr
    out = []
    for sig, axes in ((sx, (1, 2)), (sy, (0, 2)), (sz, (0, 1))):
        q = vol*(sig+e)
        for ax in axes:
            q = _pair_sum(q, ax)
        out.append(0.25*q.ravel('F'))
    return np.concatenate(out)


def assemble(hx, hy, hz, sx, sy, sz, mur, epsr, s):
    """A = C^T M_f C + s mu0 M_e; returns (A csr, interior mask, C, Mf, Me).

    sx, sy, sz: conductivities per cell (arrays of shape (nx, ny, nz) or
    scalars); mur, epsr arrays or None; s the Laplace parameter (i omega or
    real)."""
    hx, hy, hz = (np.asarray(h, float) for h in (hx, hy, hz))
    nx, ny, nz = len(hx), len(hy), len(hz)
    shp = (nx, ny, nz)
    sx, sy, sz = (np.broadcast_to(np.asarray(a), shp) for a in (sx, sy, sz))
    C = curl(hx, hy, hz)
    Mf = face_mass(hx, hy, hz, mur)
    Me = edge_mass(hx, hy, hz, sx, sy, sz, epsr, s)
    A = (C.T @ sp.diags(Mf) @ C + s*mu_0*sp.diags(Me)).tocsr()
    return A, interior_mask(nx, ny, nz), C, Mf, Me


def absmat(A):
    B = A.copy()
    B.data = np.abs(B.data)
    return B


def gradient(hx, hy, hz):
    """Node -> edge discrete gradient on field values (+-1/h)."""
    nx, ny, nz = len(hx), len(hy), len(hz)
    ex, ey, ez = edge_index(nx, ny, nz)
    nn = idx((nx+1, ny+1, nz+1))
    rows, cols, vals = [], [], []

    def add(r, c, v):
        rows.append(r.ravel()); cols.append(c.ravel())
        vals.append(np.broadcast_to(v, r.shape).ravel())
    HX = hx[:, None, None]; HY = hy[None, :, None]; HZ = hz[None, None, :]
    add(ex, nn[1:, :, :], 1/HX); add(ex, nn[:-1, :, :], -1/HX)
    add(ey, nn[:, 1:, :], 1/HY); add(ey, nn[:, :-1, :], -1/HY)
    add(ez, nn[:, :, 1:], 1/HZ); add(ez, nn[:, :, :-1], -1/HZ)
    ne = ex.size+ey.size+ez.size
    return sp.csr_matrix((np.concatenate(vals),
                          (np.concatenate(rows), np.concatenate(cols))),
                         shape=(ne, nn.size))

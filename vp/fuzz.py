"""Coverage-guided engine: drives a check's case function with atheris
(libFuzzer) through Hypothesis' `fuzz_one_input`, i.e. libFuzzer mutates the
byte stream that the *same* Hypothesis strategy decodes into a spec, and the
pure-Python modules of emg3d are instrumented so that new branches of the code
under test are rewarded.  The semantic oracle is the case function itself.

Run as a subprocess of Ctx.fuzz (libFuzzer ends the process itself):
    python -m vp.fuzz <PID> <sub> --runs N --seed S --tier T --out file.json

Every violation is recorded (one per signature, collect-then-continue: the
signature is excluded and the campaign goes on).  The result file is
rewritten periodically because `atexit` handlers do not run under libFuzzer.
"""
import argparse
import importlib
import json
import os
import shutil
import sys
import tempfile
import time

# All emg3d modules except those holding numba-jitted functions (instrumented
# byte code cannot be compiled by numba) give coverage feedback.
INSTRUMENT = ['emg3d']
NOT_INSTRUMENTED = ['emg3d.core', 'emg3d.maps', 'emg3d.fields']


def _patch_bytestring_provider():
    """Hypothesis 6.168: BytestringProvider.draw_integer draws `bits` bits
    and rejects until min <= value <= max *without adding min_value*, so any
    bounded integer with min_value >= 2**bits (e.g. the index draws of
    fixed_dictionaries / permutations) overruns every buffer and the test
    body is never executed.  Checker-side repair of the tooling: offset
    the drawn value by min_value."""
    from hypothesis.internal.conjecture import providers as P

    def draw_integer(self, min_value=None, max_value=None, *, weights=None,
                     shrink_towards=0):
        if min_value is None and max_value is None:
            min_value = -(2**127)
            max_value = 2**127 - 1
        elif min_value is None:
            min_value = max_value - 2**64
        elif max_value is None:
            max_value = min_value + 2**64
        if min_value == max_value:
            return min_value
        span = max_value - min_value
        bits = span.bit_length()
        value = self._draw_bits(bits)
        while value > span:
            value = self._draw_bits(bits)
        return min_value + value

    P.BytestringProvider.draw_integer = draw_integer


def main(argv=None):
    ap = argparse.ArgumentParser()
    ap.add_argument('property')
    ap.add_argument('sub')
    ap.add_argument('--runs', type=int, default=1000)
    ap.add_argument('--seed', type=int, default=1)
    ap.add_argument('--tier', default='quick')
    ap.add_argument('--shard', default='0/1')
    ap.add_argument('--out', required=True)
    ap.add_argument('--max-len', type=int, default=4096)
    ap.add_argument('--unit-timeout', type=int, default=300)
    args = ap.parse_args(argv)

    from vp import runner, framework
    deps = os.path.join(framework.VERIF, '.deps')
    if deps not in sys.path:
        sys.path.append(deps)
    import atheris
    os.environ.setdefault('EMSIG_EMG3D_VERIF', '1')
    # pin the tree under test / numba cache exactly as the runner does, but
    # import emg3d under instrumentation
    import hashlib
    import glob
    REPO = runner.REPO
    h = hashlib.sha256()
    for fn in ('core.py', 'maps.py', 'fields.py'):
        with open(os.path.join(REPO, 'emg3d', fn), 'rb') as f:
            h.update(f.read())
    h.update(REPO.encode())
    cdir = os.path.join(framework.VERIF, '.cache', 'numba',
                        h.hexdigest()[:20])
    os.makedirs(cdir, exist_ok=True)
    os.environ['NUMBA_CACHE_DIR'] = cdir
    sys.path.insert(0, REPO)   # plain PathFinder import (instrumentable)
    with atheris.instrument_imports(include=INSTRUMENT,
                                    exclude=NOT_INSTRUMENTED,
                                    enable_loader_override=False):
        import emg3d
        import emg3d.cli.main  # noqa
        import emg3d.cli.parser  # noqa
        import emg3d.cli.run  # noqa
    real = os.path.realpath(emg3d.__file__)
    if not real.startswith(REPO + os.sep):
        print(f"HARNESS-ERROR: emg3d imported from {real}, expected {REPO}")
        return 2
    mod = importlib.import_module('vp.checks.' + runner.CHECKS[args.property])
    strategy, fn = mod.FUZZ[args.sub]

    i, n = args.shard.split('/')
    ctx = framework.Ctx(args.property, args.tier, args.seed,
                        (int(i), int(n)))
    sub = args.sub
    skip = set()
    state = {'n': 0, 't0': time.time(), 'last': 0.0, 'herr': None}

    import hypothesis
    from hypothesis import HealthCheck, given, settings
    _patch_bytestring_provider()

    @settings(database=None, deadline=None, print_blob=False,
              suppress_health_check=list(HealthCheck))
    @given(strategy)
    def test(spec):
        ctx._run_case(sub, fn, spec, skip)

    fuzz_one = test.hypothesis.fuzz_one_input

    def dump():
        res = ctx.result(mod, time.time() - state['t0'])
        res['fuzz_executions'] = state['n']
        tmp = args.out + '.tmp'
        with open(tmp, 'w') as f:
            json.dump(res, f, default=repr)
        os.replace(tmp, args.out)

    def one_input(data):
        state['n'] += 1
        try:
            fuzz_one(data)
        except framework.Violation as v:
            ctx._record_violation(sub, v)
            skip.add(v.signature)
            dump()
        except framework.HarnessError as e:
            ctx.harness_errors.append(f'{sub}(fuzz): {e}')
            dump()
            os._exit(0)
        except BaseException as e:   # checker-side bug: harness error
            import traceback
            ctx.harness_errors.append(
                f'{sub}(fuzz): ' + ''.join(traceback.format_exception(
                    type(e), e, e.__traceback__))[-1500:])
            dump()
            os._exit(0)
        now = time.time()
        if now - state['last'] > 5 or state['n'] >= args.runs:
            state['last'] = now
            dump()

    corpus = tempfile.mkdtemp(prefix='corpus_', dir=os.path.dirname(args.out))
    # libFuzzer grows inputs from a few bytes; the strategies need hundreds
    # of bytes, so the campaign starts from pseudo-random buffers (a pure
    # function of the seed) and without length control.
    import random
    rng = random.Random(args.seed)
    for k, ln in enumerate([64, 256, 512, 1024, 2048, args.max_len]*2):
        with open(os.path.join(corpus, f'seed{k}'), 'wb') as f:
            f.write(bytes(rng.getrandbits(8) for _ in range(ln)))
    largv = [sys.argv[0], f'-runs={args.runs}', f'-seed={max(1, args.seed)}',
             f'-max_len={args.max_len}', '-len_control=0',
             f'-timeout={args.unit_timeout}',
             f'-artifact_prefix={corpus}/', '-verbosity=1', '-print_final_stats=1',
             corpus]
    dump()
    atheris.Setup(largv, one_input)
    try:
        atheris.Fuzz()
    finally:
        dump()
        shutil.rmtree(corpus, ignore_errors=True)
    return 0


if __name__ == '__main__':
    sys.exit(main())

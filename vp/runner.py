"""Runner of the property checks: `python -m vp.runner <ID> --tier quick`.

Exit codes: 0 held (possibly KNOWN-FINDING lines), 1 VIOLATION, 2 harness error.
See DESIGN.md section 2.
"""
import argparse
import glob
import hashlib
import importlib
import json
import os
import shutil
import subprocess
import sys
import time
import traceback

VERIF = os.path.dirname(os.path.dirname(os.path.abspath(__file__)))
REPO = os.path.realpath(os.environ.get('EMG3D_UNDER_TEST', '/repo'))

CHECKS = {
    'C01': 'c01_solve', 'C02': 'c02_operator', 'C03': 'c03_smoothers',
    'C04': 'c04_transfer', 'C05': 'c05_cycling', 'C06': 'c06_convergence',
    'C07': 'c07_gradient', 'C08': 'c08_jvec', 'C09': 'c09_receivers',
    'C10': 'c10_sources', 'C11': 'c11_parallel', 'C12': 'c12_history',
    'C13': 'c13_noise', 'C14': 'c14_mapping', 'C15': 'c15_volavg',
    'C16': 'c16_gridding', 'C17': 'c17_io', 'C18': 'c18_cli',
    'C19': 'c19_layered', 'C20': 'c20_time',
}


def setup_environment():
    """Pin the code under test to REPO's working tree and isolate numba cache.

    The numba cache directory is keyed on the content of the files holding
    jitted kernels, so an edited kernel is always recompiled and /repo is
    never written to.
    """
    h = hashlib.sha256()
    for fn in ('core.py', 'maps.py', 'fields.py'):
        with open(os.path.join(REPO, 'emg3d', fn), 'rb') as f:
            h.update(f.read())
    h.update(REPO.encode())
    base = os.path.join(VERIF, '.cache', 'numba')
    cdir = os.path.join(base, h.hexdigest()[:20])
    os.makedirs(cdir, exist_ok=True)
    try:
        os.utime(cdir)
        # Keep the twelve most recently used cache directories only.
        dirs = sorted(glob.glob(os.path.join(base, '*')), key=os.path.getmtime)
        for d in dirs[:-12]:
            shutil.rmtree(d, ignore_errors=True)
    except OSError:
        pass
    os.environ['NUMBA_CACHE_DIR'] = cdir
    # empymod also jits with cache=True into its own __pycache__; fine.
    if REPO != '/repo':
        sys.path.insert(0, REPO)
        os.environ['PYTHONPATH'] = REPO + os.pathsep + os.environ.get(
            'PYTHONPATH', '')
    os.environ.setdefault('PYTHONHASHSEED', '0')
    for k in ('OMP_NUM_THREADS', 'OPENBLAS_NUM_THREADS', 'MKL_NUM_THREADS',
              'NUMBA_NUM_THREADS'):
        os.environ.setdefault(k, '1')
    import emg3d
    real = os.path.realpath(emg3d.__file__)
    if not real.startswith(REPO + os.sep):
        print(f"HARNESS-ERROR: emg3d imported from {real}, expected {REPO}")
        sys.exit(2)
    return emg3d


def warm():
    """Compile the kernels once (used by setup.sh)."""
    import numpy as np
    emg3d = setup_environment()
    hx = np.ones(4)*10.
    grid = emg3d.TensorMesh([hx, hx, hx], (0, 0, 0))
    for f in (1.0, -1.0):
        model = emg3d.Model(grid, 1.0, 2.0, 3.0)
        sf = emg3d.get_source_field(grid, (20, 20, 20, 10, 10), f)
        emg3d.solve(model, sf, verb=-1, maxit=2)
        emg3d.solve(model, sf, verb=-1, maxit=2, linerelaxation=False,
                    semicoarsening=False, sslsolver=False)
        emg3d.get_magnetic_field(model, sf)
        sf.interpolate_to_grid(grid)
    print("numba cache warm:", os.environ['NUMBA_CACHE_DIR'])


def main(argv=None):
    ap = argparse.ArgumentParser()
    ap.add_argument('property', nargs='?')
    ap.add_argument('--tier', default=os.environ.get('VERIF_TIER', 'quick'),
                    choices=['quick', 'thorough'])
    ap.add_argument('--replay', default=None)
    ap.add_argument('--shard', default=None, help="i/n (internal)")
    ap.add_argument('--out', default=None, help="shard result file")
    ap.add_argument('--scale', type=float,
                    default=float(os.environ.get('VERIF_SCALE', '1')),
                    help="multiply case counts (sensitivity runs)")
    ap.add_argument('--only', default=None,
                    help="comma list of sub-checks to run")
    ap.add_argument('--no-evidence', action='store_true')
    ap.add_argument('--warm', action='store_true')
    args = ap.parse_args(argv)

    if args.warm:
        warm()
        return 0
    pid = args.property
    if pid not in CHECKS:
        print(f"HARNESS-ERROR: unknown property {pid}")
        return 2
    try:
        seed = int(os.environ.get('VERIF_SEED', '1'))
    except ValueError:
        seed = 1

    from vp import framework
    t0 = time.time()
    try:
        setup_environment()
        mod = importlib.import_module('vp.checks.' + CHECKS[pid])
    except SystemExit:
        raise
    except Exception:
        traceback.print_exc()
        print("HARNESS-ERROR: import failed")
        return 2

    # --- replay mode: call the case function directly, no Hypothesis -----
    if args.replay:
        return framework.replay(mod, pid, args.replay)

    nshards = getattr(mod, 'SHARDS', {}).get(args.tier, 1)
    if args.shard is None and nshards > 1:
        # parent: fan out to subprocesses, merge
        return framework.run_sharded(pid, mod, args, seed, nshards, t0)

    shard = (0, 1)
    if args.shard:
        i, n = args.shard.split('/')
        shard = (int(i), int(n))
    ctx = framework.Ctx(pid, args.tier, seed, shard, scale=args.scale,
                        only=args.only)
    try:
        mod.run(ctx)
    except framework.HarnessError as e:
        print(f"HARNESS-ERROR: {e}")
        ctx.harness_errors.append(str(e))
    except Exception:
        tb = traceback.format_exc()
        print(tb)
        print("HARNESS-ERROR: unexpected exception in check driver")
        ctx.harness_errors.append(tb[-2000:])
    result = ctx.result(mod, time.time()-t0)
    if args.out:
        with open(args.out, 'w') as f:
            json.dump(result, f)
        return 0
    return framework.finish(pid, mod, args, seed, [result], t0)


if __name__ == '__main__':
    sys.exit(main())

"""C17 - save/load round-trip of every emg3d object in every file format.

A recursive Hypothesis strategy draws a JSON-able *spec* of an object graph
(nested dictionaries, depth <= 4, of scalars, arrays and emg3d objects); the
case expands it into real objects, pushes it through `emg3d.save` /
`emg3d.load` (h5, npz, json), `emg3d.io.convert` (six pairs) or the
`to_file` / `from_file` methods and compares what comes back with the
checker's own deep equality (never emg3d's `__eq__`, which is `allclose`).
The reference is a snapshot taken before the save; the saved objects must
still canonise to it afterwards.  Documented behaviour of `verb`, file names
and an existing file of the same name are part of each case.
"""
import contextlib
import io
import json
import os
import re
import shutil
import tempfile
import traceback
import warnings

import numpy as np
from hypothesis import strategies as st

from vp import gen
from vp.framework import EMG3D_DIR, VERIF, HarnessError, Violation

RULE = ("Recursive spec of an object graph: dictionaries nested up to depth 4 "
        "holding int/float(NaN,inf)/complex/bool/str(unicode, empty)/None, "
        "numpy scalars (8 dtypes, not 0-d arrays), "
        "real/complex/int arrays of dimension 0..4 (empty, C/F order, 13 "
        "dtypes incl. float16/uint64, NaN/inf sprinkled, one in 40 with "
        ">1e4 elements; strided, reversed, transposed, zero-stride and "
        "read-only views) and instances of all 12 registered "
        "classes (TensorMesh; Model: 6 mappings x 4 anisotropy cases x "
        "mu_r/eps_r, also on a discretize mesh; Field: electric/magnetic x "
        "frequency/Laplace/None x real/complex, single precision if "
        "frequency is None, frequency as float/int/numpy.float64; 5 Tx and 2 "
        "Rx classes in all "
        "coordinate formats, complex strengths, relative receivers; Survey: "
        "1-3 sources, 0-3 receivers, custom keys, several data sets with "
        "NaN, scalar/array noise floor and relative error, explicit standard "
        "deviation, name/date/info, and in 30 % a history between "
        "construction and save: noise setters array->float/None, "
        "standard_deviation=None, select(), data['x']=..., copy(), "
        "from_dict(to_dict()); Simulation: all seven gridding modes, "
        "gridding/solver/tqdm/layered options, file_dir, copy(), and "
        "per-process cached *computed* simulations: fields only, +misfit, "
        "+gradient, one of two fields only, file_dir (stores hold file "
        "names), automatic 'single' gridding (grid != model grid), layered, "
        "three source types with custom keys and Krylov info, after "
        "clean('keepresults') / clean('computed')).  A node may also be an "
        "instance built earlier in the same graph or a part of it (the same "
        "object under two keys: sim + sim.survey + sim.model + grid + "
        "source, the same array twice).  Each case is one graph x one of "
        "{h5, npz, json, six "
        "convert pairs} x save options (compression gzip/lzf/0/1/9, "
        "json_indent) x verb of save and of load in {-1, 0, 1, not given} x "
        "file name (several dots, blank, unicode, other format's extension "
        "inside; relative path; a file of that name with other content "
        "exists) (sub-check graph) or one "
        "Survey/Simulation x format x what x name x verb x file name through "
        "to_file/from_file, for simulations followed in 50 % by a plain "
        "emg3d.save of the same object (sub-check tofile).  Equality "
        "(checker's own, never emg3d's "
        "allclose __eq__): same class, recursively equal to_dict() contents "
        "and equal public attributes (for a Simulation also the stored "
        "tqdm_opts, computed flag and _input_sc2); arrays equal in shape, "
        "dtype and every "
        "value incl. NaN positions; scalars equal in value and kind "
        "(bool/int/float/complex/str/None; 0-d numeric arrays unwrapped; "
        "numpy scalar dtypes compared when both sides are numpy).  The "
        "reference tree is a snapshot taken before the save; after the save "
        "the live objects must still canonise to it (save/to_file does not "
        "change what it saves).  verb: 1/default prints, 0 is silent, -1 "
        "returns the info string (second item of a tuple for load / "
        "from_file).  A convert "
        "case compares load(B) with load(A) and attributes a difference to "
        "format B if load+save by hand shows it too, else to convert.  "
        "Excluded and counted (classes excl:*): reserved key tokens '>', "
        "'/', '__array', '__complex', '__class__', '__shape-'; the string "
        "value 'NoneType'; boolean arrays; behind a flag (off, judged "
        "outside the domain): the key ''.  A bare discretize.TensorMesh as "
        "value (own key, gridding_opts, ref to model.grid) is generated and "
        "expected back as the equal emg3d.TensorMesh.  Not "
        "generated: NUL/surrogate "
        "characters, ints outside int64, non-string keys (documented: keys "
        "are cast to str), lists as dictionary values, non-native byte "
        "order, compression=None, verb for convert.  Non-trivial = graph "
        "holds >=1 emg3d instance and >=1 array; distinct by (mode, node "
        "types in order, set of classes hit).")
ASSUMPTIONS = [
    "to_dict() plus the documented public attributes (checker's table "
    "public_view) expose everything that defines an object",
    "lists/tuples of numbers inside emg3d objects (gridding options) are "
    "equal to the array numpy.asarray() makes of them",
    "numpy array comparison, tempfile, json, h5py and numpy.load behave as "
    "documented; emg3d's private readers are used for *diagnosis* of the "
    "signature only, never to decide pass/fail",
    "sign of zero and NaN payload bits are not compared; memory layout "
    "(C/F order, strides, writeable flag) of a loaded array is not content",
    "the list of known findings is only used to order the differences of "
    "one case (an unlisted difference is reported before a listed one)",
    "an exception raised while the checker canonises loaded data is a "
    "harness error unless a frame of emg3d raised it while the same "
    "evaluation of the saved object had gone through (then: the loaded "
    "object does not behave like the saved one); private attributes are "
    "read with a default",
    "saving an object is expected to leave it unchanged (as seen through "
    "to_dict() and the public attributes); nothing but emg3d's info line "
    "is printed to stdout by save/load at verb=1, nothing at verb<=0",
    "a discretize.TensorMesh is equal to the emg3d.TensorMesh of the same "
    "h and origin (documented: stored as if created using emg3d)",
]
SHARDS = {'quick': 1, 'thorough': 16}

FORMATS = ['h5', 'npz', 'json']
PAIRS = [f"{a}>{b}" for a in FORMATS for b in FORMATS if a != b]
META = ('_date', '_version', '_format')
KNOWN = ['TensorMesh', 'Model', 'Field', 'TxElectricPoint', 'TxMagneticPoint',
         'TxElectricDipole', 'TxMagneticDipole', 'TxElectricWire',
         'RxElectricPoint', 'RxMagneticPoint', 'Survey', 'Simulation']

_tb = os.path.join(VERIF, '.cache', 'tmp')
try:
    os.makedirs(_tb, exist_ok=True)
    TMPBASE = _tb
except OSError:                                      # pragma: no cover
    TMPBASE = tempfile.gettempdir()


# ======================================================================
# Strategies (JSON-able specs)
# ======================================================================
SEED = gen.SEED

# Generator branches that reach a candidate defect of the tree under test
# (reported in /tmp/audit/C17_finding.md, not yet decided).  The spec always
# carries the draw (so replay files stay valid); with the flag off the builder
# substitutes the nearest accepted input and counts `excl:*_disabled`.
# C17_ENABLE=emptykey switches a disabled one on for one run (triage).
_EN = set(filter(None, os.environ.get('C17_ENABLE', '').split(',')))
# A bare discretize.TensorMesh as a saved value (manual and io.py limitation
# 3: "stored as if they were created using emg3d"): save raised / the npz
# file could not be loaded until repair 29942fc; on since then (replays
# findings/C17/dmesh_*.json).  C17_ENABLE=nodmesh switches it off.
ENABLE_DMESH = 'nodmesh' not in _EN
# The key '' in a nested dict: not documented either way; h5 cannot store it
# (HDF5 link names are not empty), npz drops the entry silently.  Treated as
# outside the property's domain (a *name* is expected), see the finding file.
ENABLE_EMPTY_KEY = 'emptykey' in _EN

KEY_ALPH = 'abcXYZ019_- .éß雪'
KEY_HEAD = 'abcXYZ019_é雪'
RESERVED_KEYS = ['a>b', 'a/b', 'x__array', 'y__complex', '__class__',
                 'p__array-float64', '>', 'q__shape-2x3', 'r__shape-']
KEY = st.one_of(
    st.sampled_from(['a', 'b', 'data', 'x1', 'key two', 'ü', 'f-1', '0',
                     '_p', 'A.b', 'grid', 'model', 'survey', 'name']),
    st.tuples(st.sampled_from(list(KEY_HEAD)),
              st.text(KEY_ALPH, max_size=5)).map(lambda t: t[0]+t[1]),
    st.sampled_from(['a', 'b', 'c', 'd']),
    st.sampled_from(['a', 'b', 'c', 'd']),
    st.integers(0, 39).flatmap(
        lambda k: st.sampled_from(RESERVED_KEYS) if k == 0
        else st.just('') if k == 1
        else st.sampled_from(['k', 'kk', 'k_1'])),
)
TEXT = st.one_of(
    st.sampled_from(['', 'héllo', 'x', ' ', 'a\nb', '雪', 'True',
                     '1.5', 'None', 'complex', 'data._noise_floor']),
    st.text(st.characters(blacklist_categories=('Cs',),
                          blacklist_characters='\x00'), max_size=8),
    st.integers(0, 29).map(lambda k: 'NoneType' if k == 0 else 'text'),
)
FLOAT = st.one_of(
    st.floats(allow_nan=True, allow_infinity=True),
    st.floats(-1e3, 1e3),
    st.sampled_from([float('nan'), float('inf'), float('-inf'), 0.0, -0.0,
                     1e-300, 1.7976931348623157e308, 5e-324, 0.1, 1/3]))
INT = st.one_of(st.integers(-5, 5), st.integers(-2**63, 2**63-1))

DTYPES = (['float64']*10 + ['complex128']*8 + ['int64']*4 +
          ['float32', 'int32', 'uint8', 'complex64', 'bool']*2 +
          ['float16', 'int8', 'int16', 'uint16', 'uint32', 'uint64'])
DIM = st.sampled_from([0, 1, 1, 2, 2, 3, 3, 4])
VIEWS = ['none']*6 + ['step2', 'rev', 'T', 'readonly', 'bcast']
ARRAY = st.fixed_dictionaries({
    't': st.just('array'),
    'dtype': st.sampled_from(DTYPES),
    'shape': st.lists(DIM, min_size=0, max_size=3).flatmap(
        lambda sh: st.just(sh) if len(sh) < 3 else st.sampled_from(
            [sh]*5 + [sh + [2]])),                     # 4-D now and then
    'order': st.sampled_from(['C', 'F']),
    'special': st.sampled_from(['none', 'none', 'nan', 'inf', 'partial']),
    'view': st.sampled_from(VIEWS),
    'big': st.integers(0, 39).map(lambda k: k == 0),
    'seed': SEED,
})
NPSCALAR = st.fixed_dictionaries({
    't': st.just('npscalar'),
    'dtype': st.sampled_from(['int64', 'int32', 'uint8', 'float64',
                              'float32', 'complex128', 'complex64', 'bool_']),
    'i': st.one_of(st.integers(-5, 5), st.integers(-2**63, 2**63-1)),
    're': FLOAT, 'im': FLOAT,
})


def _w(strategy):
    """one_of flattens nested one_of's, also through .map (and with them the
    intended weights); a one-element tuple is opaque to that."""
    return st.tuples(strategy).map(lambda t: t[0])


SCALAR = st.one_of(
    _w(INT).map(lambda v: {'t': 'int', 'v': v}),
    _w(FLOAT).map(lambda v: {'t': 'float', 'v': v}),
    st.tuples(FLOAT, FLOAT).map(lambda v: {'t': 'complex', 're': v[0],
                                          'im': v[1]}),
    st.booleans().map(lambda v: {'t': 'bool', 'v': v}),
    _w(TEXT).map(lambda v: {'t': 'str', 'v': v}),
    st.just({'t': 'none'}),
    _w(NPSCALAR), _w(NPSCALAR), _w(NPSCALAR),
)

# Heavy objects: only the structural choices are Hypothesis draws, the rest
# of the (JSON-able) spec is expanded from the drawn seed -- a spec with ~100
# independent draws overruns Hypothesis' per-example budget and is discarded,
# which starved the graphs of surveys and simulations.
KEYPOOL = ['a', 'b', 'data', 'x1', 'key two', 'ü', 'f-1', '0', '_p', 'A.b',
           'src', 'S-001', 'k_', 'Tx 1', '雪', 'é.1', 'a>b', 'x__array']
TEXTPOOL = ['', 'héllo', 'x', ' ', 'a\nb', '雪', 'True', '1.5', 'None',
            'Survey 2026', '2026-09-23', 'line1\nline2 – ünïcode', 'NoneType',
            'data._noise_floor']


def _pick(rng, seq):
    return seq[int(rng.integers(0, len(seq)))]


def _opt_text(rng):
    return None if rng.random() < 0.4 else _pick(rng, TEXTPOOL)


def _lg(rng, lo, hi):
    return float(10.0**rng.uniform(np.log10(lo), np.log10(hi)))


def _x_tx(s):
    rng = gen.rng_of(s['seed'], 120)
    k = rng.integers(0, 3)
    s['strength'] = ([1.0, None] if k == 0 else
                     [float(rng.uniform(-1e3, 1e3)), None] if k == 1 else
                     [float(rng.uniform(-1e3, 1e3)),
                      float(rng.uniform(-1e3, 1e3))])
    s['length'] = None if rng.random() < 0.3 else _lg(rng, 1e-2, 1e3)
    s['n'] = int(rng.integers(2, 6))
    s['container'] = _pick(rng, ['tuple', 'list', 'array'])
    return s


def _x_rx(s):
    s['container'] = _pick(gen.rng_of(s['seed'], 121),
                           ['tuple', 'list', 'array'])
    return s


def _x_field(s):
    rng = gen.rng_of(s['seed'], 122)
    f = _lg(rng, 1e-3, 1e4)
    s['freq'] = {'none': None, 'freq': f, 'laplace': -f}[s.pop('dom')]
    s['cplx'] = bool(rng.random() < 0.5)          # dtype if frequency is None
    s['data'] = 'none' if rng.random() < 0.25 else 'random'
    s['dgrid'] = bool(rng.random() < 0.25)
    # (new draws last: the older ones keep their values for a given seed)
    # frequency None: the dtype of the data (or `dtype`) is the field's dtype
    s['fdtype'] = _pick(rng, [None, None, 'single'])
    # how the frequency is handed over: float | int | numpy.float64
    s['ftype'] = _pick(rng, ['float']*3 + ['int', 'np'])
    s['hist'] = ['copy'] if rng.random() < 0.15 else []
    return s


def _x_model(s):
    rng = gen.rng_of(s['model']['seed'], 123)
    s['dgrid'] = bool(rng.random() < 0.25)
    s['hist'] = ['copy'] if rng.random() < 0.15 else []
    return s


SURVEY_OPS = ['nf_array_float', 'nf_array_none', 're_array_float',
              'std_none', 'select', 'select_src', 'data_assign', 'copy',
              'from_dict']


def _x_hist(rng):
    """History of a Survey between construction and save (public API)."""
    if rng.random() < 0.7:
        return []
    return [_pick(rng, SURVEY_OPS) for _ in range(int(rng.integers(1, 3)))]


def _x_survey(s):
    rng = gen.rng_of(s['seed'], 124)
    custom = s.pop('keys') == 'custom'
    for k in ('srckeys', 'reckeys', 'freqkeys'):
        s[k] = ([_pick(rng, KEYPOOL) for _ in range(3)]
                if custom and rng.random() < 0.7 else None)
    s['nanfrac'] = _pick(rng, [0.0, 0.3, 1.0])
    s['extra'] = [[_pick(rng, ['synthetic', 'mydata', 'set 2'] + KEYPOOL),
                   bool(rng.random() < 0.5)]
                  for _ in range(int(rng.integers(0, 3)))]
    for k in ('nf', 're'):
        s[k] = {'kind': s[k], 'seed': int(rng.integers(0, 2**32))}
    for k in ('name', 'date', 'info'):
        s[k] = _opt_text(rng)
    s['hist'] = _x_hist(rng)
    return s


GOPT_KEYS = ['center', 'frequency', 'mapping', 'properties',
             'min_width_limits', 'stretching', 'lambda_factor', 'max_buffer',
             'lambda_from_center', 'center_on_edge', 'cell_numbers',
             'seasurface', 'vector', 'domain', 'distance']
SOLVER_OPTS = [
    None, {}, {'plain': True}, {'tol': 1e-5, 'maxit': 10},
    {'sslsolver': 'bicgstab', 'semicoarsening': True, 'tol': 1e-4},
    {'tol_gradient': 1e-3}, {'tol': 1e-7, 'tol_gradient': 1e-2, 'verb': -1},
    {'linerelaxation': False, 'cycle': 'V', 'nu_pre': 1},
]
LAYERED_OPTS = [None, {}, {'method': 'midpoint'},
                {'method': 'prism', 'ellipse': {'factor': 1.5}}]


def _x_gopts(rng):
    g = {}
    for k in GOPT_KEYS:
        if rng.random() > 0.25:
            continue
        if k == 'center':
            v = [float(x) for x in rng.uniform(-1e3, 1e3, 3)] + [
                _pick(rng, ['tuple', 'list', 'array'])]
        elif k == 'frequency':
            v = _lg(rng, 1e-2, 1e2)
        elif k == 'mapping':
            v = _pick(rng, gen.MAPPINGS)
        elif k == 'properties':
            n = _pick(rng, [0, 2, 3, 4, 7])
            v = ([_lg(rng, 1e-2, 1e2) for _ in range(n)] if n
                 else _lg(rng, 1e-2, 1e2))
        elif k == 'min_width_limits':
            v = (_lg(rng, 1, 1e2) if rng.random() < 0.5
                 else [_lg(rng, 1, 10), _lg(rng, 10, 100)])
        elif k == 'stretching':
            v = [float(rng.uniform(1.0, 1.1)), float(rng.uniform(1.2, 1.6))]
        elif k == 'lambda_factor':
            v = float(rng.uniform(0.5, 2.0))
        elif k == 'max_buffer':
            v = _lg(rng, 1e3, 1e5)
        elif k in ('lambda_from_center', 'center_on_edge'):
            v = bool(rng.random() < 0.5)
        elif k == 'cell_numbers':
            v = sorted({int(_pick(rng, [8, 16, 32, 64, 128]))
                        for _ in range(3)})
        elif k == 'seasurface':
            v = float(rng.uniform(0.0, 1e3))
        elif k == 'vector':
            v = _pick(rng, ['x', 'xy', 'xyz', 'z', 'yz'])
        else:
            v = _pick(rng, ['dict', 'tuple'])
        g[k] = v
    return g


def _x_sim(s):
    rng = gen.rng_of(s['seed'], 125)
    s['gopts'] = _x_gopts(rng)
    s['grid2'] = dict(s['grid'], seed=int(rng.integers(0, 2**32)),
                      n=[int(rng.integers(2, 5)) for _ in range(3)])
    s['solver_opts'] = _pick(rng, SOLVER_OPTS)
    s['tqdm'] = _pick(rng, ['default', True, False, 'dict'])
    s['max_workers'] = int(rng.integers(1, 5))
    s['verb'] = int(_pick(rng, [-1, 0, 1]))
    s['name'], s['info'] = _opt_text(rng), _opt_text(rng)
    s['rint'] = _pick(rng, ['cubic', 'linear'])
    s['layered_opts'] = _pick(rng, LAYERED_OPTS)
    s['file_dir'] = bool(rng.random() < 1/6)
    s['grid2']['dgrid'] = bool(rng.random() < 0.2)
    s['hist'] = ['copy'] if rng.random() < 0.1 else []
    return s


GRID = gen.grid_spec([1, 2, 3, 4])
MESH = st.fixed_dictionaries({
    't': st.just('mesh'), 'grid': GRID,
    'dgrid': st.integers(0, 3).map(lambda k: k == 0)})
MODEL = st.fixed_dictionaries({'t': st.just('model'), 'grid': GRID,
                               'model': gen.model_spec()}).map(_x_model)
FIELD = st.fixed_dictionaries({
    't': st.just('field'), 'grid': GRID,
    'dom': st.sampled_from(['none', 'freq', 'laplace']),
    'electric': st.booleans(),
    'seed': SEED,
}).map(_x_field)
TX = st.fixed_dictionaries({
    't': st.just('tx'),
    'cls': st.sampled_from(['TxElectricPoint', 'TxMagneticPoint',
                            'TxElectricDipole', 'TxElectricDipole',
                            'TxMagneticDipole', 'TxMagneticDipole',
                            'TxElectricWire']),
    'fmt': st.sampled_from(['point', 'flat', 'dipole']),
    'seed': SEED,
}).map(_x_tx)
RX = st.fixed_dictionaries({
    't': st.just('rx'),
    'cls': st.sampled_from(['RxElectricPoint', 'RxMagneticPoint']),
    'relative': st.booleans(),
    'seed': SEED,
}).map(_x_rx)
NOISE = st.sampled_from(['none', 'scalar', 'scalar', 'src', 'recfreq',
                         'full'])
SURVEY = st.fixed_dictionaries({
    't': st.just('survey'),
    'src': st.lists(TX, min_size=1, max_size=3),
    'rec': st.lists(RX, min_size=1, max_size=3),
    'norec': st.sampled_from([False]*6 + [True]),
    'keys': st.sampled_from(['auto', 'auto', 'custom']),
    'nfreq': st.integers(1, 3),
    'observed': st.sampled_from(['none', 'array', 'dict', 'dict']),
    'std': st.booleans(),
    'nf': NOISE,
    're': NOISE,
    'seed': SEED,
}).map(_x_survey)
SIM = st.fixed_dictionaries({
    't': st.just('sim'),
    'survey': SURVEY, 'grid': GRID, 'model': gen.model_spec(),
    'gridding': st.sampled_from(['same', 'same', 'single', 'frequency',
                                 'source', 'both', 'input', 'dict']),
    'layered': st.sampled_from([False]*4 + [True]),
    'seed': SEED,
}).map(_x_sim)
SIMC_VARIANTS = ['full']*4 + ['partial', 'file_dir', 'auto_single',
                              'layered', 'two_src', 'keepresults', 'cleaned']
SIMC = st.fixed_dictionaries({
    't': st.just('simc'),
    'stage': st.sampled_from(['computed', 'misfit', 'gradient']),
    'variant': st.sampled_from(SIMC_VARIANTS),
})
# The same instance (or a part of it) under a second key: the everyday
# save(sim=sim, survey=sim.survey, grid=model.grid).
REF = st.fixed_dictionaries({
    't': st.just('ref'),
    'to': st.integers(0, 7),
    'part': st.sampled_from(['self', 'self', 'survey', 'model', 'grid',
                             'source', 'array']),
})
OBJ = st.one_of(MESH, MODEL, FIELD, TX, RX, SURVEY, SURVEY, SIM, SIMC)
LEAF = st.one_of(_w(SCALAR), ARRAY)


def dict_s(depth, min_size=0):
    """Dictionary node with values of nesting depth <= depth below it."""
    opts = [_w(LEAF)]*4 + [_w(OBJ)]*4 + [REF]
    if depth > 0:
        opts += [st.deferred(lambda: dict_s(depth-1))]*4
    return st.lists(st.tuples(KEY, st.one_of(*opts)).map(list),
                    min_size=min_size, max_size=4
                    ).map(lambda it: {'t': 'dict', 'items': it})


# verb: None = not passed (the documented default applies), else the value.
VERB = st.sampled_from([0, 0, 0, -1, -1, 1, None])
# File name stems (the format's extension is appended) and whether the path
# is handed over relative to the working directory (documented: "absolute
# or relative path") / a file of that name with other content exists already.
STEM = st.sampled_from(['f']*4 + ['a.b', 'my file ü', 'x.h5', 'y.npz.json',
                                  '.hidden'])
FILEOPTS = {
    'verb': st.tuples(VERB, VERB).map(list),          # [save, load]
    'stem': STEM,
    'relative': st.integers(0, 5).map(lambda k: k == 0),
    'overwrite': st.integers(0, 7).map(lambda k: k == 0),
}
GRAPH = st.fixed_dictionaries({
    'mode': st.sampled_from(FORMATS*2 + PAIRS),
    'compression': st.sampled_from(['gzip']*3 + ['lzf', 1, 9, 0]),
    'json_indent': st.sampled_from([2, 2, None, 0]),
    'root': dict_s(3, min_size=1),          # root + 3 levels = depth 4
    **FILEOPTS,
})
TOFILE = st.fixed_dictionaries({
    'fmt': st.sampled_from(FORMATS),
    'obj': st.one_of(SURVEY, SIM, SIMC, SIMC),
    'name': st.one_of(st.none(), KEY),
    'what': st.sampled_from(['computed', 'computed', 'results', 'all',
                             'plain']),
    # serialise the same object once more afterwards (emg3d.save, default
    # `what`): the to_file flag must not outlive the call
    'again': st.booleans(),
    **FILEOPTS,
})


# ======================================================================
# Builders: spec -> real objects
# ======================================================================
def _sanitize_key(k, rec):
    new = k
    for tok, rep in (('>', '_'), ('/', '_'), ('__array', '_array'),
                     ('__complex', '_complex'), ('__class__', '_class_'),
                     ('__shape-', '_shape-')):
        new = new.replace(tok, rep)
    if new != k:
        rec.cls('excl:reserved_key_token')
    if new == '':
        if ENABLE_EMPTY_KEY:
            rec.cls('key:empty')
        else:
            rec.cls('excl:empty_key_disabled')
            new = 'empty_'
    return new


def _sanitize_str(v, rec):
    if v == 'NoneType':
        rec.cls('excl:NoneType_string')
        return 'NoneType_'
    return v


def build_array(s, rec, salt=5):
    rng = gen.rng_of(s['seed'], salt)
    dtype = s['dtype']
    if dtype == 'bool':
        rec.cls('excl:bool_array')
        dtype = 'uint8'
    dt = np.dtype(dtype)
    shape = list(s['shape'])
    n = int(np.prod(shape, dtype=int))
    if s.get('big', False) and n > 0 and shape:         # > 1e4 elements
        shape[0] *= 12007//n + 1
        n = int(np.prod(shape, dtype=int))
        rec.cls('array:big')
    shape = tuple(shape)
    view = s.get('view', 'none') if (shape and n) else 'none'
    perm = None
    if view == 'step2':               # every second row of a larger buffer
        n, full = 2*n, (2*shape[0],) + shape[1:]
    elif view == 'T':                 # general transposition of a C buffer
        perm = [int(i) for i in rng.permutation(len(shape))]
        full = tuple(shape[perm.index(i)] for i in range(len(shape)))
    elif view == 'bcast':             # zero strides along the first axis
        n, full = n//shape[0], (1,) + shape[1:]
    else:
        full = shape
    # exponent range of the random values, by precision of the dtype
    ex = {2: 4, 4: 30, 8: 30, 16: 30}[dt.itemsize] if dt.kind in 'fc' else 0
    if dt == np.dtype('complex64'):
        ex = 30

    def reals(k):
        v = rng.standard_normal(k)*10.0**rng.integers(-ex, ex, size=k)
        return v
    if dt.kind == 'f':
        a = reals(n).astype(dt)
    elif dt.kind == 'c':
        a = (reals(n) + 1j*reals(n)).astype(dt)
    else:
        info = np.iinfo(dt)
        a = rng.integers(info.min, info.max, size=n, dtype=dt, endpoint=True)
    sp = s['special']
    if n and dt.kind in 'fc' and sp != 'none':
        idx = rng.random(n) < 0.4
        idx[rng.integers(0, n)] = True
        if dt.kind == 'f':
            a[idx] = {'nan': np.nan, 'inf': np.inf,
                      'partial': -np.inf}[sp]
        elif sp == 'nan':
            a[idx] = np.nan + 1j*np.nan         # emg3d's "no data"
        elif sp == 'inf':
            a[idx] = np.inf
        else:                      # finite real part, non-finite imag part
            a.imag[idx] = rng.choice([np.nan, np.inf, -np.inf])
            rec.cls('array:complex_partial_nonfinite')
    a = a.reshape(full)
    if a.ndim > 0:              # (as*array would turn 0-d into 1-d)
        a = (np.asfortranarray(a) if s['order'] == 'F'
             else np.ascontiguousarray(a))
    if view == 'step2':
        a = a[::2]
    elif view == 'rev':
        a = a[::-1]
    elif view == 'T':
        a = np.transpose(a, perm)
    elif view == 'bcast':
        a = np.broadcast_to(a, shape)
    elif view == 'readonly':
        a.setflags(write=False)
    if a.shape != shape:                                    # harness error
        raise HarnessError(f"build_array: {a.shape} != {shape} ({view})")
    rec.cls(f"array:ndim={a.ndim}", f"array:dtype={dtype}",
            f"array:view={view}")
    if a.size == 0:
        rec.cls("array:empty" + (":nd" if a.ndim > 1 else ""))
    return a


def build_npscalar(s, rec):
    """numpy scalar (not a 0-d array) of the drawn dtype."""
    dt = np.dtype(s['dtype'])
    with np.errstate(all='ignore'):
        if dt.kind == 'b':
            v = np.bool_(int(s['i']) % 2 == 1)
        elif dt.kind in 'iu':
            v = np.array(int(s['i']), dtype='int64').astype(dt)[()]  # wraps
        elif dt.kind == 'f':
            v = dt.type(float(s['re']))
        else:
            v = dt.type(complex(float(s['re']), float(s['im'])))
    if type(v) is not dt.type:                              # harness error
        raise HarnessError(f"build_npscalar: {type(v)} for {dt}")
    rec.cls(f"npscalar:{dt.name}")
    return v


def _container(x, kind):
    x = np.asarray(x, dtype=float)
    if kind == 'array':
        return x
    if kind == 'list':
        return x.tolist()
    return tuple(tuple(r) if isinstance(r, list) else r for r in x.tolist())


def build_tx(s, rec):
    import emg3d
    rng = gen.rng_of(s['seed'], 21)
    cls = getattr(emg3d, s['cls'])
    re_, im_ = s['strength']
    strength = float(re_) if im_ is None else complex(re_, im_)
    scale = 10.0**rng.uniform(0, 4)
    c = rng.uniform(-1, 1, 3)*scale
    ang = [rng.uniform(-180, 180), rng.uniform(-90, 90)]
    kw = {'strength': strength}
    fmt = 'point'
    if 'Point' in s['cls']:
        coo = [*c, *ang]
    elif 'Wire' in s['cls']:
        coo = c + np.cumsum(rng.uniform(1, 100, (s['n'], 3)) *
                            rng.choice([-1, 1], (s['n'], 3)), axis=0)
        fmt = 'wire'
    else:
        fmt = s['fmt']
        if fmt == 'point':
            coo = [*c, *ang]
            if s['length'] is not None:
                kw['length'] = s['length']
        else:
            off = rng.uniform(1, 100, 3)*rng.choice([-1, 1], 3)
            p = np.array([c, c+off])
            coo = p.ravel('F') if fmt == 'flat' else p
    rec.cls(f"tx:{s['cls']}:{fmt}",
            "tx:strength=" + ('complex' if im_ is not None else 'real'))
    return cls(_container(coo, s['container']), **kw)


def build_rx(s, rec):
    import emg3d
    rng = gen.rng_of(s['seed'], 22)
    scale = 10.0**rng.uniform(0, 4)
    coo = [*(rng.uniform(-1, 1, 3)*scale), rng.uniform(-180, 180),
           rng.uniform(-90, 90)]
    rec.cls(f"rx:{s['cls']}:relative={s['relative']}")
    return getattr(emg3d, s['cls'])(_container(coo, s['container']),
                                    relative=s['relative'])


def _keyed(objs, keys, rec):
    """list -> list (automatic keys) or dict with the drawn custom keys."""
    if keys is None:
        return list(objs)
    out = {}
    for i, o in enumerate(objs):
        k = _sanitize_key(keys[i], rec)
        if k in out:
            k = f"{k}-{i}"
        out[k] = o
    return out


def build_survey(s, rec):
    import emg3d
    rng = gen.rng_of(s['seed'], 23)
    src = [build_tx(x, rec) for x in s['src']]
    recv = [] if s['norec'] else [build_rx(x, rec) for x in s['rec']]
    ns, nr, nf = len(src), len(recv), s['nfreq']
    freqs = sorted(set(10.0**rng.uniform(-2, 2, nf)))
    nf = len(freqs)
    if s['freqkeys'] is not None:
        fr = {}
        for i, f in enumerate(freqs):
            k = _sanitize_key(s['freqkeys'][i], rec)
            fr[k if k not in fr else f"{k}-{i}"] = float(f)
        freqs = fr
    shape = (ns, nr, nf)

    def cdata(cplx=True):
        d = rng.standard_normal(shape)*10.0**rng.integers(-18, -6, shape)
        if cplx:
            d = d + 1j*rng.standard_normal(shape)*10.0**rng.integers(
                -18, -6, shape)
            d[rng.random(shape) < s['nanfrac']] = np.nan+1j*np.nan
        return d
    data = None
    names = []
    if nr > 0 and s['observed'] == 'array':
        data = cdata()
    elif nr > 0 and s['observed'] == 'dict':
        data = {'observed': cdata()}
        for name, cplx in s['extra']:
            name = _sanitize_key(name, rec)
            if name in ('observed', 'standard_deviation', '_noise_floor',
                        '_relative_error', 'src', 'rec', 'freq'):
                continue
            data[name] = cdata(cplx)
            names.append(name)

    def noise(n, lo, hi):
        k = n['kind']
        r = gen.rng_of(n['seed'], 24)
        if k == 'none':
            return None
        if k == 'scalar' or nr == 0:
            return float(10.0**r.uniform(lo, hi))
        shp = {'src': (ns, 1, 1), 'recfreq': (1, nr, nf), 'full': shape}[k]
        if int(np.prod(shp)) == 1:      # one value: documented as float
            return float(10.0**r.uniform(lo, hi))
        return 10.0**r.uniform(lo, hi, shp)
    nfl, rel = noise(s['nf'], -18, -12), noise(s['re'], -3, -0.5)
    kw = {}
    for k in ('name', 'date', 'info'):
        if s[k] is not None:
            kw[k] = _sanitize_str(s[k], rec)
    recs = _keyed(recv, s['reckeys'], rec) if nr else None
    sv = emg3d.Survey(_keyed(src, s['srckeys'], rec), recs, freqs, data=data,
                      noise_floor=nfl, relative_error=rel, **kw)
    std = bool(s['std'] and nr > 0)
    if std:
        sv.standard_deviation = 10.0**rng.uniform(-16, -10, shape)
    for op in (s.get('hist', []) if nr > 0 else []):
        # What a user does between construction and save (public API only).
        hr = gen.rng_of(s['seed'], 26)
        if op == 'nf_array_float':        # array (data set) -> one value
            sv.noise_floor = 10.0**hr.uniform(-18, -12, sv.shape)
            sv.noise_floor = 2e-15
        elif op == 'nf_array_none':
            sv.noise_floor = 10.0**hr.uniform(-18, -12, sv.shape)
            sv.noise_floor = None
        elif op == 're_array_float':
            sv.relative_error = 10.0**hr.uniform(-3, -1, sv.shape)
            sv.relative_error = 0.03
        elif op == 'std_none':            # documented way to reset it
            sv.standard_deviation = 10.0**hr.uniform(-16, -10, sv.shape)
            sv.standard_deviation = None
            std = False
        elif op == 'select':
            sv = sv.select(remove_empty=bool(hr.random() < 0.5))
        elif op == 'select_src':
            sv = sv.select(sources=[list(sv.sources)[-1]],
                           frequencies=[list(sv.frequencies)[0]],
                           remove_empty=False)
        elif op == 'data_assign':         # the data are an xarray Dataset
            sv.data['added'] = sv.data.observed*(2.0-0.5j)
        elif op == 'copy':
            sv = sv.copy()
        elif op == 'from_dict':
            sv = emg3d.Survey.from_dict(sv.to_dict())
        else:
            raise HarnessError(f"survey history: unknown op {op}")
        rec.cls(f"hist:survey:{op}")
        if 0 in sv.shape:      # (select dropped everything: documented)
            rec.cls('hist:survey:emptied')
    rec.cls(f"survey:nrec={'0' if nr == 0 else '>0'}",
            f"survey:nf={'array' if np.ndim(nfl) else s['nf']['kind']}",
            f"survey:re={'array' if np.ndim(rel) else s['re']['kind']}",
            f"survey:std={std}", f"survey:datasets={len(sv.data.keys())}",
            f"survey:customkeys={s['srckeys'] is not None}")
    return sv


def build_sim(s, rec, tmpdir):
    import emg3d
    survey = build_survey(s['survey'], rec)
    grid = grid_around(s['grid'], survey)
    model, _ = gen.build_model(grid, s['model'])
    gridding = s['gridding']
    kw = {}
    layered = s['layered']
    if layered and (model.case not in ('isotropic', 'VTI') or any(
            x['cls'] == 'TxElectricWire' for x in s['survey']['src'])):
        layered = False                     # documented limitation
    if gridding == 'input':
        layered = False      # (constructor raises ValueError; not I/O)
    if layered:
        kw['layered'] = True
    if s['layered_opts'] is not None:
        kw['layered_opts'] = json.loads(json.dumps(s['layered_opts']))
    if gridding == 'input':
        kw['gridding_opts'] = _mesh(s['grid2'], s['grid2'].get('dgrid'), rec)
    elif gridding == 'dict':
        g2 = _mesh(s['grid2'], s['grid2'].get('dgrid'), rec)
        kw['gridding_opts'] = {
            sk: {fk: (g2 if (i+j) % 2 else grid)
                 for j, fk in enumerate(survey.frequencies)}
            for i, sk in enumerate(survey.sources)}
    elif gridding != 'same':
        g = {}
        sc = s['grid']['scale']
        for k, v in s['gopts'].items():
            if k == 'center':         # a point of the model's interior
                c = []
                for i, nodes in enumerate((grid.nodes_x, grid.nodes_y,
                                           grid.nodes_z)):
                    j = min(int((v[i]+1e3)/2e3*(nodes.size-1)), nodes.size-2)
                    c.append(nodes[j] + 0.25*(nodes[j+1]-nodes[j]))
                v = _container(c, v[3])
            elif k in ('domain', 'distance'):
                rng = gen.rng_of(s['survey']['seed'], 31 + (k == 'domain'))
                lo = -rng.uniform(1, 10, 3)*sc
                hi = rng.uniform(1, 10, 3)*sc
                if k == 'distance':
                    lo = -lo
                prs = [[float(a), float(b)] for a, b in zip(lo, hi)]
                v = dict(zip('xyz', prs)) if v == 'dict' else tuple(prs)
            g[k] = v
        if 'domain' in g and 'distance' in g:
            del g['distance']
        if g or s['max_workers'] % 2:
            kw['gridding_opts'] = g
    if s['solver_opts'] is not None:
        kw['solver_opts'] = dict(s['solver_opts'])
    if s['tqdm'] == 'dict':
        kw['tqdm_opts'] = {'disable': True, 'desc': 'c17'}
    elif s['tqdm'] != 'default':
        kw['tqdm_opts'] = s['tqdm']
    for k in ('name', 'info'):
        if s[k] is not None:
            kw[k] = _sanitize_str(s[k], rec)
    if s['file_dir']:
        kw['file_dir'] = os.path.join(tmpdir, 'simfiles')
    rec.cls(f"sim:gridding={gridding}", f"sim:layered={layered}",
            f"sim:file_dir={s['file_dir']}")
    return emg3d.Simulation(survey, model, max_workers=s['max_workers'],
                            gridding=gridding, verb=s['verb'],
                            receiver_interpolation=s['rint'], **kw)


def grid_around(gs, survey):
    """Model grid (>= 2 cells per direction) that holds the whole survey in
    its interior, away from the last half cell (a survey outside the model
    is not a meaningful simulation input)."""
    import emg3d
    gs = dict(gs, n=[max(2, n) for n in gs['n']])
    h, _ = gen.build_widths(gs)
    pts = [s.points for s in survey.sources.values()]
    for r in survey.receivers.values():
        for src in survey.sources.values():
            pts.append(np.atleast_2d(r.center_abs(src)))
    pts = np.vstack(pts)
    lo, hi = pts.min(axis=0), pts.max(axis=0)
    hs, origin = [], []
    for i in range(3):
        w = h[i]/h[i].sum()
        usable = 1.0 - 0.6*w[-1] - 0.2*w[0]
        length = (1.2*(hi[i]-lo[i]) + 1.0)/usable
        hs.append(w*length)
        origin.append(lo[i] - 0.1*(hi[i]-lo[i]) - 0.1*w[0]*length)
    return emg3d.TensorMesh(hs, origin=np.array(origin))


_SIMC = {}
_SIMC_OBS = {}


def _stale_dirs(prefix):
    """Remove file_dir directories left by processes that are gone (the
    atheris engine ends with os._exit, so atexit handlers never run)."""
    for d in os.listdir(TMPBASE):
        if not d.startswith(prefix):
            continue
        try:
            os.kill(int(d[len(prefix):]), 0)
        except (ValueError, ProcessLookupError):
            shutil.rmtree(os.path.join(TMPBASE, d), ignore_errors=True)
        except OSError:
            pass


def computed_sim(stage):
    """Tiny computed simulations, each built once per process on first use
    and never changed by the checker.  Stages computed/misfit/gradient: all
    fields of one electric dipole, 3 receivers, 2 frequencies on the model
    grid; the other stages vary what the `_dict_*` stores hold."""
    import emg3d
    if stage in _SIMC:
        return _SIMC[stage]
    hx = np.array([80., 100., 120., 100.])
    grid = emg3d.TensorMesh([hx, hx[::-1], hx], origin=(-200, -190, -210))
    rng = gen.rng_of(17, 170)
    sig = 10.0**rng.uniform(-0.5, 0.5, grid.shape_cells)

    def mk(data=None, two=False, strength=1+0.5j, **kw):
        model = emg3d.Model(grid, sig, mapping='Conductivity')
        src = [emg3d.TxElectricDipole((-50, 20, -30, 10, 20), strength)]
        freq = [1.0, 2.5]
        if two:                   # other source types, custom keys
            src = {'Tx 1': src[0],
                   'mag': emg3d.TxMagneticDipole((10, 40, -35, 10, 5, 25)),
                   'wire': emg3d.TxElectricWire(
                       [[-60, 0, 5], [-20, 30, 5], [10, 30, -20]])}
            freq = {'lo': 1.0, 'f-x': 2.5}
        rx = [emg3d.RxElectricPoint((30, 50, -20, 0, 0)),
              emg3d.RxMagneticPoint((20, -30, 20, 30, 40)),
              emg3d.RxElectricPoint((60, 10, 10, 45, 5), relative=True)]
        sv = emg3d.Survey(src, rx, freq, data=data,
                          noise_floor=1e-15, relative_error=0.05,
                          name='c17')
        opts = dict(gridding='same', max_workers=1,
                    receiver_interpolation='linear',
                    solver_opts={'plain': True, 'tol': 1e-5},
                    tqdm_opts=False, name='tiny')
        opts.update(kw)
        return emg3d.Simulation(sv, model, **opts)
    with warnings.catch_warnings():
        warnings.simplefilter('ignore')
        if 'obs' not in _SIMC_OBS:
            s0 = mk()
            s0.compute(observed=True, add_noise=False)
            obs = s0.data.observed.data.copy()*(1.1+0.05j)
            obs[0, 1, 0] = np.nan+1j*np.nan
            _SIMC_OBS['obs'] = obs
        obs = _SIMC_OBS['obs']
        if stage == 'computed':
            a = mk(obs.copy())
            a.compute()
        elif stage == 'misfit':
            a = mk(obs.copy())
            a.misfit
        elif stage == 'gradient':
            a = mk(obs.copy())
            a.gradient
        elif stage == 'partial':        # one of two fields: None and Field
            a = mk(obs.copy())          # side by side in the stores
            a.get_efield('TxED-1', 'f-2')
        elif stage == 'file_dir':       # the stores hold file names
            prefix = 'c17simc_'
            _stale_dirs(prefix)
            fdir = os.path.join(TMPBASE, f"{prefix}{os.getpid()}")
            shutil.rmtree(fdir, ignore_errors=True)
            a = mk(obs.copy(), file_dir=fdir)
            a.compute()
        elif stage == 'auto_single':    # computational grid != model grid
            a = mk(obs.copy(), gridding='single',
                   gridding_opts={'center': (0, 0, 0), 'frequency': 2.0,
                                  'properties': [1.0, 1.0],
                                  'domain': ([-100, 100], [-100, 100],
                                             [-100, 100]),
                                  'min_width_limits': 50.0,
                                  'stretching': [1.0, 1.5],
                                  'center_on_edge': False},
                   solver_opts={'plain': True, 'tol': 1e-2, 'maxit': 1},
                   verb=-1)               # (not converged: no message)
            a.compute()
        elif stage == 'layered':        # synthetic data only
            # (real strength: the layered kernel compares it with 0)
            a = mk(obs.copy(), layered=True, strength=2.0)
            a.compute()
        elif stage == 'two_src':        # three source types, custom keys,
            a = mk(None, two=True,      # Krylov solver info
                   solver_opts={'sslsolver': 'bicgstab', 'tol': 1e-4,
                                'semicoarsening': False,
                                'linerelaxation': False})
            a.compute()
        elif stage == 'keepresults':
            a = mk(obs.copy())
            a.compute()
            a.clean('keepresults')
        elif stage == 'cleaned':
            a = mk(obs.copy())
            a.misfit
            a.clean('computed')
        else:
            raise HarnessError(f"computed_sim: unknown stage {stage}")
    _SIMC[stage] = a
    return a


class Builder:
    def __init__(self, rec, tmpdir):
        self.rec = rec
        self.tmpdir = tmpdir
        self.n_inst = 0
        self.n_arr = 0
        self.shape = []         # structural descriptor for distinctness
        self.made = []          # arrays and instances built so far ('ref')

    def value(self, s, depth):
        t = s['t']
        rec = self.rec
        self.shape.append(t if t not in ('tx', 'rx') else s['cls'])
        if t == 'dict':
            rec.cls(f"depth>={depth+1}")
            return self.dict(s, depth+1)
        if t == 'int':
            return int(s['v'])
        if t == 'float':
            v = float(s['v'])
            rec.cls('float:' + ('nan' if v != v else 'inf' if abs(v) == np.inf
                                else 'finite'))
            return v
        if t == 'complex':
            return complex(float(s['re']), float(s['im']))
        if t == 'bool':
            return bool(s['v'])
        if t == 'str':
            v = _sanitize_str(s['v'], rec)
            rec.cls('str:' + ('empty' if v == '' else
                              'ascii' if v.isascii() else 'unicode'))
            return v
        if t == 'none':
            return None
        if t == 'npscalar':
            return build_npscalar(s, rec)
        if t == 'ref':
            return self.ref(s)
        if t == 'array':
            self.n_arr += 1
            out = build_array(s, rec)
            self.made.append(out)
            return out
        self.n_inst += 1
        self.n_arr += 1           # every emg3d object holds >= 1 array
        rec.cls(f"obj:{t}")
        out = self.instance(s, t)
        if 'copy' in s.get('hist', []) and t in ('model', 'field', 'sim'):
            rec.cls(f"hist:{t}:copy")
            out = out.copy()
        self.made.append(out)
        return out

    def instance(self, s, t):
        rec = self.rec
        if t == 'mesh':
            return _mesh(s['grid'], s.get('dgrid', False), rec)
        if t == 'model':
            m, _ = gen.build_model(_grid(s['grid'], s['dgrid'], rec),
                                   s['model'])
            rec.cls(f"model:{s['model']['case']}",
                    f"model:{s['model']['mapping']}")
            return m
        if t == 'field':
            return build_field(s, rec)
        if t == 'tx':
            return build_tx(s, rec)
        if t == 'rx':
            return build_rx(s, rec)
        if t == 'survey':
            return build_survey(s, rec)
        if t == 'sim':
            return build_sim(s, rec, self.tmpdir)
        if t == 'simc':
            variant = s.get('variant', 'full')
            stage = s['stage'] if variant == 'full' else variant
            rec.cls(f"simc:{stage}")
            self.shape.append(stage)
            return computed_sim(stage)
        raise ValueError(f"unknown node type {t}")          # harness error

    def ref(self, s):
        """An object built earlier in this graph, or a part of it, once
        more (the very same instance, not a copy)."""
        rec = self.rec
        if not self.made:
            rec.cls('ref:nothing_yet')
            return None
        x = self.made[s['to'] % len(self.made)]
        part = s['part']
        if part == 'array':
            arrs = [m for m in self.made if isinstance(m, np.ndarray)]
            x, part = (arrs[s['to'] % len(arrs)], 'self') if arrs else (
                x, 'self')
        name = type(x).__name__
        got = 'self'
        if part == 'survey' and name == 'Simulation':
            x, got = x.survey, 'sim.survey'
        elif part == 'model' and name == 'Simulation':
            x, got = x.model, 'sim.model'
        elif part == 'grid' and name in ('Simulation', 'Model', 'Field'):
            x = x.model.grid if name == 'Simulation' else x.grid
            got = 'grid:bare_discretize' if _bare_discretize(x) else 'grid'
            if _bare_discretize(x) and not ENABLE_DMESH:
                rec.cls('excl:dmesh_disabled')      # discretize mesh inside
                x, got = self.made[s['to'] % len(self.made)], 'self'
        elif part == 'source' and name in ('Simulation', 'Survey'):
            sv = x.survey if name == 'Simulation' else x
            x = list(sv.sources.values())[s['to'] % len(sv.sources)]
            got = 'source'
        rec.cls(f"ref:{got}:{type(x).__name__}")
        self.shape.append(f"ref:{got}")
        if isinstance(x, np.ndarray):
            self.n_arr += 1
        else:
            self.n_inst += 1
            self.n_arr += 1
        return x

    def dict(self, s, depth=1):
        out = {}
        for k, v in s['items']:
            out[_sanitize_key(k, self.rec)] = self.value(v, depth)
        if not out:
            self.rec.cls('dict:empty')
            self.shape.append('{}')
        return out


def _mesh(gs, dgrid, rec):
    """A mesh as a saved value of its own: emg3d.TensorMesh or (behind
    ENABLE_DMESH) a bare discretize.TensorMesh."""
    if dgrid and not ENABLE_DMESH:
        rec.cls('excl:dmesh_disabled')
        dgrid = False
    if dgrid:
        rec.cls('mesh:bare_discretize')
    return _grid(gs, dgrid, rec)


def _grid(gs, dgrid, rec):
    """emg3d.TensorMesh, or its parent discretize.TensorMesh (documented:
    stored as if it were the simpler emg3d.TensorMesh)."""
    if dgrid:
        import discretize
        h, origin = gen.build_widths(gs)
        rec.cls('grid:discretize')
        return discretize.TensorMesh(h, origin=origin)
    return gen.build_grid(gs)


def build_field(s, rec):
    import emg3d
    grid = _grid(s['grid'], s['dgrid'], rec)
    n = grid.n_edges if s['electric'] else grid.n_faces
    rng = gen.rng_of(s['seed'], 25)
    f = s['freq']
    if f is None:
        cplx = s['cplx']
    else:
        cplx = f > 0
    dom = 'none' if f is None else ('frequency' if f > 0 else 'laplace')
    rec.cls(f"field:{dom}:{'complex' if cplx else 'real'}:"
            f"{'e' if s['electric'] else 'h'}")
    dtype = complex if cplx else float
    fdt = s.get('fdtype')
    if f is None and fdt is not None:   # documented: data/dtype decide then
        dtype = np.dtype('complex64' if cplx else 'float32')  # single prec.
        rec.cls(f"field:dtype={dtype.name}")
    ftype = s.get('ftype', 'float')
    if f is not None and ftype == 'int':
        f = int(np.sign(f)*max(1, round(abs(f))))
        rec.cls('field:frequency=int')
    elif f is not None and ftype == 'np':
        f = np.float64(f)
        rec.cls('field:frequency=np.float64')
    if s['data'] == 'none':
        return emg3d.Field(grid, frequency=f, electric=s['electric'],
                           dtype=dtype)
    d = rng.standard_normal(n)*10.0**rng.integers(-15, 3, n)
    if cplx:
        d = d + 1j*rng.standard_normal(n)*10.0**rng.integers(-15, 3, n)
    if f is None and fdt is not None:
        d = d.astype(dtype)
    return emg3d.Field(grid, data=d, frequency=f, electric=s['electric'])


# ======================================================================
# Canonical form and comparison (the oracle)
# ======================================================================
class Node:
    __slots__ = ('kind', 'cls', 'val', 'inst', 'children', 'dtype')

    def __init__(self, kind, val=None, cls=None, inst=False, children=None,
                 dtype=None):
        self.kind = kind        # dict|obj|none|bool|str|int|float|complex|
        self.cls = cls          # array|seq|foreign
        self.val = val
        self.inst = inst        # obj: a real instance (not a bare dict)
        self.children = children
        self.dtype = dtype      # numpy dtype of a numpy scalar, else None

    def describe(self):
        if self.kind == 'array':
            return f"array{self.val.shape}:{self.val.dtype}"
        if self.kind in ('dict', 'obj'):
            return f"{self.kind}:{self.cls or ''}[{len(self.children)}]"
        if self.kind == 'foreign':
            return f"{self.cls}({str(self.val)[:60]})"
        return f"{self.kind}:{self.val!r}"[:90]


def _is_instance(x):
    return type(x).__name__ in KNOWN and hasattr(x, 'to_dict') and \
        not isinstance(x, dict)


def _bare_discretize(x):
    return (type(x).__name__ == 'TensorMesh' and
            not type(x).__module__.startswith('emg3d'))


def _mesh_view(g):
    return {'h_x': g.h[0], 'h_y': g.h[1], 'h_z': g.h[2], 'origin': g.origin,
            'shape_cells': list(g.shape_cells), 'n_cells': g.n_cells}


def public_view(x, plain=False, what=None):
    """What a user of the object sees through its documented attributes
    (independent of to_dict, so an attribute that is silently left out of
    to_dict *and* lost on the way is still noticed)."""
    name = type(x).__name__
    if name == 'TensorMesh':
        return _mesh_view(x)
    if name == 'Model':
        return {'grid': _mesh_view(x.grid), 'property_x': x.property_x,
                'property_y': x.property_y, 'property_z': x.property_z,
                'mu_r': x.mu_r, 'epsilon_r': x.epsilon_r,
                'mapping': x.map.name, 'case': x.case,
                'shape': list(x.shape)}
    if name == 'Field':
        return {'grid': _mesh_view(x.grid), 'field': x.field, 'fx': x.fx,
                'fy': x.fy,
                'fz': x.fz, 'frequency': x.frequency, 'sval': x.sval,
                'electric': x.electric}
    if name.startswith(('Tx', 'Rx')):
        out = {'points': x.points, 'coordinates': x.coordinates,
               'xtype': x.xtype, 'center': x.center, 'length': x.length}
        for a in ('strength', 'relative', 'data_type', 'azimuth',
                  'elevation'):
            if hasattr(x, a):
                out[a] = getattr(x, a)
        return out
    if name == 'Survey':
        std = x.standard_deviation
        out = {'sources': dict(x.sources), 'receivers': dict(x.receivers),
               'frequencies': dict(x.frequencies), 'shape': list(x.shape),
               'size': x.size, 'name': x.name, 'date': x.date,
               'info': x.info, 'noise_floor': x.noise_floor,
               'relative_error': x.relative_error,
               'coords': {k: [str(v) for v in x.data[k].data]
                          for k in ('src', 'rec', 'freq')}}
        if not plain:
            out.update({
                'count': x.count,
                'data': {k: v.data for k, v in x.data.items()},
                'standard_deviation': None if std is None else std.data})
        return out
    if name == 'Simulation':
        out = {'model': x.model, 'max_workers': x.max_workers,
               'gridding': x.gridding, 'gridding_opts': x.gridding_opts,
               'solver_opts': x.solver_opts, 'verb': x.verb, 'name': x.name,
               'info': x.info, 'layered': x.layered,
               'receiver_interpolation': x.receiver_interpolation,
               'layered_opts': x.layered_opts, 'file_dir': x.file_dir,
               'tol_forward': x.tol_forward, 'tol_gradient': x.tol_gradient}
        # Constructor parameter without a public attribute, and the ratio of
        # input to expanded model (both stored by to_dict): only witnesses
        # of a symmetric omission from to_dict.  Private names are read with
        # a default, a renamed one only costs sensitivity.
        for a in ('_tqdm_opts', '_input_sc2'):
            out[a] = getattr(x, a, 'absent')
        if not plain:
            out['survey'] = x.survey
            if getattr(x, '_misfit', None) is not None:
                out['misfit'] = x.misfit
            if getattr(x, '_gradient', None) is not None:
                out['gradient'] = x.gradient
            # compute() skips what `_computed` says is there already
            out['_computed'] = getattr(x, '_computed', 'absent')
        if what in (None, 'computed', 'all'):
            # what get_grid/get_efield/... hand out without recomputing
            for a in ('_dict_grid', '_dict_efield', '_dict_efield_info',
                      '_dict_bfield', '_dict_bfield_info'):
                if hasattr(x, a):
                    out[a] = getattr(x, a)
        return out
    return {}


PUBLIC = '@public'


def canon(x, what=None):
    """Checker-side canonical tree of anything that was saved or loaded
    (a snapshot: arrays are copied, so that a later change of the live
    object cannot reach the tree)."""
    if _bare_discretize(x):
        # documented: "stored as if they were created using emg3d"
        import emg3d
        x = emg3d.TensorMesh(x.h, x.origin)
    if _is_instance(x):
        name = type(x).__name__
        d = x.to_dict(what) if (name == 'Simulation' and what) else x.to_dict()
        ch = {str(k): canon(v) for k, v in d.items() if k != '__class__'}
        plain = what == 'plain'
        pv = public_view(x, plain, what)
        if name == 'Simulation' and plain:
            pv['survey'] = Node('dict', children={
                k: canon(v) for k, v in public_view(x.survey, True).items()})
        ch[PUBLIC] = Node('dict', children={
            k: (v if isinstance(v, Node) else canon(v))
            for k, v in pv.items()})
        return Node('obj', cls=d.get('__class__', name), inst=True,
                    children=ch)
    if isinstance(x, dict):
        ch = {str(k): canon(v) for k, v in x.items() if k != '__class__'}
        if isinstance(x.get('__class__'), str):
            return Node('obj', cls=x['__class__'], inst=False, children=ch)
        return Node('dict', children=ch)
    if x is None:
        return Node('none')
    if isinstance(x, (bool, np.bool_)):
        return Node('bool', bool(x))
    if isinstance(x, str):
        return Node('str', str(x))
    if isinstance(x, np.ndarray):
        if x.ndim == 0:
            if x.dtype.kind in 'biufc':         # numbers: unwrap
                return canon(x[()])
            kind = 'str' if x.dtype.kind == 'U' else str(x.dtype)
            return Node('foreign', x, cls=f"ndarray0d:{kind}")
        if x.dtype.kind not in 'biufcU':
            return Node('foreign', x, cls=f"ndarray:{x.dtype}")
        return Node('array', np.array(x, copy=True, subok=False))
    if isinstance(x, (int, np.integer)):
        return Node('int', int(x), dtype=getattr(x, 'dtype', None))
    if isinstance(x, (float, np.floating)):
        return Node('float', float(x), dtype=getattr(x, 'dtype', None))
    if isinstance(x, (complex, np.complexfloating)):
        return Node('complex', complex(x), dtype=getattr(x, 'dtype', None))
    if isinstance(x, (list, tuple)):
        try:
            a = np.asarray(x)
        except Exception:
            a = None
        if a is not None and a.dtype.kind in 'biufcU' and a.ndim >= 1:
            return Node('array', a)
        return Node('seq', children={str(i): canon(v)
                                     for i, v in enumerate(x)})
    return Node('foreign', x, cls=type(x).__name__)


def _ctx(path):
    """Discriminating context of a path: innermost enclosing emg3d class and
    the attribute below it (user-chosen keys never enter a signature)."""
    last = None
    for i, (key, cls) in enumerate(path):
        if cls is not None:
            last = i
    if last is None:
        return 'dict'
    cls = path[last][1]
    return f"{cls}.{path[last+1][0]}" if last+1 < len(path) else cls


def _pstr(path):
    return '/'.join(k for k, _ in path if k != '') or '<root>'


def _root(node):
    return [('', node.cls if node.kind == 'obj' else None)]


def _child(path, k, node):
    return path + [(k, node.cls if node.kind == 'obj' else None)]


def _scalar_equal(a, b):
    if isinstance(a, complex) or isinstance(b, complex):
        a, b = complex(a), complex(b)
        return _scalar_equal(a.real, b.real) and _scalar_equal(a.imag, b.imag)
    if isinstance(a, float) and a != a:
        return isinstance(b, float) and b != b
    return a == b


def _array_diff(a, b):
    """None if equal in every value (NaN == NaN), else a description."""
    if a.dtype.kind == 'c':
        r = _array_diff(a.real, b.real)
        return r if r else _array_diff(a.imag, b.imag)
    if a.dtype.kind == 'f':
        na, nb = np.isnan(a), np.isnan(b)
        bad = (na != nb) | (~na & ~nb & (a != b))
    else:
        bad = a != b
    if np.any(bad):
        i = tuple(int(j) for j in np.argwhere(bad)[0])
        return (f"{int(np.sum(bad))} of {a.size} values differ, first at {i}: "
                f"saved {a[i]!r}, loaded {b[i]!r}")
    return None


def _hollow(node):
    return node.kind in ('dict', 'obj') and all(
        _hollow(v) for v in node.children.values())


def compare(a, b, path, out, raw=False):
    """Append (priority, kind, ctx, path, message) for each difference of
    the loaded tree `b` from the saved tree `a`; `path` ends at this node."""
    def add(prio, kind, msg, p=None):
        p = path if p is None else p
        out.append((prio, kind, _ctx(p), _pstr(p), msg))

    cont = ('dict', 'obj', 'seq')
    if a.kind in cont or b.kind in cont:
        same = (a.kind == 'seq') == (b.kind == 'seq') and \
            a.kind in cont and b.kind in cont
        if not same:
            add(0, f"kind:{a.kind}->{b.kind}",
                f"saved {a.describe()}, loaded {b.describe()}")
            return
        if a.kind == 'obj' or b.kind == 'obj':
            if a.cls != b.cls:
                add(0, f"class:{a.cls}->{b.cls}",
                    f"saved class {a.cls}, loaded {b.cls or 'plain dict'}")
                if a.cls is not None and b.cls is not None:
                    return
            elif a.inst and not b.inst and not raw:
                add(2, f"not_deserialized:{a.cls}",
                    f"a {a.cls} was saved, a plain dict came back",
                    path[:-1] + [(path[-1][0], None)])
            elif b.inst and not a.inst and not raw:
                add(2, f"deserialized_late:{a.cls}",
                    f"a plain dict of class {a.cls} became an instance",
                    path[:-1] + [(path[-1][0], None)])
        for k, va in a.children.items():
            p = _child(path, k, va)
            if k == PUBLIC and k not in b.children:
                continue                  # loaded side is a raw dict
            if k not in b.children:
                if _hollow(va):
                    add(0, 'empty_dict_lost', "an empty dict (or a dict "
                        "holding only empty dicts) was saved, its key is "
                        "missing after load", p)
                else:
                    add(0, f"key_lost:{va.kind}", "key missing after load "
                        f"(saved {va.describe()})", p)
                continue
            compare(va, b.children[k], p, out, raw)
        for k, vb in b.children.items():
            if k not in a.children and k != PUBLIC:
                add(1, f"key_added:{vb.kind}", "key not saved but present "
                    f"after load ({vb.describe()})", _child(path, k, vb))
        return

    if a.kind != b.kind:
        ka = a.cls if a.kind == 'foreign' else a.kind
        kb = b.cls if b.kind == 'foreign' else b.kind
        add(0, f"kind:{ka}->{kb}",
            f"saved {a.describe()}, loaded {b.describe()}")
        return
    if a.kind == 'array':
        x, y = a.val, b.val
        if x.shape != y.shape:
            if x.size == 0 and y.size == 0:
                add(0, 'empty_array_shape_lost',
                    f"saved empty array of shape {x.shape}, loaded shape "
                    f"{y.shape}")
            else:
                add(0, f"shape:ndim={x.ndim}",
                    f"saved shape {x.shape}, loaded {y.shape}")
            return
        if x.dtype != y.dtype:
            add(0, f"dtype:{x.dtype}->{y.dtype}",
                f"saved dtype {x.dtype}, loaded {y.dtype}")
            return
        d = _array_diff(x, y)
        if d:
            kind = f"values:{x.dtype}"
            if x.dtype.kind == 'c' and np.any(~np.isfinite(x.imag)):
                kind = 'complex_nonfinite_imag'
            add(0, kind, d)
        return
    if a.kind == 'foreign':
        if a.cls != b.cls:
            add(0, f"kind:{a.cls}->{b.cls}",
                f"saved {a.describe()}, loaded {b.describe()}")
        return
    if a.kind == 'none':
        return
    if not _scalar_equal(a.val, b.val):
        kind = f"value:{a.kind}"
        if a.kind == 'complex' and not np.isfinite(a.val.imag):
            kind = 'complex_nonfinite_imag'
        add(0, kind, f"saved {a.val!r}, loaded {b.val!r}")
    elif a.dtype is not None and b.dtype is not None and a.dtype != b.dtype:
        add(0, f"scalar_dtype:{a.dtype}->{b.dtype}",
            f"saved numpy scalar {a.dtype}, loaded {b.dtype}")


def foreign_leaves(node, path, out):
    """Leaves outside the property's value domain (for save diagnostics)."""
    if node.kind == 'foreign':
        out.append((node.cls, _ctx(path), _pstr(path)))
    elif node.children is not None:
        for k, v in node.children.items():
            foreign_leaves(v, _child(path, k, v), out)


# ======================================================================
# Driving emg3d and turning failures into root-cause signatures
# ======================================================================
def _norm_msg(e, n=70):
    s = str(e).split('\n')[0]
    s = re.sub(r"'[^']*'|\"[^\"]*\"|<[^>]*>|«[^»]*»", '<q>', s)
    s = re.sub(r"[-+]?\d[\d.e+-]*", '#', s)
    return s[:n].strip()


def _where(e):
    tb = traceback.extract_tb(e.__traceback__)
    inner = None
    for fr in tb:
        if os.path.realpath(fr.filename).startswith(EMG3D_DIR):
            inner = fr
    if inner is None:
        return 'outside_emg3d'
    return f"{os.path.basename(inner.filename)}:{inner.name}"


def _tb_text(e):
    return ''.join(traceback.format_exception(type(e), e,
                                              e.__traceback__))[-2500:]


def raw_load(fmt, fname):
    """Content of the file *without* de-serialisation (diagnosis only)."""
    from emg3d import io
    if fmt == 'npz':
        with np.load(fname, allow_pickle=False) as dat:
            data = io._dict_unflatten({k: dat[k] for k in dat.files})
    elif fmt == 'h5':
        data = io._hdf5_load(fname)
    else:
        with open(fname) as f:
            data = io._dict_array_comp(json.load(f))
    io._nonetype_to_none(data)
    return data


def _strip(d):
    return {k: v for k, v in d.items() if k not in META}


_KNOWN_SIGS = None


def _known_sigs():
    """Signatures listed as known for this property (static configuration).
    Only used to *order* the differences of one case so that a listed defect
    does not mask a different one present in the same case."""
    global _KNOWN_SIGS
    if _KNOWN_SIGS is None:
        from vp.framework import Known
        _KNOWN_SIGS = {e['signature'] for e in Known().for_property('C17')
                       if e.get('status') == 'known'}
    return _KNOWN_SIGS


def _consequence(d, diffs):
    """A difference seen through the public view of an attribute whose
    to_dict entry differs as well is the same difference seen twice."""
    comps = d[3].split('/')
    for i, c in enumerate(comps[:-1]):
        if c != PUBLIC:
            continue
        pref = comps[:i] + [comps[i+1]]
        for o in diffs:
            oc = o[3].split('/')
            if o is not d and oc[:len(pref)] == pref:
                return True
    return False


def _primary(fmt, diffs):
    """The difference a case is reported under: leaf differences before
    derived ones (object not rebuilt), among leaf differences one that is not
    a listed known finding first, otherwise traversal order."""
    known = _known_sigs()

    def key(t):
        i, d = t
        prio = 4 if _consequence(d, diffs) else d[0]
        if prio <= 1:
            return (0, f"{fmt}:{d[1]}:{d[2]}" in known, prio, i)
        return (prio, False, prio, i)
    return sorted(enumerate(diffs), key=key)[0][1]


def _raise_diff(fmt, diffs, extra='', details=None, warns=()):
    failed = [p for _, k, _, p, _ in diffs if k.startswith('not_deser')]
    if failed and warns:
        # A raw dict came back: its missing empty sub-dicts are a cause only
        # if from_dict complained about exactly that key.
        def demote(d):
            inside = any(d[3].startswith(f) or f == '<root>' for f in failed)
            named = any(f"'{d[3].split('/')[-1]}'" in w for w in warns)
            if d[1] == 'empty_dict_lost' and inside and not named:
                return (3,) + d[1:]
            return d
        diffs = [demote(d) for d in diffs]
    prio, kind, ctx, pth, msg = _primary(fmt, diffs)
    if kind.startswith('not_deserialized'):
        # root cause = what from_dict complained about for *this* key
        key = pth.split('/')[-1]
        mine = [w for w in warns if f"<{key}>: " in w or
                (pth == '<root>' and 'Could not de-serialize' in w)]
        if mine:
            ctx = _norm_msg(mine[0].split('>: ', 1)[-1])
    others = sorted({f"{k}@{c}" for _, k, c, _, _ in diffs} -
                    {f"{kind}@{ctx}"})
    raise Violation(
        f"{fmt}:{kind}:{ctx}",
        f"{extra}at <{pth}>: {msg}" +
        (f"; further differences: {others[:6]}" if others else ''),
        dict(details or {}, n_differences=len(diffs)))


def _call(fn, verb):
    """Call fn with the verb keyword (not at all if None) -> (returned
    value, text printed to stdout)."""
    buf = io.StringIO()
    with contextlib.redirect_stdout(buf):
        ret = fn(**({} if verb is None else {'verb': verb}))
    return ret, buf.getvalue()


def _verb_contract(fmt, what, verb, ret, printed, default_verb=1):
    """-> payload; raises Violation if the documented verb behaviour of
    save / load / to_file / from_file is not met."""
    eff = default_verb if verb is None else verb
    sig = f"{fmt}:{what}:verb={'default' if verb is None else verb}:"
    if eff < 0:
        info = ret if what == 'save' else (
            ret[1] if isinstance(ret, tuple) and len(ret) == 2 else None)
        if not isinstance(info, str) or not info:
            raise Violation(
                sig + 'no_info_string',
                f"{what} with verb={eff} is documented to return the info "
                f"string{'' if what == 'save' else ' as second item'}; got "
                f"{type(ret).__name__}: {str(ret)[:120]}")
        payload = None if what == 'save' else ret[0]
    else:
        if what == 'save' and ret is not None:
            raise Violation(
                sig + 'returns_something',
                f"save with verb={eff} returned {type(ret).__name__}")
        payload = ret
    if (eff > 0) != bool(printed.strip()):
        raise Violation(
            sig + ('silent' if eff > 0 else 'prints'),
            f"{what} with verb={eff}: printed {printed[:120]!r} (documented: "
            "verbose if 1, silent if 0, info returned if -1)")
    return payload


class Leg:
    """One save->load through one format inside a scratch directory."""

    def __init__(self, tmpdir, spec=None):
        spec = spec or {}
        self.tmpdir = tmpdir
        self.k = 0
        self.warnings = []
        self.opts = {}          # documented options of save
        self.stem = spec.get('stem', 'f')
        self.relative = spec.get('relative', False)
        self.overwrite = spec.get('overwrite', False)
        # verb of [save, load]; old specs: 0 (silent) for both
        self.verb = list(spec.get('verb', [0, 0]))
        self.save_default_verb = 1      # to_file of a Simulation: its verb

    def fname(self, fmt):
        self.k += 1
        fn = os.path.join(self.tmpdir, f"{self.stem}{self.k}.{fmt}")
        if self.relative:
            fn = os.path.relpath(fn)
        return fn

    def save(self, fmt, data, ca, saver=None):
        import emg3d
        fn = self.fname(fmt)
        if self.overwrite:      # a file of that name, with other content
            with warnings.catch_warnings():
                warnings.simplefilter('ignore')
                emg3d.save(fn, verb=0, zz_old_content={'p': np.arange(3.0)},
                           zz_old_too=1)
        try:
            with warnings.catch_warnings():
                warnings.simplefilter('ignore')
                if saver is None:
                    ret, printed = _call(
                        lambda **kw: emg3d.save(fn, **kw, **self.opts, **data),
                        self.verb[0])
                else:
                    ret, printed = _call(lambda **kw: saver(fn, **kw),
                                         self.verb[0])
        except Exception as e:
            fl = []
            foreign_leaves(ca, _root(ca), fl)
            fl = [f for f in fl if f[0].split(':')[0] in str(e)]
            if fl:         # the exception names a type the tree holds
                feat = f"{fl[0][0]}@{fl[0][1]}"
                at = f" (saved tree holds a {fl[0][0]} at <{fl[0][2]}>)"
            else:
                feat = f"{_where(e)}:{_norm_msg(e)}"
                at = ''
            raise Violation(
                f"{fmt}:save_raises:{type(e).__name__}:{feat}",
                f"save to .{fmt} raised {type(e).__name__}: "
                f"{str(e)[:300]}{at}", {'traceback': _tb_text(e)})
        _verb_contract(fmt, 'save', self.verb[0], ret, printed,
                       self.save_default_verb)
        return fn

    def load(self, fmt, fn, ca, loader=None, what=None):
        """-> (loaded, canonical tree); raises Violation."""
        import emg3d
        try:
            with warnings.catch_warnings(record=True) as wlist:
                warnings.simplefilter('always')
                if loader is None:
                    ret, printed = _call(lambda **kw: emg3d.load(fn, **kw),
                                         self.verb[1])
                else:
                    ret, printed = _call(lambda **kw: loader(fn, **kw),
                                         self.verb[1])
        except Exception as e:
            # Attribute to what differs in the raw file content, if anything.
            diffs = []
            try:
                with warnings.catch_warnings():
                    warnings.simplefilter('ignore')
                    raw = raw_load(fmt, fn)
                ref = self._raw_ref(ca, raw, loader)
                compare(ref, canon(_strip(raw)), _root(ref), diffs, raw=True)
            except Exception:
                diffs = []
            extra = (f"load of .{fmt} raised {type(e).__name__}: "
                     f"{str(e)[:200]}; raw file content differs ")
            if diffs:
                _raise_diff(fmt, diffs, extra, {'traceback': _tb_text(e)})
            raise Violation(
                f"{fmt}:load_raises:{type(e).__name__}:{_where(e)}:"
                f"{_norm_msg(e)}",
                f"load of .{fmt} raised {type(e).__name__}: {str(e)[:300]}",
                {'traceback': _tb_text(e)})
        self.warnings = [str(w.message)[:300] for w in wlist
                         if 'emg3d' in str(w.message)]
        out = _verb_contract(fmt, 'load', self.verb[1], ret, printed)
        if loader is None:
            if not isinstance(out, dict):
                raise Violation(
                    f"{fmt}:load:returns:{type(out).__name__}",
                    f"load returned a {type(out).__name__}, documented: dict")
            out = _strip(out)
        # The checker's own evaluation of what came back is outside the
        # `try` above: an exception raised by checker code is a harness
        # error, never a finding against emg3d.
        cb = self._canon_loaded(fmt, out, what if loader else None)
        return out, cb

    @staticmethod
    def _canon_loaded(fmt, out, what):
        try:
            with warnings.catch_warnings():
                warnings.simplefilter('ignore')
                return canon(out, what)
        except (Violation, HarnessError):
            raise
        except Exception as e:
            where = _where(e)
            if where == 'outside_emg3d':
                raise HarnessError(
                    "c17: canonical form of the loaded data: "
                    f"{type(e).__name__}: {e}\n{_tb_text(e)[-1200:]}")
            # A documented attribute / to_dict() of a *loaded* instance
            # raised inside emg3d although the very same evaluation of the
            # saved instance (tree `ca`, built before the save) went through:
            # the loaded object does not behave like the saved one.
            raise Violation(
                f"{fmt}:loaded_object_raises:{type(e).__name__}:{where}",
                "evaluating to_dict()/the documented attributes of the "
                f"loaded object raised {type(e).__name__}: {str(e)[:300]} "
                "(the same evaluation of the saved object did not)",
                {'traceback': _tb_text(e)})

    @staticmethod
    def _raw_ref(ca, raw, loader):
        # to_file stores the object under one name: wrap the reference alike.
        if loader is not None and ca.kind == 'obj':
            keys = [k for k in raw if k not in META]
            return Node('dict', children={keys[0] if keys else 'x': ca})
        return ca


def _unchanged(fmt, ca, data, what=None, label='save'):
    """Saving must not change what is saved: the tree taken before (a
    snapshot, arrays copied) against a fresh tree of the same live objects.
    Otherwise `load` can at best return the damaged state, and an object
    shared with later cases (computed simulations) would be damaged for all
    of them without any difference ever showing."""
    with warnings.catch_warnings():
        warnings.simplefilter('ignore')
        now = canon(data, what) if what else canon(data)
    diffs = []
    compare(ca, now, _root(ca), diffs)
    if diffs:
        _SIMC.clear()                   # never reuse a damaged instance
        prio, kind, ctx, pth, msg = _primary(fmt, diffs)
        raise Violation(
            f"{fmt}:{label}_changes_saved_object:{kind}:{ctx}",
            f"the live object differs after {label} at <{pth}>: {msg} "
            "(before -> after)", {'n_differences': len(diffs)})


def check_leg(leg, fmt, data, ca, prefix='', unchanged=True):
    """save+load `data` (tree `ca`) through fmt; returns (loaded, tree)."""
    fn = leg.save(fmt, data, ca)
    if unchanged:
        _unchanged(fmt, ca, data)
    out, cb = leg.load(fmt, fn, ca)
    diffs = []
    compare(ca, cb, _root(ca), diffs)
    if diffs:
        extra = prefix
        if leg.warnings:
            extra += f"[warning on load: {leg.warnings[0][:160]}] "
        _raise_diff(fmt, diffs, extra, warns=leg.warnings)
    return fn, out, cb


def _file_classes(spec, rec):
    v = spec.get('verb', [0, 0])
    rec.cls(f"verb:save={v[0]}", f"verb:load={v[1]}",
            f"stem={spec.get('stem', 'f')}",
            f"relative_path={spec.get('relative', False)}",
            f"overwrite={spec.get('overwrite', False)}")


def case_graph(spec, rec):
    """One object graph through one format or one conversion pair."""
    import emg3d
    mode = spec['mode']
    tmpdir = tempfile.mkdtemp(prefix='c17_', dir=TMPBASE)
    try:
        b = Builder(rec, tmpdir)
        with warnings.catch_warnings():
            warnings.simplefilter('ignore')
            data = b.dict(spec['root'])
        for k in ('compression', 'json_indent', 'verb') + META:
            if k in data:                       # documented: reserved names
                data[k + '_'] = data.pop(k)
        with warnings.catch_warnings():
            warnings.simplefilter('ignore')
            ca = canon(data)
        rec.cls(f"mode={mode}", f"kind={'convert' if '>' in mode else 'rt'}",
                f"instances={min(b.n_inst, 3)}{'+' if b.n_inst > 3 else ''}")
        _file_classes(spec, rec)
        if b.n_inst and b.n_arr:
            rec.nt([mode, b.shape, sorted(set(rec.classes))])
        rec.note({'mode': mode, 'instances': b.n_inst, 'arrays': b.n_arr,
                  'top_keys': list(data)[:6]})
        leg = Leg(tmpdir, spec)
        leg.opts = {'compression': spec.get('compression', 'gzip'),
                    'json_indent': spec.get('json_indent', 2)}
        rec.cls(f"save_opts={leg.opts['compression']}/"
                f"{leg.opts['json_indent']}")
        if '>' not in mode:
            check_leg(leg, mode, data, ca)
            return
        fa, fb = mode.split('>')
        fn_a, out_a, ca_a = check_leg(leg, fa, data, ca)
        fn_b = leg.fname(fb)
        try:
            with warnings.catch_warnings(), \
                    contextlib.redirect_stdout(io.StringIO()):
                warnings.simplefilter('ignore')     # (save inside convert
                emg3d.io.convert(fn_a, fn_b, verb=0)  # prints: no verb there)
            conv_exc = None
        except Exception as e:
            conv_exc = e
        # The same thing done by hand: is a failure B's or convert's own?
        direct = None
        try:
            leg2 = Leg(tmpdir, dict(spec, stem='byhand', overwrite=False))
            leg2.k = 100
            leg2.opts = dict(leg.opts)
            check_leg(leg2, fb, out_a, ca_a, unchanged=False)
        except Violation as v:
            direct = v
        if conv_exc is not None:
            if direct is not None:
                direct.message = (f"[during convert {mode}] " + direct.message)
                raise direct
            raise Violation(
                f"convert:{mode}:raises:{type(conv_exc).__name__}:"
                f"{_where(conv_exc)}",
                f"convert raised {type(conv_exc).__name__}: "
                f"{str(conv_exc)[:300]} although load+save by hand works",
                {'traceback': _tb_text(conv_exc)})
        try:
            out_b, cb_b = leg.load(fb, fn_b, ca_a)
            diffs = []
            compare(ca_a, cb_b, _root(ca_a), diffs)
            if diffs:
                _raise_diff(fb, diffs, f"[after convert {mode}] ",
                            warns=leg.warnings)
        except Violation as v:
            if direct is not None and direct.signature == v.signature:
                raise
            v2 = Violation(f"convert:{mode}:" + v.signature.split(':', 1)[1],
                           v.message + " (load+save by hand does not show "
                           "this)", v.details)
            raise v2
        if direct is not None:
            raise Violation(
                "convert:" + mode + ":hides:" + direct.signature,
                "convert succeeded where save+load by hand fails: " +
                direct.message)
    finally:
        shutil.rmtree(tmpdir, ignore_errors=True)


def case_tofile(spec, rec):
    """Survey / Simulation through their to_file / from_file methods."""
    fmt = spec['fmt']
    tmpdir = tempfile.mkdtemp(prefix='c17_', dir=TMPBASE)
    obj = None
    try:
        b = Builder(rec, tmpdir)
        with warnings.catch_warnings():
            warnings.simplefilter('ignore')
            obj = b.value(spec['obj'], 0)
        is_sim = type(obj).__name__ == 'Simulation'
        what = spec['what'] if is_sim else None
        name = None if spec['name'] is None else _sanitize_key(spec['name'],
                                                               rec)
        if name in ('compression', 'json_indent', 'verb', 'what', 'name',
                    'fname') + META:
            name = name + '_'
        kw = {} if name is None else {'name': name}
        again = bool(spec.get('again', False)) and is_sim
        with warnings.catch_warnings():
            warnings.simplefilter('ignore')
            # The object as a plain save sees it (default `what`), taken
            # before to_dict(what) / to_file is ever called.
            ca_def = canon({'x': obj}) if is_sim else None
            ca = canon(obj, what)
        rec.cls(f"fmt={fmt}", f"what={what}",
                f"name={'custom' if kw else 'default'}", f"again={again}")
        _file_classes(spec, rec)
        rec.nt([fmt, what, kw, b.shape, sorted(set(rec.classes))])
        rec.note({'fmt': fmt, 'what': what, 'class': type(obj).__name__})
        leg = Leg(tmpdir, spec)
        if is_sim:
            leg.save_default_verb = obj.verb    # documented default
            rec.cls(f"sim.verb={obj.verb}")

            def saver(fn, **vkw):
                return obj.to_file(fn, what=what, **vkw, **kw)
        else:
            def saver(fn, **vkw):
                return obj.to_file(fn, **vkw, **kw)

        def loader(fn, **vkw):
            return type(obj).from_file(fn, **vkw, **kw)
        fn = leg.save(fmt, None, ca, saver=saver)
        _unchanged(fmt, ca, obj, what, label='to_file')
        out, cb = leg.load(fmt, fn, ca, loader=loader, what=what)
        diffs = []
        compare(ca, cb, _root(ca), diffs)
        if diffs:
            extra = ''
            if leg.warnings:
                extra = f"[warning on load: {leg.warnings[0][:160]}] "
            _raise_diff(fmt, diffs, extra, warns=leg.warnings)
        if again:
            # The next serialisation of the same object is an ordinary one:
            # `what` of the to_file call must not stick to the object.
            leg3 = Leg(tmpdir, dict(spec, stem='again', verb=[0, 0],
                                    overwrite=False))
            try:
                check_leg(leg3, fmt, {'x': obj}, ca_def)
            except Violation as v:
                raise Violation(
                    v.signature.replace(f"{fmt}:", f"{fmt}:after_to_file("
                                        f"what={what}):", 1),
                    f"[emg3d.save(x=sim) after sim.to_file(what={what!r})] "
                    + v.message, v.details)
        elif is_sim:
            # ... and the whole exercise has left the simulation as it was
            # (with every `what`, not only the one that was written).
            _unchanged(fmt, ca_def, {'x': obj}, label=f"to_file(what={what})")
    finally:
        if hasattr(obj, '_what_to_file'):        # never leak into the cache
            delattr(obj, '_what_to_file')
        shutil.rmtree(tmpdir, ignore_errors=True)


SUBS = {'graph': case_graph, 'tofile': case_tofile}


def _skipping(ctx, fn, confirmed):
    """Known findings whose committed replay has just reproduced (the
    KNOWN-FINDING line is printed by ctx.regression) are counted as excluded
    straight away, exactly as the framework does from the second round on;
    this saves one collect-then-continue round per known signature."""
    def case(spec, rec):
        try:
            fn(spec, rec)
        except Violation as v:
            if v.signature not in confirmed:
                raise
            ctx.excluded[v.signature] += 1
            rec.cls('known_finding_hit')
    return case


FUZZ = {'graph': (GRAPH, case_graph), 'tofile': (TOFILE, case_tofile)}


def run(ctx):
    import emg3d
    ctx.regression(SUBS)
    confirmed = {h['signature'] for h in ctx.known_hits}
    reg = set(emg3d.utils._KNOWN_CLASSES)
    ctx.notes['registered_classes'] = sorted(reg)
    ctx.notes['registered_but_not_generated'] = sorted(reg - set(KNOWN))
    # Root causes not yet confirmed by a replay each cost a
    # collect-then-continue round, so the quick tier does not shrink (the
    # message names the path and both values; the thorough tier shrinks).
    shrink = not ctx.quick
    ctx.explore('graph', GRAPH, _skipping(ctx, case_graph, confirmed),
                ctx.n(650, 2500), max_rounds=30, shrink=shrink)
    ctx.explore('tofile', TOFILE, _skipping(ctx, case_tofile, confirmed),
                ctx.n(280, 1000), max_rounds=30, shrink=shrink)
    # coverage-guided campaign over the same strategy / oracle
    ctx.fuzz('graph', ctx.n(250, 1000), max_len=8192)

"""C10 - sources inject exactly their nominal moment in their nominal direction.

Sub-checks
----------
wire      finite electric dipoles (three coordinate formats) and wires with
          2..8 electrodes through get_source_field: conservation of moment
          (sum per component = last - first electrode), no re-normalisation
          warning, all entries finite, support inside the cells the wire
          touches (checker-side slab clipping), sfield = vfield * strength *
          (-s mu0), equal `points` for the three formats.
point     electric point sources: sum per component = unit direction.
convert   point_to_dipole / dipole_to_point / rotation round trips and the
          three coordinate formats of `Dipole`, no grid involved.
magnetic  magnetic dipoles: loop geometry (closed, planar, square, vector
          area = length * direction) and its source field (zero moment).
magpoint  magnetic point source: finite, zero net moment, linear in
          strength, no frequency factor (f>0 = Laplace = frequency-free
          vector), magnetic moment 1/2 sum r x v = -direction.
reuse     one source object asked repeatedly (frequencies / domains / grids),
          directly or through copy() / to_dict-from_dict / pickle made at
          that moment, after reading lazily cached attributes: every answer
          equals that of a freshly built source.

Location oracles (what sum + support cannot decide): for wires and loops the
transverse first moments sum(f_c * node_a) = integral r_a dr_c along the
path (a != c; for a loop the vector area, i.e. length x direction of the
magnetic dipole); for point sources the centre of weight of every component
= the source position; the reversed wire gives the negated vector and a wire
A->B->A the zero vector, edge by edge.  The returned Field's documented
attributes (frequency, sval, dtype, electric) are compared with closed forms.

A re-normalisation warning ("SHOULD NEVER HAPPEN" in the code's own words)
is a violation: it means the raw distribution did not conserve the moment
and was rescaled.  Failure signatures are `<sub>:<symptom>:<feature>`, where
the feature is that of the first segment that fails on its own
(segment_in_upper_boundary_face / piece_within_nm_of_node_plane /
node_resident / generic), so that one root cause is one family of buckets.

Not generated: complex strength together with Laplace or frequency=None
(the documented result is a real-valued field there; emg3d raises a numpy
casting error), zero strength, electrodes outside the closed grid box.
"""
import math
import warnings

import numpy as np
from hypothesis import strategies as st
from scipy.constants import mu_0

from vp import gen
from vp.framework import Violation

RULE = ("Grids with 2..7 cells per direction (uniform / stretched / random "
        "widths, scale 1..1000 m, optional UTM-like origin shift). Electrode "
        "coordinates are drawn per axis as exactly-a-node (incl. both "
        "boundary nodes), cell centre, fraction of a cell, equal to the "
        "previous electrode (axis-aligned and face/edge-resident segments) "
        "or a tiny offset from it; one wire in six may also use positions "
        "1e-10..1e-6 m off a node, one in three avoids node planes "
        "altogether; one in ten gets a segment planted entirely in a lower "
        "/ interior / upper grid face (labelled). Dipoles come in the three "
        "coordinate formats, as Tx objects, raw arrays/lists/tuples and via "
        "Source.get_field; strengths real or complex (complex only with "
        "f>0, where the field is complex), frequency / Laplace / "
        "frequency=None. A wire or magnetic case is non-trivial if it "
        "touches >=2 cells or has an electrode on a node plane; a point "
        "case if it is on a node plane or has an oblique direction; a "
        "conversion case if the dipole is oblique, vertical or has negative "
        "components. Distinct by the full symbolic electrode description, "
        "grid shape and seeds. Added in round 4: real strengths also as "
        "Python int (one in four); every second wire case relies on the "
        "documented defaults (strength omitted when it is 1, point-format "
        "dipoles rescaled to the default length 1 m where that fits, raw "
        "two-electrode input as nested list); one wire in six with >=3 "
        "electrodes revisits an earlier electrode (back-tracking, closed "
        "wires, A->B->A); conversion functions with angles in radians (one "
        "in three) and `point` as tuple / list / ndarray; "
        "point_to_square_loop called directly with a tuple; reuse: requests "
        "through copy / to_dict+from_dict / pickle (optionally adopted for "
        "the later requests), after reading repr / length / azimuth / "
        "center, and magnetic dipoles given by two end points.")
ASSUMPTIONS = [
    "numpy float arithmetic and math.sin/cos; scipy.constants.mu_0",
    "the documented rounding of nodes and electrodes to 1e-9 m is accepted: "
    "sums are compared with 1e-9*wire length + 4e-9 m + 64 eps max|coord|, "
    "cell boxes for the support oracle are dilated by 2e-9 m + 16 eps "
    "max|coord|",
    "the support oracle clips with an own vectorised slab test on the "
    "user-supplied (unrounded) electrodes and shares no code with "
    "emg3d.fields._dipole_vector",
    "Laplace parameter s = 2 pi i f (f>0) or |f| (f<0)",
    "first-moment oracles: edge positions = cell centre along the edge, "
    "node on the transverse axes, all relative to the grid centre; wires: "
    "transverse moments only, tolerance 2e-9 m*(segments*half extent + "
    "length) + 64 eps max|coord| (length + half extent) (each segment's "
    "electrodes and the nodes are rounded to 1e-9 m, widths are not); point "
    "sources: 256 eps max|coord| + 64 eps sum|f||r|/|sum f|, along the "
    "component's own axis only between the first and the last cell centre "
    "(the outer half cells are extrapolated below / clamped above by the "
    "pinned code; nothing is demanded there)",
    "magnetic point: moment oracle only for points between the first and "
    "last cell centre on every axis; sign convention derived from the "
    "class docstrings (moment I^m ds without i omega mu; same orientation "
    "as the TxMagneticDipole loop after its factor -s mu0)",
    "reversal / there-and-back: edge-wise, 1e-9 m*length + 64 eps "
    "max|coord| length/min width; reversal on every second wire case "
    "(parity of the grid seed) for the time budget",
    "'same electrodes/points' comparisons allow the documented 1e-9 m",
    "copy(), to_dict()/from_dict() and pickle are taken as faithful "
    "round trips of a source (documented: 'all information to re-create')",
    "point-format dipoles with an electrode within 1e-6 m of the boundary "
    "are given in the two-electrode format (centre +- L/2 u may round to "
    "the outside, which emg3d rejects as documented)",
]
SHARDS = {'quick': 1, 'thorough': 16}

EPS = np.finfo(float).eps
COUNTS = [2, 2, 3, 3, 4, 5, 6, 7]
NEAR = [1e-10, 3e-10, 1e-9, 3e-9, 1e-7, 1e-6]
SPECIAL_AZ = [-135.0, -90.0, -45.0, 0.0, 45.0, 90.0, 135.0, 180.0, 30.0,
              -60.0]
SPECIAL_EL = [-90.0, -45.0, 0.0, 45.0, 90.0, 30.0, -60.0]


# ===================================================================== #
#                          strategies                                   #
# ===================================================================== #
def _axis_mode(draw, n, first, interior=False, near_ok=True, style='mixed'):
    if interior:
        kinds = ['node', 'centre', 'frac', 'frac', 'near']
    elif style == 'generic':        # no node contact at the electrodes
        kinds = ['centre', 'frac', 'frac', 'frac']
    else:
        kinds = ['node', 'node', 'node', 'centre', 'centre', 'frac', 'frac',
                 'frac', 'frac', 'near']
    if not first:
        kinds = kinds + ['prev', 'prev', 'prev', 'delta']
    kind = draw(st.sampled_from(kinds))
    if kind == 'near' and not near_ok:
        kind = 'node'
    lo, hi = (1, n-1) if interior else (0, n)
    if kind == 'node':
        return ['node', draw(st.integers(lo, hi))]
    if kind == 'centre':
        return ['centre', draw(st.integers(0, n-1))]
    if kind == 'frac':
        return ['frac', draw(st.integers(0, n-1)),
                draw(st.floats(0.05, 0.95) if interior else
                     st.floats(0.001, 0.999))]
    if kind == 'near':
        return ['near', draw(st.integers(lo, hi)),
                draw(st.integers(0, len(NEAR)-1)),
                draw(st.sampled_from([-1, 1]))]
    if kind == 'prev':
        return ['prev']
    v = draw(gen.lgfloat(1e-7, 1e-1))*draw(st.sampled_from([-1, 1]))
    return ['delta', v]


def _strength(draw, complex_ok):
    kind = draw(st.sampled_from(
        ['one', 'real', 'real', 'complex', 'complex'] if complex_ok else
        ['one', 'real', 'real']))
    if kind == 'one':
        return [1.0, 0.0]
    mag = draw(gen.lgfloat(1e-3, 1e4))
    if kind == 'real':
        return [mag*draw(st.sampled_from([-1, 1])), 0.0]
    ph = draw(st.floats(-math.pi, math.pi))
    im = mag*math.sin(ph)
    if im == 0.0:
        im = mag
    return [mag*math.cos(ph), im]


def _freq(draw):
    mode = draw(st.sampled_from(['freq', 'freq', 'laplace', 'none']))
    f = draw(gen.lgfloat(1e-3, 1e4))
    return {'mode': mode, 'f': f}


def _angles(draw):
    az = draw(st.one_of(st.sampled_from(SPECIAL_AZ),
                        st.floats(-180, 180, exclude_min=True)))
    el = draw(st.one_of(st.sampled_from(SPECIAL_EL), st.floats(-90, 90)))
    return az, el


def _common(draw):
    fr = _freq(draw)
    return {
        'grid': draw(gen.grid_spec(COUNTS)),
        'shift': draw(st.sampled_from([0, 0, 0, 0, 1, 2])),
        'freq': fr,
        'strength': _strength(draw, fr['mode'] == 'freq'),
        # Python type of a real strength: float, or int as in the example
        # of the get_source_field docstring (strength=100)
        'stype': draw(st.sampled_from(['float', 'float', 'float', 'int'])),
    }


@st.composite
def wire_strategy(draw):
    spec = _common(draw)
    n = spec['grid']['n']
    nel = draw(st.sampled_from([2, 2, 2, 2, 3, 3, 4, 5, 6, 7, 8]))
    near_ok = draw(st.integers(0, 5)) == 0
    style = draw(st.sampled_from(['mixed', 'mixed', 'generic']))
    spec['electrodes'] = [
        [_axis_mode(draw, n[a], i == 0, near_ok=near_ok, style=style)
         for a in range(3)] for i in range(nel)]
    # deliberately planted face-resident segment (labelled class)
    if draw(st.integers(0, 9)) == 0:
        spec['plant'] = [draw(st.integers(0, nel-2)), draw(st.integers(0, 2)),
                         draw(st.sampled_from(['upper', 'lower',
                                               'interior']))]
    else:
        spec['plant'] = None
    if nel == 2:
        spec['form'] = draw(st.sampled_from(
            ['pair', 'flat', 'point5', 'wire2', 'raw_pair', 'raw_flat',
             'raw_point5', 'method']))
    else:
        spec['form'] = draw(st.sampled_from(['wire', 'wire', 'raw_wire',
                                             'raw_list', 'method']))
    # rely on the documented defaults (strength=1.0, length=1.0) instead of
    # passing them, where the drawn values allow it
    spec['defaults'] = draw(st.booleans())
    # electrode i := electrode k (k < i-1): back-tracking / closed wires
    if nel >= 3 and draw(st.integers(0, 5)) == 0:
        i = draw(st.integers(2, nel-1))
        spec['revisit'] = [i, draw(st.integers(0, i-2))]
    else:
        spec['revisit'] = None
    return spec


@st.composite
def point_strategy(draw):
    spec = _common(draw)
    n = spec['grid']['n']
    spec['pos'] = [_axis_mode(draw, n[a], True) for a in range(3)]
    spec['az'], spec['el'] = _angles(draw)
    spec['form'] = draw(st.sampled_from(['object', 'method']))
    return spec


@st.composite
def convert_strategy(draw):
    az, el = _angles(draw)
    cm = draw(st.sampled_from([0.0, 1.0, 1e2, 1e4, 1e6]))
    spec = {
        'centre': [cm*draw(st.floats(-1, 1)) for _ in range(3)],
        'az': az, 'el': el,
        'length': draw(gen.lgfloat(1e-3, 1e4)),
        # second start: two electrodes; per-axis difference kind
        'dkind': [draw(st.sampled_from(['zero', 'pos', 'neg', 'pos', 'neg',
                                        'negzero'])) for _ in range(3)],
        'dmag': [draw(gen.lgfloat(1e-3, 1e3)) for _ in range(3)],
        # angles of the conversion functions in degrees / radians; `point`
        # argument as ndarray or as the documented tuple (or a list)
        'deg': draw(st.sampled_from([True, True, False])),
        'container': draw(st.sampled_from(['ndarray', 'tuple', 'tuple',
                                           'list'])),
    }
    return spec


@st.composite
def magnetic_strategy(draw):
    spec = _common(draw)
    n = spec['grid']['n']
    spec['pos'] = [_axis_mode(draw, n[a], True, interior=True)
                   for a in range(3)]
    spec['az'], spec['el'] = _angles(draw)
    spec['fit'] = draw(st.one_of(st.floats(0.1, 1.0), st.just(1.0),
                                 st.floats(0.1, 0.3)))
    spec['format'] = draw(st.sampled_from(['point5', 'pair', 'flat']))
    spec['form'] = draw(st.sampled_from(['object', 'object', 'raw',
                                         'method']))
    return spec


@st.composite
def magpoint_strategy(draw):
    spec = _common(draw)
    n = spec['grid']['n']
    spec['pos'] = [_axis_mode(draw, n[a], True, interior=True)
                   for a in range(3)]
    spec['az'], spec['el'] = _angles(draw)
    return spec


# ===================================================================== #
#                       checker-side helpers                            #
# ===================================================================== #
def build_grid(spec):
    import emg3d
    h, origin = gen.build_widths(spec['grid'])
    if spec['shift'] == 1:          # UTM-like coordinates
        origin = origin + np.array([5.0e5, 4.0e6, -2.0e3])
    elif spec['shift'] == 2:
        origin = origin + np.array([-1.2e4, 3.3e4, 1.0e3])
    grid = emg3d.TensorMesh(h, origin=origin)
    nodes = [np.asarray(grid.nodes_x, float), np.asarray(grid.nodes_y, float),
             np.asarray(grid.nodes_z, float)]
    return grid, nodes


def expand_axis(mode, nodes, prev, scale):
    kind = mode[0]
    n = len(nodes) - 1
    if kind == 'node':
        return float(nodes[mode[1]])
    if kind == 'centre':
        k = mode[1]
        return float(0.5*(nodes[k] + nodes[k+1]))
    if kind == 'frac':
        k, u = mode[1], mode[2]
        x = float(nodes[k] + u*(nodes[k+1] - nodes[k]))
        return min(max(x, float(nodes[k])), float(nodes[k+1]))
    if kind == 'near':
        k, j, sg = mode[1], mode[2], mode[3]
        if k == 0:
            sg = 1
        elif k == n:
            sg = -1
        return float(nodes[k] + sg*NEAR[j])
    if kind == 'prev':
        return float(prev)
    if kind == 'delta':
        x = prev + mode[1]*scale
        if x < nodes[0] or x > nodes[-1]:
            x = prev - mode[1]*scale
        return float(min(max(x, nodes[0]), nodes[-1]))
    raise ValueError(kind)


def expand_electrodes(spec, nodes):
    """Symbolic electrodes -> (n, 3) float array strictly within the closed
    grid box; consecutive duplicates removed; at least two electrodes."""
    scale = spec['grid']['scale']
    modes = [[list(m) for m in e] for e in spec['electrodes']]
    revisit = spec.get('revisit')
    plant = spec.get('plant')
    if plant:
        i, a, which = plant
        n = len(nodes[a]) - 1
        k = {'upper': n, 'lower': 0, 'interior': max(1, n//2)}[which]
        modes[i][a] = ['node', k]
        modes[i+1][a] = ['node', k]
    pts = []
    for i, e in enumerate(modes):
        prev = pts[-1] if pts else [float(nodes[a][0]) for a in range(3)]
        pts.append([expand_axis(e[a], nodes[a], prev[a], scale)
                    for a in range(3)])
        if revisit and revisit[0] == i:
            pts[i] = list(pts[revisit[1]])
    out = [pts[0]]
    for p in pts[1:]:
        if np.linalg.norm(np.subtract(p, out[-1])) > 1e-6:
            out.append(p)
    if len(out) < 2:        # deterministic fall-back: add a cell centre
        for k in (0, 1):
            c = [0.5*(nodes[a][k] + nodes[a][k+1]) for a in range(3)]
            if np.linalg.norm(np.subtract(c, out[-1])) > 1e-6:
                out.append([float(x) for x in c])
                break
    return np.array(out, dtype=float)


def unit_vector(az, el):
    """(cos az cos el, sin az cos el, sin el) with angles in degrees."""
    a, e = math.radians(az), math.radians(el)
    return np.array([math.cos(a)*math.cos(e), math.sin(a)*math.cos(e),
                     math.sin(e)])


def angles_of(d):
    """Checker-side Cartesian -> (azimuth, elevation, length), degrees."""
    dx, dy, dz = (float(x) for x in d)
    length = math.sqrt(dx*dx + dy*dy + dz*dz)
    az = math.degrees(math.atan2(dy, dx))
    el = math.degrees(math.atan2(dz, math.hypot(dx, dy)))
    return az, el, length


def sval_of(fr):
    if fr['mode'] == 'freq':
        return 2j*math.pi*fr['f']
    if fr['mode'] == 'laplace':
        return fr['f']
    return None


def freq_arg(fr):
    return {'freq': fr['f'], 'laplace': -fr['f'], 'none': None}[fr['mode']]


def strength_of(spec):
    re, im = spec['strength']
    if im != 0.0:
        return complex(re, im)
    if spec.get('stype', 'float') == 'int':
        v = int(round(re))
        return v if v != 0 else (1 if re > 0 else -1)
    return float(re)


def strength_kind(spec):
    v = strength_of(spec)
    if isinstance(v, complex):
        return 'complex'
    k = 'unit' if v == 1 else ('real+' if v > 0 else 'real-')
    return k + ('_int' if isinstance(v, int) else '')


def slab_intervals(nodes, p0, p1, tau):
    """Own slab test: parameter interval [tmin, tmax] (arrays of
    shape_cells) on which the segment p0 + t (p1 - p0), 0 <= t <= 1, is
    inside each closed cell box dilated by tau (empty if tmin > tmax)."""
    t0s, t1s = [], []
    for a in range(3):
        lo = nodes[a][:-1] - tau
        hi = nodes[a][1:] + tau
        d = p1[a] - p0[a]
        if d == 0.0:
            inside = (p0[a] >= lo) & (p0[a] <= hi)
            t0 = np.where(inside, -np.inf, np.inf)
            t1 = np.where(inside, np.inf, -np.inf)
        else:
            ta = (lo - p0[a])/d
            tb = (hi - p0[a])/d
            t0 = np.minimum(ta, tb)
            t1 = np.maximum(ta, tb)
        t0s.append(t0)
        t1s.append(t1)
    tmin = np.maximum(np.maximum(t0s[0][:, None, None], t0s[1][None, :, None]),
                      np.maximum(t0s[2][None, None, :], 0.0))
    tmax = np.minimum(np.minimum(t1s[0][:, None, None], t1s[1][None, :, None]),
                      np.minimum(t1s[2][None, None, :], 1.0))
    return tmin, tmax


def touched_cells(nodes, p0, p1, tau):
    """Cells whose closed box, dilated by tau, meets the segment p0->p1."""
    tmin, tmax = slab_intervals(nodes, p0, p1, tau)
    return tmin <= tmax


def piece_hugs_plane(p0, p1, nodes):
    """True if some cell's piece of the segment (coordinates rounded to
    1e-9 m, as emg3d sees them) has positive length and its midpoint lies
    within a few nm of a node plane without lying in it (the segment may
    cross that plane at a flat angle or run parallel to it)."""
    r0, r1 = np.round(p0, 9), np.round(p1, 9)
    rn = [np.round(nd, 9) for nd in nodes]
    M = max(float(np.max(np.abs(nd))) for nd in nodes)
    dist = 3e-9 + 8*EPS*M
    for a in range(3):
        if r1[a] == r0[a]:
            gap = np.abs(rn[a] - r0[a])
            if np.any((gap > 0) & (gap <= dist)):
                return True
    tmin, tmax = slab_intervals(rn, r0, r1, 0.0)
    ok = tmax > tmin
    if not ok.any():
        return False
    tm = 0.5*(tmin[ok] + tmax[ok])
    for a in range(3):
        d = r1[a] - r0[a]
        if d == 0.0:
            continue
        m = r0[a] + tm*d
        gap = np.min(np.abs(m[:, None] - rn[a][None, :]), axis=1)
        if np.any(gap <= dist):
            return True
    return False


def allowed_edges(T):
    """Edges (x, y, z arrays) belonging to at least one cell of mask T."""
    nx, ny, nz = T.shape
    ax = np.zeros((nx, ny+1, nz+1), bool)
    ay = np.zeros((nx+1, ny, nz+1), bool)
    az = np.zeros((nx+1, ny+1, nz), bool)
    for i in (0, 1):
        for j in (0, 1):
            ax[:, i:ny+i, j:nz+j] |= T
            ay[i:nx+i, :, j:nz+j] |= T
            az[i:nx+i, j:ny+j, :] |= T
    return ax, ay, az


def residency(p, nodes, tol=1.5e-9):
    """Number of axes on which p lies on a node plane (0 interior, 1 face,
    2 edge, 3 node) and whether a boundary plane is among them."""
    cnt, lower, upper = 0, False, False
    for a in range(3):
        d = np.abs(nodes[a] - p[a])
        k = int(np.argmin(d))
        if d[k] <= tol:
            cnt += 1
            lower |= (k == 0)
            upper |= (k == len(nodes[a]) - 1)
    return cnt, lower, upper


def face_segments(pts, nodes):
    """Set of labels {'upper','lower','interior'} for segments lying
    entirely in a grid face (both ends on the same node plane), judged on
    coordinates rounded to 1e-9 m as emg3d documents."""
    out = set()
    rn = [np.round(nd, 9) for nd in nodes]
    rp = np.round(pts, 9)
    for r0, r1 in zip(rp[:-1], rp[1:]):
        for a in range(3):
            if r0[a] != r1[a]:
                continue
            k = np.flatnonzero(rn[a] == r0[a])
            if k.size:
                k = int(k[0])
                out.add('upper' if k == len(rn[a]) - 1 else
                        'lower' if k == 0 else 'interior')
    return out


def segment_feature(p0, p1, nodes):
    """Discriminating feature of one segment, judged on the coordinates as
    emg3d documents to see them (rounded to 1e-9 m)."""
    r0, r1 = np.round(p0, 9), np.round(p1, 9)
    rn = [np.round(nd, 9) for nd in nodes]
    for a in range(3):
        if r0[a] == r1[a] == rn[a][-1]:
            return 'segment_in_upper_boundary_face'
    if piece_hugs_plane(p0, p1, nodes):
        return 'piece_within_nm_of_node_plane'
    if residency(p0, nodes)[0] or residency(p1, nodes)[0]:
        return 'node_resident'
    return 'generic'


def wire_feature(pts, nodes):
    order = ['segment_in_upper_boundary_face',
             'piece_within_nm_of_node_plane',
             'node_resident', 'generic']
    fs = {segment_feature(p0, p1, nodes)
          for p0, p1 in zip(pts[:-1], pts[1:])}
    return [f for f in order if f in fs][0]


def grid_centre(nodes):
    return np.array([0.5*(float(nd[0]) + float(nd[-1])) for nd in nodes])


def first_moments(f, nodes, ctr):
    """First moments of an edge field about `ctr`.

    Returns (M, A): M[c, a] = sum_edges f_c * (position_a - ctr_a), with the
    position of a c-edge being its midpoint (cell centre along c, node on the
    two transverse axes); A[c, a] = sum |f_c| |position_a - ctr_a| (rounding
    scale).  Own code: three 1-D weighted sums per component."""
    rel = [np.asarray(nd, float) - ctr[a] for a, nd in enumerate(nodes)]
    cen = [0.5*(r[:-1] + r[1:]) for r in rel]
    M = np.zeros((3, 3), dtype=np.result_type(f.fx.dtype, float))
    A = np.zeros((3, 3))
    for c, arr in enumerate((f.fx, f.fy, f.fz)):
        arr = np.asarray(arr)
        for a in range(3):
            pos = cen[a] if a == c else rel[a]
            other = tuple(k for k in range(3) if k != a)
            M[c, a] = (arr.sum(axis=other)*pos).sum()
            A[c, a] = (np.abs(arr).sum(axis=other)*np.abs(pos)).sum()
    return M, A


def path_moments(pts, ctr):
    """Transverse first moments of the polygonal path `pts` about `ctr`:
    R[c, a] = sum_segments (p1 - p0)_c * (midpoint_a - ctr_a) = integral of
    (r_a - ctr_a) dr_c along the path (exact: r_a is linear on a segment)."""
    d = np.diff(pts, axis=0)
    mid = 0.5*(pts[:-1] + pts[1:]) - ctr
    return np.einsum('sc,sa->ca', d, mid)


class Caught:
    """Run a callable, recording warnings."""

    def __init__(self, fn):
        with warnings.catch_warnings(record=True) as w:
            warnings.simplefilter('always')
            self.value = fn()
        self.messages = [str(x.message) for x in w]
        self.normalizing = [m for m in self.messages
                            if 'Normalizing Source' in m]


def vector_problem(res, grid, nodes, pts, nominal, ptol=0.0):
    """Oracles on a source vector (frequency=None, unit strength) of the
    wire `pts`: finite / not re-normalised / moment / support / transverse
    first moments.
    Returns (None, ncells) or ((kind, message), ncells)."""
    vfield = res.value
    if not np.all(np.isfinite(vfield.field)):
        return ('nan_source', "get_source_field accepted the electrodes but "
                "returned non-finite entries; warnings="
                f"{sorted(set(res.normalizing))[:3]}"), 0
    if res.normalizing:
        return ('normalisation_warning', "get_source_field had to "
                "re-normalise the distributed source: "
                f"{sorted(set(res.normalizing))[:3]}"), 0
    M = max(float(np.max(np.abs(pts))),
            max(float(np.max(np.abs(nd))) for nd in nodes))
    L = float(np.linalg.norm(np.diff(pts, axis=0), axis=1).sum())

    # conservation of moment
    sums = np.array([vfield.fx.sum(), vfield.fy.sum(), vfield.fz.sum()])
    tol = 1e-9*L + 4e-9 + 64*EPS*M
    err = np.abs(sums - nominal)
    if np.any(err > tol):
        a = int(np.argmax(err))
        return ('sum_mismatch',
                f"sum of {'xyz'[a]}-component {sums[a]!r} vs nominal "
                f"{nominal[a]!r} (|diff| {err[a]:.3e} > tol {tol:.3e})"), 0

    # support
    tau = 2e-9 + 16*EPS*M
    T = np.zeros(grid.shape_cells, bool)
    for p0, p1 in zip(pts[:-1], pts[1:]):
        T |= touched_cells(nodes, p0, p1, tau)
    ax, ay, az = allowed_edges(T)
    for comp, arr, allow in (('x', vfield.fx, ax), ('y', vfield.fy, ay),
                             ('z', vfield.fz, az)):
        bad = (np.asarray(arr) != 0) & ~allow
        if bad.any():
            idx = [int(i) for i in np.argwhere(bad)[0]]
            return ('support_violation',
                    f"{comp}-edge {idx} carries "
                    f"{np.asarray(arr)[tuple(idx)]!r} but belongs to no "
                    f"cell touched by the wire ({int(bad.sum())} such "
                    "edges)"), 0

    # transverse first moments: the weights with which a piece of wire is
    # distributed over the four parallel edges of its cell are (bi)linear,
    # hence reproduce the transverse position of the piece:
    #   sum f_c * node_a = integral r_a dr_c   (a != c)
    # (for a closed loop: the vector area).  Decides *where* in the touched
    # cells the moment sits; sum and support do not.
    ctr = grid_centre(nodes)
    Mrel = max(float(nd[-1] - nd[0]) for nd in nodes)/2
    nseg = pts.shape[0] - 1
    Mo, _ = first_moments(vfield, nodes, ctr)
    Ro = path_moments(pts, ctr)
    # electrodes and nodes rounded to 1e-9 m (each segment on its own),
    # widths not rounded; ptol: uncertainty of the electrodes themselves.
    mtol = (2e-9*(nseg*Mrel + L) + 64*EPS*M*(L + Mrel)
            + 2*ptol*nseg*(Mrel + L))
    off = ~np.eye(3, dtype=bool)
    merr = np.where(off, np.abs(Mo - Ro), 0.0)
    if np.any(merr > mtol):
        c, a = np.unravel_index(int(np.argmax(merr)), (3, 3))
        return ('moment_mismatch',
                f"first moment sum({'xyz'[c]}-edges * {'xyz'[a]}-node) = "
                f"{Mo[c, a]!r} vs path integral {Ro[c, a]!r} (about the grid "
                f"centre; |diff| {merr[c, a]:.3e} > tol {mtol:.3e})"), 0
    return None, int(T.sum())


def check_field(vres, sres, spec, grid, nodes, pts, nominal, kind,
                ptol=0.0):
    """Common oracles on the source vector `vres` (frequency=None,
    strength=1) and the source field `sres` (drawn call form, strength,
    frequency) of a wire with electrodes `pts` and nominal moment
    `nominal`.  Returns number of touched cells."""
    import emg3d
    vfield, sfield = vres.value, sres.value
    det = {'electrodes': pts.tolist(),
           'hx': grid.h[0].tolist(), 'hy': grid.h[1].tolist(),
           'hz': grid.h[2].tolist(), 'origin': list(map(float, grid.origin))}

    prob, ncell = vector_problem(vres, grid, nodes, pts, nominal, ptol)
    if prob is None and (sres.normalizing or
                         not np.all(np.isfinite(sfield.field))):
        prob = ('nan_source' if not np.all(np.isfinite(sfield.field))
                else 'normalisation_warning',
                f"source field call: {sorted(set(sres.normalizing))[:3]}")
    if prob is not None:
        # Root-cause bucket: feature of the first segment that fails on its
        # own (the wire is the sum of its segments).
        feature, which = 'wire_level', None
        if kind == 'wire' and pts.shape[0] == 2:
            feature, which = segment_feature(pts[0], pts[1], nodes), 0
        else:
            worst = (-1.0, None)
            for i, (p0, p1) in enumerate(zip(pts[:-1], pts[1:])):
                seg = np.array([p0, p1])
                try:
                    r = Caught(lambda: emg3d.get_source_field(
                        grid, emg3d.TxElectricWire(seg), None))
                except Exception:
                    continue
                sp, _ = vector_problem(r, grid, nodes, seg, p1 - p0)
                if sp is not None:
                    feature, which = segment_feature(p0, p1, nodes), i
                    break
                f = r.value
                dev = float(np.max(np.abs(np.array(
                    [f.fx.sum(), f.fy.sum(), f.fz.sum()]) - (p1 - p0))))
                if dev > worst[0]:
                    worst = (dev, i)
            else:
                # No segment fails on its own (deviations add up over the
                # wire): bucket by the segment that deviates most.
                if worst[1] is not None and prob[0] == 'sum_mismatch':
                    which = worst[1]
                    feature = segment_feature(pts[which], pts[which+1],
                                              nodes)
        det['failing_segment'] = which
        raise Violation(
            f"{kind}:{prob[0]}:{feature}",
            f"{prob[1]}; failing segment {which}; electrodes="
            f"{pts.tolist()}", det)

    check_meta(sfield, spec, kind)

    # --- strength and -s mu0 ---------------------------------------------
    s = sval_of(spec['freq'])
    fac = strength_of(spec)*(1.0 if s is None else -s*mu_0)
    expect = np.asarray(vfield.field)*fac
    got = np.asarray(sfield.field)
    scale = float(np.max(np.abs(expect))) if expect.size else 0.0
    d = np.abs(got - expect)
    if np.any(d > 1e-12*scale):
        i = int(np.argmax(d))
        raise Violation(
            f"{kind}:scaling_mismatch:{spec['freq']['mode']}:"
            f"{'complex' if isinstance(fac, complex) else 'real'}",
            f"source field entry {got[i]!r} vs vector*strength*(-s mu0) "
            f"{expect[i]!r}; strength={strength_of(spec)!r}, s={s!r}; "
            f"form={spec.get('form')}", det)
    return ncell


def check_meta(sfield, spec, kind, dtype_none=True):
    """Documented attributes of the returned Field against closed forms:
    frequency (Hz, absolute value), Laplace parameter s = 2 pi i f (f > 0) or
    |f| (f < 0), None for the source vector; complex for f > 0, real for
    Laplace and (real strength) for frequency=None; an electric field."""
    fr = spec['freq']
    mode = fr['mode']
    s = sval_of(fr)
    got_f, got_s = sfield.frequency, sfield.sval
    if mode == 'none':
        ok = got_f is None and got_s is None
    else:
        ok = (got_f is not None and got_s is not None and
              abs(float(got_f) - fr['f']) <= 1e-15*fr['f'] and
              abs(complex(got_s) - s) <= 1e-14*abs(s) and
              (np.iscomplexobj(got_s) == (mode == 'freq')))
    if not ok:
        raise Violation(
            f"{kind}:field_frequency_attributes:{mode}",
            f"requested frequency argument {freq_arg(fr)!r}: Field.frequency="
            f"{got_f!r}, Field.sval={got_s!r}, expected {fr['f']!r} / {s!r}")
    dt = np.asarray(sfield.field).dtype
    if mode == 'freq':
        want = np.complex128
    elif mode == 'laplace' or (dtype_none and spec['strength'][1] == 0.0):
        want = np.float64
    else:
        want = None
    if want is not None and dt != want:
        raise Violation(
            f"{kind}:field_dtype:{mode}",
            f"source field for frequency argument {freq_arg(fr)!r} and "
            f"strength {strength_of(spec)!r} has dtype {dt}, documented "
            f"{np.dtype(want)}")
    if sfield.electric is not True:
        raise Violation(f"{kind}:field_not_electric",
                        f"Field.electric = {sfield.electric!r}")
    n_edges = sum(int(np.prod(x.shape)) for x in
                  (sfield.fx, sfield.fy, sfield.fz))
    if np.asarray(sfield.field).size != n_edges:
        raise Violation(f"{kind}:field_size", f"{sfield.field.size}")


def grid_classes(spec, rec):
    rec.cls(f"widths={spec['grid']['kind']}", f"shift={spec['shift']}",
            f"freq={spec['freq']['mode']}",
            f"strength={strength_kind(spec)}")


# ===================================================================== #
#                               wire                                    #
# ===================================================================== #
def case_wire(spec, rec):
    import emg3d
    grid, nodes = build_grid(spec)
    pts = expand_electrodes(spec, nodes)
    nel = pts.shape[0]
    form = spec['form']
    if nel > 2 and form in ('pair', 'flat', 'point5', 'wire2', 'raw_pair',
                            'raw_flat', 'raw_point5'):
        form = 'wire'
    if nel == 2 and form in ('wire', 'raw_wire', 'raw_list'):
        form = 'wire2'
    strength = strength_of(spec)
    freq = freq_arg(spec['freq'])
    # documented defaults strength=1.0 / length=1.0 left to emg3d
    defaults = bool(spec.get('defaults', False))
    skw = {} if (defaults and strength == 1.0) else {'strength': strength}
    deflen = False
    if defaults and nel == 2 and form in ('point5', 'raw_point5'):
        # the same dipole (centre, direction) with the default length 1 m,
        # if that stays at least 2e-6 m inside the grid
        c0 = 0.5*(pts[0] + pts[1])
        u0 = (pts[1] - pts[0])/np.linalg.norm(pts[1] - pts[0])
        cand = np.array([c0 - 0.5*u0, c0 + 0.5*u0])
        if all(nodes[a][0] + 2e-6 <= cand[:, a].min() and
               cand[:, a].max() <= nodes[a][-1] - 2e-6 for a in range(3)):
            pts, deflen = cand, True
    lkw = {}            # filled below: {'length': dl} unless default
    nominal = pts[-1] - pts[0]
    seglen = np.linalg.norm(np.diff(pts, axis=0), axis=1)
    L = float(seglen.sum())
    M = float(np.max(np.abs(pts)))
    if form in ('point5', 'raw_point5'):
        # In this format the electrodes are only defined up to the rounding
        # of centre +- length/2*direction (a few ulp of the coordinates).
        # An electrode on (or within 1e-6 m of) the boundary could end up
        # outside - by more than the documented 1e-9 m rounding absorbs, or,
        # for small coordinates, across a rounding tie - and emg3d then
        # rejects it as documented: use the pair form.
        bd = min(min(p[a] - nodes[a][0], nodes[a][-1] - p[a])
                 for p in pts for a in range(3))
        if bd < 1e-6:
            form = {'point5': 'pair', 'raw_point5': 'raw_pair'}[form]

    faces = face_segments(pts, nodes)
    feature = wire_feature(pts, nodes)

    # ---- construct the source in the drawn form --------------------------
    az, el, dl = angles_of(nominal)
    if deflen:
        dl = 1.0
    else:
        lkw = {'length': dl}
    centre = 0.5*(pts[0] + pts[1])
    coo5 = (float(centre[0]), float(centre[1]), float(centre[2]), az, el)
    flat = pts.ravel('F')
    rel = float(dl/max(M, 1e-300)) if nel == 2 else None

    def make():
        if form in ('pair', 'method') and nel == 2:
            return emg3d.TxElectricDipole(pts.copy(), **skw)
        if form == 'flat':
            return emg3d.TxElectricDipole(tuple(flat), **skw)
        if form == 'point5':
            return emg3d.TxElectricDipole(coo5, **skw, **lkw)
        return emg3d.TxElectricWire(pts.copy(), **skw)

    is_dipole_cls = nel == 2 and form in ('pair', 'flat', 'method',
                                          'raw_pair', 'raw_flat')

    def identical_guard(fn):
        """The Dipole class documents a ValueError for *identical*
        electrodes; ours are at least 1e-6 m apart."""
        try:
            return fn()
        except ValueError as e:
            if 'electrodes are identical' in str(e) and is_dipole_cls:
                raise Violation(
                    "dipole_rejected_as_identical:distinct_electrodes",
                    f"two-electrode dipole with distinct electrodes "
                    f"{pts.tolist()} (distance {dl:.6g} m, "
                    f"{rel:.3g} x max|coordinate|) rejected: {str(e)[:120]}",
                    {'electrodes': pts.tolist(), 'form': form})
            raise

    if form.startswith('raw'):
        kw = dict(skw)
        if form == 'raw_pair':
            # ndarray, or the nested list of the docstring example
            arg = pts.tolist() if defaults else pts.copy()
        elif form == 'raw_flat':
            arg = tuple(float(x) for x in flat)
        elif form == 'raw_point5':
            arg = coo5
            kw.update(lkw)
        elif form == 'raw_list':
            arg = pts.tolist()
        else:
            arg = pts.copy()
        sres = identical_guard(lambda: Caught(
            lambda: emg3d.get_source_field(grid, arg, freq, **kw)))
        src = None
    else:
        src = identical_guard(make)
        if form == 'method':
            sres = Caught(lambda: src.get_field(grid, freq))
        else:
            sres = Caught(lambda: emg3d.get_source_field(grid, src, freq))

    # ---- the three formats give the same points -------------------------
    if src is not None:
        # "same electrodes": to the documented 1e-9 m, not bit-wise
        ptol = 1e-9 if form != 'point5' else 1e-9*L + 1e-9 + 16*EPS*M
        dev = (float(np.max(np.abs(np.asarray(src.points) - pts)))
               if src.points.shape == pts.shape else np.inf)
        if src.points.shape != pts.shape or dev > ptol:
            raise Violation(
                f"format_points_mismatch:{form}",
                f"source.points {np.asarray(src.points).tolist()} differ "
                f"from the electrodes {pts.tolist()} by {dev:.3e} "
                f"(tol {ptol:.3e})")
        if abs(src.length - L) > 1e-9*L + 16*EPS*M:
            raise Violation(f"length_attribute:{form}",
                            f"source.length {src.length!r} vs {L!r}")
        if src.strength != strength:
            raise Violation("strength_attribute", f"{src.strength!r}")

    # ---- reference vector: frequency=None, unit strength -----------------
    if form in ('point5', 'raw_point5'):
        # the nominal electrodes of this format are defined by (centre,
        # angles, length); tolerance of the sum oracle covers the rounding.
        vsrc = emg3d.TxElectricDipole(coo5, strength=1.0, length=dl)
    elif nel == 2 and is_dipole_cls:
        vsrc = identical_guard(
            lambda: emg3d.TxElectricDipole(pts.copy(), strength=1.0))
    else:
        vsrc = emg3d.TxElectricWire(pts.copy(), strength=1.0)
    vres = Caught(lambda: emg3d.get_source_field(grid, vsrc, None))

    ncell = check_field(
        vres, sres, spec, grid, nodes, pts, nominal, 'wire',
        ptol=(1e-9*L + 16*EPS*M) if form in ('point5', 'raw_point5') else 0.0)

    # ---- orientation: the reversed wire gives the negated vector -----------
    # (the distribution is a line integral along the path; edge-wise)
    # (budget: on every second case, selected by the parity of the grid seed)
    do_rev = spec['grid']['seed'] % 2 == 0
    va = np.asarray(vres.value.field)
    hmin = min(float(np.min(h)) for h in grid.h)
    Mn = max(M, max(float(np.max(np.abs(nd))) for nd in nodes))
    rtol = 1e-9*L + 64*EPS*Mn*L/hmin
    if do_rev:
        rpts = np.array(vsrc.points, dtype=float)[::-1].copy()
        rres = Caught(lambda: emg3d.get_source_field(
            grid, emg3d.TxElectricWire(rpts, strength=1.0), None))
        vb = np.asarray(rres.value.field)
    if do_rev and (rres.normalizing or
                   not np.all(np.abs(va + vb) <= rtol)):
        bad = np.abs(va + vb)
        i = int(np.argmax(np.where(np.isnan(bad), np.inf, bad)))
        raise Violation(
            f"wire:reversal_not_antisymmetric:{feature}",
            f"vector of the reversed wire is not the negative: entry {i}: "
            f"{va[i]!r} vs {vb[i]!r} (tol {rtol:.3e}); warnings="
            f"{sorted(set(rres.normalizing))[:2]}; electrodes={pts.tolist()}",
            {'electrodes': pts.tolist(), 'hx': grid.h[0].tolist(),
             'hy': grid.h[1].tolist(), 'hz': grid.h[2].tolist(),
             'origin': list(map(float, grid.origin))})

    # ---- there and back again: nothing is left on any edge ------------------
    closed = bool(nel >= 3 and np.all(pts[0] == pts[-1]))
    there_back = bool(nel == 3 and closed)
    if there_back and not np.all(np.abs(va) <= rtol):
        i = int(np.argmax(np.abs(va)))
        raise Violation(
            f"wire:there_and_back_not_zero:{feature}",
            f"wire A->B->A leaves {va[i]!r} on entry {i} (tol {rtol:.3e}); "
            f"electrodes={pts.tolist()}",
            {'electrodes': pts.tolist(), 'hx': grid.h[0].tolist(),
             'hy': grid.h[1].tolist(), 'hz': grid.h[2].tolist(),
             'origin': list(map(float, grid.origin))})

    # ---- classification ---------------------------------------------------
    grid_classes(spec, rec)
    rec.cls(f"form={form}", f"electrodes={nel}", f"feature={feature}")
    if 'strength' not in skw:
        rec.cls('default_strength_omitted')
    if deflen:
        rec.cls('default_length_omitted')
    if form == 'raw_pair' and defaults:
        rec.cls('raw_pair_as_nested_list')
    if spec.get('revisit') and nel >= 3:
        rv = np.round(pts, 9)
        if any(np.all(rv[i] == rv[k]) for i in range(2, nel)
               for k in range(i-1)):
            rec.cls('revisits_an_electrode')
    if do_rev:
        rec.cls('reversal_checked')
    if closed:
        rec.cls('closed_wire')
    if there_back:
        rec.cls('there_and_back')
    res = [residency(p, nodes) for p in pts]
    for c in sorted(set(r[0] for r in res)):
        rec.cls('electrode_on=' + ['interior', 'face', 'edge', 'node'][c])
    if any(r[1] for r in res):
        rec.cls('electrode_on_lower_boundary')
    if any(r[2] for r in res):
        rec.cls('electrode_on_upper_boundary')
    for f in sorted(faces):
        rec.cls(f"segment_in_{f}_face")
    nz = [int(np.count_nonzero(np.abs(d) > 1e-9))
          for d in np.diff(pts, axis=0)]
    if any(k == 1 for k in nz):
        rec.cls('segment=axis_aligned')
    if any(k == 2 for k in nz):
        rec.cls('segment=oblique_in_plane')
    if any(k == 3 for k in nz):
        rec.cls('segment=oblique_3d')
    rec.cls('cells_touched=' + ('1' if ncell == 1 else '2-4' if ncell <= 4
                                else '5-16' if ncell <= 16 else '>16'))
    if spec.get('plant') and spec['plant'][2] in faces:
        rec.cls(f"planted={spec['plant'][2]}")
    if nel == 2 and rel is not None and rel < 1e-5:
        rec.cls('short_dipole_vs_coordinates')
    if ncell >= 2 or any(r[0] for r in res):
        rec.nt([spec['grid']['n'], spec['grid']['seed'], spec['electrodes'],
                spec['plant'], form] + ([spec['revisit']]
                                        if spec.get('revisit') else []))
    rec.note({'shape': list(grid.shape_cells), 'electrodes': nel,
              'form': form, 'feature': feature, 'cells_touched': ncell,
              'length': L})


# ===================================================================== #
#                               point                                   #
# ===================================================================== #
def case_point(spec, rec):
    import emg3d
    grid, nodes = build_grid(spec)
    scale = spec['grid']['scale']
    pos = [expand_axis(spec['pos'][a], nodes[a], nodes[a][0], scale)
           for a in range(3)]
    az, el = spec['az'], spec['el']
    coo = (pos[0], pos[1], pos[2], az, el)
    strength = strength_of(spec)
    freq = freq_arg(spec['freq'])
    u = unit_vector(az, el)

    rot = emg3d.electrodes.rotation(az, el)
    if np.max(np.abs(rot - u)) > 1e-14:
        raise Violation("rotation_mismatch",
                        f"rotation({az}, {el}) = {rot.tolist()} vs "
                        f"{u.tolist()}")

    vsrc = emg3d.TxElectricPoint(coo, strength=1.0)
    vres = Caught(lambda: emg3d.get_source_field(grid, vsrc, None))
    src = emg3d.TxElectricPoint(coo, strength=strength)
    if spec['form'] == 'method':
        sres = Caught(lambda: src.get_field(grid, freq))
    else:
        sres = Caught(lambda: emg3d.get_source_field(grid, src, freq))
    vfield, sfield = vres.value, sres.value

    r = residency(pos, nodes)
    where = ('upper_boundary' if r[2] else 'lower_boundary' if r[1] else
             ['interior', 'face', 'edge', 'node'][r[0]])
    if not (np.all(np.isfinite(vfield.field)) and
            np.all(np.isfinite(sfield.field))):
        raise Violation(f"point:nonfinite_source:{where}",
                        f"non-finite point source for {coo}")
    sums = np.array([vfield.fx.sum(), vfield.fy.sum(), vfield.fz.sum()])
    mag = np.array([np.abs(vfield.fx).sum(), np.abs(vfield.fy).sum(),
                    np.abs(vfield.fz).sum()])
    err = np.abs(sums - u)
    if np.any(err > 1e-12*(1 + mag)):
        a = int(np.argmax(err))
        raise Violation(
            f"point:sum_mismatch:{where}",
            f"sum of {'xyz'[a]}-component {sums[a]!r} vs direction "
            f"{u[a]!r} for point {coo}",
            {'coordinates': list(coo), 'hx': grid.h[0].tolist(),
             'hy': grid.h[1].tolist(), 'hz': grid.h[2].tolist(),
             'origin': list(map(float, grid.origin))})
    # ---- location: the (tri)linear weights reproduce the point ------------
    # per component c (direction factor != 0): sum(f_c * edge position) /
    # sum(f_c) = source position.  Transverse axes: always.  Along c the
    # edges sit at cell centres; demanded between the first and the last
    # cell centre only (nothing is promised for the outer half cells).
    det = {'coordinates': list(coo), 'hx': grid.h[0].tolist(),
           'hy': grid.h[1].tolist(), 'hz': grid.h[2].tolist(),
           'origin': list(map(float, grid.origin))}
    ctr = grid_centre(nodes)
    Mn = max(float(np.max(np.abs(nd))) for nd in nodes)
    Mo, Ao = first_moments(vfield, nodes, ctr)
    along_ok = []
    for c, arr in enumerate((vfield.fx, vfield.fy, vfield.fz)):
        nnz = int(np.count_nonzero(np.asarray(arr)))
        if nnz > 8:
            raise Violation(
                f"point:more_than_8_edges:{where}",
                f"{'xyz'[c]}-component of a point source has {nnz} non-zero "
                f"entries for {coo}", det)
        cen = 0.5*(nodes[c][:-1] + nodes[c][1:])
        inner = bool(cen[0] <= pos[c] <= cen[-1])
        along_ok.append(inner)
        if abs(u[c]) <= 1e-9:
            continue
        for a in range(3):
            if a == c and not inner:
                continue
            loc = float(Mo[c, a]/sums[c])
            ltol = 256*EPS*Mn + 64*EPS*float(Ao[c, a])/abs(sums[c])
            if not abs(loc - (pos[a] - ctr[a])) <= ltol:
                raise Violation(
                    f"point:location_mismatch:{where}:"
                    f"{'along' if a == c else 'transverse'}",
                    f"{'xyz'[c]}-component of the point source at {coo} has "
                    f"its centre of weight at {'xyz'[a]} = "
                    f"{loc + ctr[a]!r}, source at {pos[a]!r} (|diff| "
                    f"{abs(loc - (pos[a] - ctr[a])):.3e} > tol {ltol:.3e})",
                    det)

    check_meta(sfield, spec, 'point')
    s = sval_of(spec['freq'])
    fac = strength*(1.0 if s is None else -s*mu_0)
    expect = np.asarray(vfield.field)*fac
    got = np.asarray(sfield.field)
    if np.any(np.abs(got - expect) > 1e-12*np.max(np.abs(expect))):
        raise Violation(
            f"point:scaling_mismatch:{spec['freq']['mode']}:"
            f"{'complex' if isinstance(fac, complex) else 'real'}",
            f"source field != vector*strength*(-s mu0); strength="
            f"{strength!r}, s={s!r}")
    if (np.asarray(src.points).shape != (1, 3) or
            np.max(np.abs(np.asarray(src.points) - np.array([pos]))) > 1e-9):
        raise Violation("point:points_attribute", f"{src.points}")

    grid_classes(spec, rec)
    special = (az in SPECIAL_AZ[:8]) and (el in SPECIAL_EL[:5])
    rec.cls(f"position={where}", f"form={spec['form']}",
            'angles=special' if special else 'angles=generic',
            'el=' + ('+90' if el == 90 else '-90' if el == -90 else
                     'neg' if el < 0 else 'zero' if el == 0 else 'pos'),
            'az=' + ('180' if az == 180 else 'neg' if az < 0 else
                     'zero' if az == 0 else 'pos'),
            'along_axis_located=%d/3' % sum(
                1 for c in range(3) if along_ok[c] and abs(u[c]) > 1e-9))
    if r[0] or np.count_nonzero(np.abs(u) > 1e-12) >= 2:
        rec.nt([spec['grid']['n'], spec['grid']['seed'], spec['pos'], az, el])
    rec.note({'shape': list(grid.shape_cells), 'coordinates': list(coo),
              'where': where})


# ===================================================================== #
#                              convert                                  #
# ===================================================================== #
def case_convert(spec, rec):
    import emg3d
    from emg3d import electrodes as E
    c = np.array(spec['centre'], float)
    az, el, L = spec['az'], spec['el'], spec['length']
    u = unit_vector(az, el)
    cm = float(np.max(np.abs(c)))

    def tol(length):
        return 1e-9*length + 16*EPS*(cm + length)

    rot = E.rotation(az, el)
    if np.max(np.abs(rot - u)) > 1e-14:
        raise Violation("rotation_mismatch",
                        f"rotation({az}, {el}) = {rot.tolist()} vs "
                        f"{u.tolist()}")
    rr = E.rotation(math.radians(az), math.radians(el), deg=False)
    if np.max(np.abs(rr - u)) > 1e-14:
        raise Violation("rotation_mismatch:radians", f"{rr.tolist()}")

    elc = ('+90' if el == 90 else '-90' if el == -90 else
           'neg' if el < 0 else 'zero' if el == 0 else 'pos')

    deg = bool(spec.get('deg', True))
    container = spec.get('container', 'ndarray')

    def ang(x):             # checker degrees -> unit of the call
        return float(x) if deg else math.radians(float(x))

    def todeg(x):           # unit of the call -> degrees
        return float(x) if deg else math.degrees(float(x))

    def mk(x, y, z, a, e):  # `point` argument in the drawn container
        v = [float(x), float(y), float(z), float(a), float(e)]
        return (np.array(v) if container == 'ndarray' else
                tuple(v) if container == 'tuple' else v)

    dkw = {} if deg else {'deg': False}

    # (a) point form -> electrodes, against the closed formula
    coo = mk(c[0], c[1], c[2], ang(az), ang(el))
    P = np.asarray(E.point_to_dipole(coo, L, **dkw))
    ref = np.array([c - 0.5*L*u, c + 0.5*L*u])
    if P.shape != (2, 3) or np.max(np.abs(P - ref)) > tol(L):
        raise Violation(f"point_to_dipole_mismatch:el={elc}"
                        + ("" if deg else ":radians"),
                        f"point_to_dipole({list(coo)}, {L}, deg={deg}) = "
                        f"{P.tolist()} vs {ref.tolist()}")

    # (b) ... and back: same electrodes
    az2, el2, L2 = E.dipole_to_point(P, **dkw)
    c2 = P.mean(axis=0)
    P2 = np.asarray(E.point_to_dipole(
        mk(c2[0], c2[1], c2[2], az2, el2), L2, **dkw))
    # conditioning: P carries an absolute error ~eps*cm, which enters the
    # direction with 1/L and comes back multiplied by L.
    if np.max(np.abs(P2 - P)) > tol(L):
        raise Violation(
            f"roundtrip_point_dipole_point:el={elc}"
            + ("" if deg else ":radians"),
            f"(az, el, L)=({az}, {el}, {L}) -> electrodes {P.tolist()} -> "
            f"({az2}, {el2}, {L2}) -> electrodes {P2.tolist()}")

    # (c) start from two electrodes
    d = np.zeros(3)
    for a in range(3):
        k = spec['dkind'][a]
        d[a] = {'zero': 0.0, 'negzero': -0.0, 'pos': spec['dmag'][a],
                'neg': -spec['dmag'][a]}[k]
    if not np.any(d != 0):
        d[0] = spec['dmag'][0]
    e0 = c.copy()
    e1 = c + d
    D = np.array([e0, e1])
    dl = float(np.linalg.norm(e1 - e0))
    az3, el3, L3 = E.dipole_to_point(D, **dkw)
    az_r, el_r, L_r = angles_of(e1 - e0)
    if abs(L3 - L_r) > 1e-12*L_r:
        raise Violation("dipole_to_point:length", f"{L3!r} vs {L_r!r}")
    u3 = unit_vector(todeg(az3), todeg(el3))
    if np.max(np.abs(u3*L3 - (e1 - e0))) > 1e-9*dl:
        raise Violation(
            "dipole_to_point:direction" + ("" if deg else ":radians"),
            f"dipole_to_point({D.tolist()}, deg={deg}) = ({az3}, {el3}, "
            f"{L3}) does not point along {(e1-e0).tolist()}")
    cc = 0.5*(e0 + e1)
    D2 = np.asarray(E.point_to_dipole(
        mk(cc[0], cc[1], cc[2], az3, el3), L3, **dkw))
    az3, el3 = todeg(az3), todeg(el3)      # the classes take degrees
    t = 1e-9*dl + 16*EPS*(float(np.max(np.abs(D))) + dl)
    if np.max(np.abs(D2 - D)) > t:
        raise Violation(
            "roundtrip_dipole_point_dipole",
            f"electrodes {D.tolist()} -> ({az3}, {el3}, {L3}) -> "
            f"{D2.tolist()} (max diff {np.max(np.abs(D2-D)):.3e} > {t:.3e})")

    # (d) the Dipole class: three formats, same points
    rel = dl/max(float(np.max(np.abs(D))), 1e-300)
    try:
        s1 = emg3d.TxElectricDipole(D.copy())
        s2 = emg3d.TxElectricDipole(tuple(D.ravel('F')))
    except ValueError as e:
        if 'electrodes are identical' in str(e):
            raise Violation(
                "dipole_rejected_as_identical:distinct_electrodes",
                f"two-electrode dipole with distinct electrodes "
                f"{D.tolist()} (distance {dl:.6g} m, {rel:.3g} x "
                f"max|coordinate|) rejected: {str(e)[:120]}",
                {'electrodes': D.tolist()})
        raise
    s3 = emg3d.TxElectricDipole((cc[0], cc[1], cc[2], az3, el3), length=L3)
    # "same electrodes": to the documented 1e-9 m, not bit-wise
    if (s1.points.shape != D.shape or s2.points.shape != D.shape or
            max(np.max(np.abs(s1.points - D)),
                np.max(np.abs(s2.points - D))) > 1e-9):
        raise Violation("format_points_mismatch:pair_flat",
                        f"{s1.points.tolist()} / {s2.points.tolist()} vs "
                        f"{D.tolist()}")
    if np.max(np.abs(s3.points - D)) > t:
        raise Violation("format_points_mismatch:point5",
                        f"{s3.points.tolist()} vs {D.tolist()}")
    for nm, sx in (('pair', s1), ('flat', s2), ('point5', s3)):
        us = unit_vector(float(sx.azimuth), float(sx.elevation))
        if np.max(np.abs(us*dl - (e1 - e0))) > 1e-9*dl + t:
            raise Violation(f"angle_attributes:{nm}",
                            f"azimuth/elevation {sx.azimuth}, "
                            f"{sx.elevation} vs electrodes {D.tolist()}")
        if abs(sx.length - dl) > 1e-9*dl + t:
            raise Violation(f"length_attribute:{nm}",
                            f"{sx.length!r} vs {dl!r}")
        if np.max(np.abs(sx.center - cc)) > t:
            raise Violation(f"center_attribute:{nm}",
                            f"{sx.center.tolist()} vs {cc.tolist()}")

    nzc = int(np.count_nonzero(d))
    rec.cls(f"el={elc}", f"components={nzc}",
            'angles_in=' + ('degrees' if deg else 'radians'),
            f"point_as={container}",
            'az=' + ('180' if az == 180 else 'neg' if az < 0 else
                     'zero' if az == 0 else 'pos'),
            'coords=' + ('0' if cm == 0 else '<=1e2' if cm <= 1e2 else
                         '<=1e4' if cm <= 1e4 else '<=1e6'),
            'vertical_pair' if (d[0] == 0 and d[1] == 0) else 'nonvertical',
            'negzero' if 'negzero' in spec['dkind'] else 'no_negzero')
    if rel < 1e-5:
        rec.cls('short_dipole_vs_coordinates')
    if nzc >= 2 or abs(el) == 90 or np.any(d < 0):
        rec.nt([spec['centre'], az, el, L, spec['dkind'], spec['dmag']])
    rec.note({'az': az, 'el': el, 'length': L, 'd': d.tolist()})


# ===================================================================== #
#                              magnetic                                 #
# ===================================================================== #
def case_magnetic(spec, rec):
    import emg3d
    grid, nodes = build_grid(spec)
    scale = spec['grid']['scale']
    c = np.array([expand_axis(spec['pos'][a], nodes[a], nodes[a][0], scale)
                  for a in range(3)])
    az, el = spec['az'], spec['el']
    u = unit_vector(az, el)
    dmin = min(min(c[a] - nodes[a][0], nodes[a][-1] - c[a])
               for a in range(3))
    # Loop vertices are at most half_diag = sqrt(L/2) from the centre.  An
    # absolute margin keeps the loop that emg3d reconstructs (pair / flat
    # format: length and angles recovered from the electrodes, relative
    # error ~eps*M/L) inside the box.
    fmt = spec['format']
    Mg = max(float(np.max(np.abs(nd))) for nd in nodes)
    hd0 = spec['fit']*dmin
    margin = 2e-9 + 16*EPS*Mg
    if fmt != 'point5':
        margin += hd0*64*EPS*max(Mg, 2*hd0*hd0)/(2*hd0*hd0)
    hd = hd0 - min(margin, 0.5*hd0)
    L = 2.0*hd*hd
    strength = strength_of(spec)
    freq = freq_arg(spec['freq'])
    e0, e1 = c - 0.5*L*u, c + 0.5*L*u
    if fmt == 'point5':
        arg, kw = (c[0], c[1], c[2], az, el), {'length': L}
    elif fmt == 'pair':
        arg, kw = np.array([e0, e1]), {}
    else:
        arg, kw = tuple(np.array([e0, e1]).ravel('F')), {}

    try:
        src = emg3d.TxMagneticDipole(arg, strength=strength, **kw)
    except ValueError as e:
        if 'electrodes are identical' in str(e) and fmt != 'point5':
            raise Violation(
                "dipole_rejected_as_identical:distinct_electrodes",
                f"magnetic dipole with distinct electrodes "
                f"{[e0.tolist(), e1.tolist()]} (distance {L:.6g} m, loop "
                f"side {math.sqrt(L):.6g} m) rejected: {str(e)[:120]}",
                {'electrodes': [e0.tolist(), e1.tolist()], 'format': fmt})
        raise
    P = np.asarray(src.points, float)
    M = float(np.max(np.abs(P)))
    side = math.sqrt(L)
    # pair/flat: angles and length are recovered from the electrodes, whose
    # absolute rounding error eps*M enters the direction with 1/L.
    dirtol = 1e-9 + (0 if fmt == 'point5' else 64*EPS*max(M, L)/L)
    ptol = side*dirtol + 16*EPS*M
    elc = ('+-90' if abs(el) == 90 else 'other')

    # --- geometry of the loop ---------------------------------------------
    if P.shape != (5, 3):
        raise Violation("loop:shape", f"points shape {P.shape}")
    if np.max(np.abs(P[4] - P[0])) > 0:
        raise Violation("loop:not_closed", f"{P.tolist()}")
    ctr = P[:4].mean(axis=0)
    if np.max(np.abs(ctr - c)) > ptol:
        raise Violation("loop:centre", f"{ctr.tolist()} vs {c.tolist()}")
    Q = P - c
    if np.max(np.abs(Q @ u)) > ptol:
        raise Violation(f"loop:not_planar_or_not_perpendicular:{fmt}",
                        f"(p-c).u = {(Q @ u).tolist()}; side {side}")
    sides = np.linalg.norm(np.diff(P, axis=0), axis=1)
    if np.max(np.abs(sides - side)) > ptol:
        raise Violation(f"loop:side_length:{fmt}",
                        f"sides {sides.tolist()} vs sqrt(length) {side!r}")
    area_vec = 0.5*sum(np.cross(Q[i], Q[i+1]) for i in range(4))
    if np.max(np.abs(area_vec - L*u)) > L*(4*dirtol) + 64*EPS*M*side:
        raise Violation(
            f"loop:vector_area:{fmt}",
            f"vector area {area_vec.tolist()} (|.|={np.linalg.norm(area_vec)!r}"
            f") vs length*direction {(L*u).tolist()} (length {L!r})")
    if fmt == 'point5':
        from emg3d import electrodes as E
        Pd = np.asarray(E.point_to_square_loop(
            (float(c[0]), float(c[1]), float(c[2]), az, el), L))
        if Pd.shape != (5, 3) or np.max(np.abs(Pd - P)) > 1e-9 + 16*EPS*M:
            raise Violation(
                "loop:point_to_square_loop_differs_from_class",
                f"point_to_square_loop(tuple, {L!r}) = {Pd.tolist()} vs "
                f"TxMagneticDipole.points {P.tolist()}")
    if fmt != 'point5':
        if np.any(np.asarray(src.coordinates, float).ravel() !=
                  np.asarray(arg, float).ravel()):
            raise Violation("loop:coordinates_attribute",
                            f"{src.coordinates}")

    # --- its source field ---------------------------------------------------
    form = spec['form']
    if form == 'raw':
        rarg = arg if not isinstance(arg, np.ndarray) else arg.copy()
        sres = Caught(lambda: emg3d.get_source_field(
            grid, rarg, freq, strength=strength, electric=False, **kw))
    elif form == 'method':
        sres = Caught(lambda: src.get_field(grid, freq))
    else:
        sres = Caught(lambda: emg3d.get_source_field(grid, src, freq))
    vsrc = emg3d.TxMagneticDipole(arg, strength=1.0, **kw)
    vres = Caught(lambda: emg3d.get_source_field(grid, vsrc, None))
    feature = wire_feature(P, nodes)
    ncell = check_field(vres, sres, spec, grid, nodes, P, np.zeros(3),
                        'magnetic')

    grid_classes(spec, rec)
    rec.cls(f"format={fmt}", f"form={form}", f"el={elc}",
            f"feature={feature}",
            'loop_cells=' + ('1' if ncell == 1 else '2-8' if ncell <= 8
                             else '>8'))
    res = [residency(p, nodes) for p in P[:4]]
    if any(r[0] for r in res):
        rec.cls('vertex_on_node_plane')
    if ncell >= 2 or any(r[0] for r in res):
        rec.nt([spec['grid']['n'], spec['grid']['seed'], spec['pos'], az, el,
                spec['fit'], fmt])
    rec.note({'shape': list(grid.shape_cells), 'centre': c.tolist(),
              'az': az, 'el': el, 'length': L, 'format': fmt,
              'cells_touched': ncell})


# ===================================================================== #
#                              magpoint                                 #
# ===================================================================== #
def case_magpoint(spec, rec):
    import emg3d
    grid, nodes = build_grid(spec)
    scale = spec['grid']['scale']
    pos = [expand_axis(spec['pos'][a], nodes[a], nodes[a][0], scale)
           for a in range(3)]
    coo = (pos[0], pos[1], pos[2], spec['az'], spec['el'])
    strength = strength_of(spec)
    freq = freq_arg(spec['freq'])
    f1 = emg3d.get_source_field(grid, emg3d.TxMagneticPoint(coo), freq)
    fs = emg3d.get_source_field(
        grid, emg3d.TxMagneticPoint(coo, strength=strength), freq)
    a1, as_ = np.asarray(f1.field), np.asarray(fs.field)
    if not (np.all(np.isfinite(a1)) and np.all(np.isfinite(as_))):
        raise Violation("magpoint:nonfinite_source", f"{coo}")
    sc = float(np.max(np.abs(a1)))
    if sc == 0:
        raise Violation("magpoint:zero_source", f"{coo}")
    if np.any(np.abs(as_ - a1*strength) > 1e-12*sc*abs(strength)):
        raise Violation("magpoint:not_linear_in_strength", f"{coo}")
    # a magnetic source is a curl: no net electric moment
    for comp, arr in (('x', f1.fx), ('y', f1.fy), ('z', f1.fz)):
        if abs(arr.sum()) > 1e-10*np.abs(arr).sum() + 1e-300:
            raise Violation(
                "magpoint:net_moment",
                f"{comp}-component sums to {arr.sum()!r} "
                f"(sum of |.| {np.abs(arr).sum()!r}) for {coo}")
    det = {'coordinates': list(coo), 'hx': grid.h[0].tolist(),
           'hy': grid.h[1].tolist(), 'hz': grid.h[2].tolist(),
           'origin': list(map(float, grid.origin))}
    check_meta(fs, spec, 'magpoint', dtype_none=False)

    # --- no frequency factor: the moment of a magnetic point source is
    # I^m ds (class docstring), so the source field for f > 0, for the
    # Laplace domain and the frequency-free source vector coincide.
    fN = emg3d.get_source_field(grid, emg3d.TxMagneticPoint(coo), None)
    aN = np.asarray(fN.field)
    scN = float(np.max(np.abs(aN))) if np.all(np.isfinite(aN)) else np.nan
    for nm, fq in (('f>0', spec['freq']['f']), ('laplace', -spec['freq']['f']),
                   ('drawn', freq)):
        fX = f1 if nm == 'drawn' else emg3d.get_source_field(
            grid, emg3d.TxMagneticPoint(coo), fq)
        aX = np.asarray(fX.field)
        if aX.shape != aN.shape or not np.all(
                np.abs(aX - aN) <= 1e-12*scN):
            raise Violation(
                f"magpoint:frequency_dependent:{nm}",
                f"magnetic point source at {coo}: field for frequency "
                f"argument {fq!r} differs from the frequency-free source "
                f"vector (max |diff| {float(np.max(np.abs(aX - aN))):.3e}, "
                f"max |vector| {scN:.3e}, ratio at the largest entry "
                f"{aX[int(np.argmax(np.abs(aN)))]/aN[int(np.argmax(np.abs(aN)))]!r})",
                det)

    # --- direction and sign: magnetic moment of the source vector ----------
    # m = 1/2 sum r x v.  For v = -curl^T (face weights of unit sum in
    # direction u): sum v.E = -u.B for the linear field E = 1/2 B x r (curl
    # E = B, reproduced exactly by edge midpoint values), i.e. m = -u: the
    # same orientation as the loop of a TxMagneticDipole (vector area +u)
    # has after its factor -s mu0.  Demanded between the first and the last
    # cell centre on every axis.
    u = unit_vector(spec['az'], spec['el'])
    inner = all(0.5*(nodes[a][0] + nodes[a][1]) <= pos[a] <=
                0.5*(nodes[a][-2] + nodes[a][-1]) for a in range(3))
    if inner:
        ctr = grid_centre(nodes)
        Mn = max(float(np.max(np.abs(nd))) for nd in nodes)
        hmin = min(float(np.min(h)) for h in grid.h)
        Mo, Ao = first_moments(fN, nodes, ctr)
        m = 0.5*np.array([Mo[2, 1] - Mo[1, 2], Mo[0, 2] - Mo[2, 0],
                          Mo[1, 0] - Mo[0, 1]])
        dtol = 64*EPS*float(Ao.sum()) + 1e3*EPS*(1 + Mn/hmin)
        if not np.all(np.abs(m + u) <= dtol):
            k = int(np.argmax(np.abs(m + u)))
            raise Violation(
                "magpoint:magnetic_moment_mismatch",
                f"magnetic point source at {coo}: magnetic moment of the "
                f"source vector 1/2 sum r x v = {m.tolist()}, expected "
                f"-(direction) = {(-u).tolist()} (component {'xyz'[k]}: "
                f"|diff| {abs(m[k] + u[k]):.3e} > tol {dtol:.3e})", det)

    grid_classes(spec, rec)
    r = residency(pos, nodes)
    rec.cls('position=' + ['interior', 'face', 'edge', 'node'][r[0]],
            'moment_oracle=' + ('applied' if inner else
                                'skipped_outer_half_cell'))
    rec.nt([spec['grid']['n'], spec['grid']['seed'], spec['pos'],
            spec['az'], spec['el']])
    rec.note({'coordinates': list(coo)})



# ===================================================================== #
#                 reuse: one source object, many requests               #
# ===================================================================== #
REUSE_KINDS = ['dipole', 'dipole5', 'wire', 'point', 'magdipole', 'magpoint',
               'magdipole_pair']
# How request k gets its field: from the object itself (function / method)
# or from a copy made at that moment (documented copy(), to_dict/from_dict,
# pickle as used for worker processes); with 'adopt' the copy replaces the
# object for the later requests.  Before the request one lazily cached
# attribute may be read.
REUSE_VIA = ['function', 'method', 'function', 'method', 'copy', 'dict',
             'pickle']
REUSE_TOUCH = ['none', 'none', 'repr', 'length', 'azimuth', 'center']


@st.composite
def reuse_strategy(draw):
    kind = draw(st.sampled_from(REUSE_KINDS))
    spec = {
        'grid': draw(gen.grid_spec(COUNTS)),
        'shift': draw(st.sampled_from([0, 0, 0, 1])),
        'kind': kind,
        'frac': [[draw(st.floats(0.15, 0.85)) for _ in range(3)]
                 for _ in range(draw(st.integers(3, 5)) if kind == 'wire'
                                else 2)],
        'az': draw(st.floats(-180, 180)), 'el': draw(st.floats(-90, 90)),
        'lfrac': draw(st.floats(0.02, 0.2)),
    }
    cplx = draw(st.integers(0, 3)) == 0
    spec['strength'] = _strength(draw, cplx)
    cplx = spec['strength'][1] != 0.0
    nreq = draw(st.integers(2, 5))
    reqs = []
    for _ in range(nreq):
        fr = _freq(draw)
        if cplx:
            fr['mode'] = 'freq'
        reqs.append({'freq': fr,
                     'grid': draw(st.sampled_from(['same', 'same', 'equal',
                                                   'other'])),
                     'via': draw(st.sampled_from(REUSE_VIA)),
                     'touch': draw(st.sampled_from(REUSE_TOUCH)),
                     'adopt': draw(st.booleans())})
    spec['requests'] = reqs
    return spec


def _reuse_source(emg3d, spec, nodes, strength):
    lo = np.array([nd[0] for nd in nodes])
    hi = np.array([nd[-1] for nd in nodes])
    frac = np.array(spec['frac'], float)
    for i in range(1, len(frac)):       # consecutive electrodes distinct
        if np.max(np.abs(frac[i] - frac[i-1])) < 0.02:
            a = i % 3
            frac[i] = frac[i-1]
            frac[i, a] += 0.05 if frac[i, a] < 0.5 else -0.05
    pts = lo + frac*(hi - lo)
    kind = spec['kind']
    ext = float(np.min(hi - lo))
    coo5 = (float(pts[0][0]), float(pts[0][1]), float(pts[0][2]),
            spec['az'], spec['el'])
    if kind == 'dipole':
        return emg3d.TxElectricDipole(pts[:2].copy(), strength=strength)
    if kind == 'dipole5':
        return emg3d.TxElectricDipole(coo5, strength=strength,
                                      length=spec['lfrac']*ext)
    if kind == 'wire':
        return emg3d.TxElectricWire(pts.copy(), strength=strength)
    if kind == 'point':
        return emg3d.TxElectricPoint(coo5, strength=strength)
    if kind in ('magdipole', 'magdipole_pair'):
        # square loop of area = length: keep its half diagonal inside
        # (half diagonal = sqrt(length/2) <= 0.142 ext; centre >= 0.15 ext
        # from the boundary)
        length = min(spec['lfrac']*ext, (0.2*ext)**2)
        if kind == 'magdipole':
            return emg3d.TxMagneticDipole(coo5, strength=strength,
                                          length=length)
        # the same dipole given by its two end points
        uu = unit_vector(spec['az'], spec['el'])
        return emg3d.TxMagneticDipole(
            np.array([pts[0] - 0.5*length*uu, pts[0] + 0.5*length*uu]),
            strength=strength)
    return emg3d.TxMagneticPoint(coo5, strength=strength)


def case_reuse(spec, rec):
    """One source object asked repeatedly (other frequencies, domains,
    grids): every answer equals the answer of a freshly built source on a
    freshly built grid, equals vector x strength x (-s mu0) [x i omega mu0
    handled by the source class for magnetic sources: compared with the
    fresh object instead], and earlier answers stay what they were."""
    import emg3d
    grid, nodes = build_grid(spec)
    ospec = dict(spec)
    ospec['grid'] = dict(spec['grid'], seed=spec['grid']['seed'] + 1)
    strength = strength_of(spec)
    src = _reuse_source(emg3d, spec, nodes, strength)
    electric = spec['kind'] in ('dipole', 'dipole5', 'wire', 'point')
    kept = []
    vias, touches = set(), set()
    for k, rq in enumerate(spec['requests']):
        if rq['grid'] == 'other':
            g, gn = build_grid(ospec)
            lo = [max(a[0], b[0]) for a, b in zip(nodes, gn)]
            hi = [min(a[-1], b[-1]) for a, b in zip(nodes, gn)]
            inside = all(
                l < float(np.min(np.asarray(src.points)[:, a])) and
                float(np.max(np.asarray(src.points)[:, a])) < h
                for a, (l, h) in enumerate(zip(lo, hi)))
            if not inside:
                g = build_grid(spec)[0]
        elif rq['grid'] == 'equal':
            g = build_grid(spec)[0]
        else:
            g = grid
        freq = freq_arg(rq['freq'])
        touch = rq.get('touch', 'none')
        if touch == 'azimuth' and not hasattr(src, 'azimuth'):
            touch = 'none'
        if touch == 'repr':
            repr(src)
        elif touch == 'length':
            src.length
        elif touch == 'azimuth':
            src.azimuth, src.elevation
        elif touch == 'center':
            src.center
        via = rq['via']
        if via in ('copy', 'dict', 'pickle'):
            if via == 'copy':
                cp = src.copy()
            elif via == 'dict':
                cp = type(src).from_dict(src.to_dict())
            else:
                import pickle
                cp = pickle.loads(pickle.dumps(src))
            got = emg3d.get_source_field(g, cp, freq)
            if rq.get('adopt', False):
                src = cp
        elif via == 'method':
            got = src.get_field(g, freq)
        else:
            got = emg3d.get_source_field(g, src, freq)
        vias.add(via)
        touches.add(touch)
        # fresh objects: same arguments, new source, new grid
        fg = emg3d.TensorMesh([h.copy() for h in g.h],
                              origin=np.array(g.origin, float))
        fnodes = [np.asarray(fg.nodes_x), np.asarray(fg.nodes_y),
                  np.asarray(fg.nodes_z)]
        fsrc = _reuse_source(emg3d, spec, nodes, strength)
        ref = emg3d.get_source_field(fg, fsrc, freq)
        tag = (f"{spec['kind']}:req{min(k, 2)}:{rq['freq']['mode']}:"
               f"{rq['grid']}")
        if via in ('copy', 'dict', 'pickle'):
            tag += f":{via}"

        a, b = np.asarray(got.field), np.asarray(ref.field)
        if a.dtype != b.dtype or a.shape != b.shape:
            raise Violation(f"reuse:dtype_or_shape:{tag}",
                            f"{a.dtype}{a.shape} vs fresh {b.dtype}{b.shape}")
        sc = float(np.max(np.abs(b)))
        if not np.all(np.abs(a - b) <= 1e-12*sc):
            raise Violation(
                f"reuse:differs_from_fresh_source:{tag}",
                f"request {k} ({rq}) on a re-used {type(src).__name__}: "
                f"max |diff| {float(np.max(np.abs(a-b))):.3e} vs max "
                f"|field| {sc:.3e}; history "
                f"{[(r['freq']['mode'], r['grid'], r['via'], r.get('touch', 'none'), r.get('adopt', False)) for r in spec['requests'][:k+1]]}")
        if got.frequency != ref.frequency or got.sval != ref.sval:
            raise Violation(f"reuse:field_frequency:{tag}",
                            f"{got.frequency!r}/{got.sval!r} vs "
                            f"{ref.frequency!r}/{ref.sval!r}")
        if electric:
            vec = emg3d.get_source_field(
                fg, _reuse_source(emg3d, spec, nodes, 1.0), None)
            s = sval_of(rq['freq'])
            fac = strength*(1.0 if s is None else -s*mu_0)
            exp = np.asarray(vec.field)*fac
            if np.any(np.abs(a - exp) > 1e-12*np.max(np.abs(exp))):
                raise Violation(
                    f"reuse:scaling_mismatch:{tag}",
                    f"field != vector*strength*(-s mu0) at request {k}")
        kept.append((tag, got, a.copy()))
    for tag, fld, snap in kept:
        if not np.array_equal(np.asarray(fld.field), snap):
            raise Violation(
                f"reuse:earlier_result_modified:{spec['kind']}",
                f"the Field returned for '{tag}' was changed by a later "
                f"request on the same source object")
    modes = [r['freq']['mode'] for r in spec['requests']]
    rec.cls(f"kind={spec['kind']}", f"requests={len(modes)}",
            f"strength={strength_kind(spec)}",
            *[f"mode={m}" for m in sorted(set(modes))],
            *[f"grid={g}" for g in sorted({r['grid']
                                           for r in spec['requests']})],
            *[f"via={v}" for v in sorted(vias)],
            *[f"touch={t}" for t in sorted(touches)])
    if any(r.get('adopt') and r['via'] in ('copy', 'dict', 'pickle')
           for r in spec['requests'][:-1]):
        rec.cls('copy_adopted_for_later_requests')
    if any(m != 'freq' for m in modes[:-1]):
        rec.cls('real_valued_request_before_last')
    if len(set(modes)) > 1 or len({r['freq']['f']
                                   for r in spec['requests']}) > 1:
        rec.nt([spec['kind'], spec['grid']['n'], spec['grid']['seed'],
                spec['frac'], spec['requests']])
    rec.note({'kind': spec['kind'], 'shape': list(grid.shape_cells),
              'requests': [(r['freq']['mode'], r['grid'], r['via'])
                           for r in spec['requests']]})


SUBS = {'wire': case_wire, 'point': case_point, 'convert': case_convert,
        'magnetic': case_magnetic, 'magpoint': case_magpoint,
        'reuse': case_reuse}


def run(ctx):
    ctx.regression(SUBS)
    ctx.explore('wire', wire_strategy(), case_wire, ctx.n(2600, 9000))
    ctx.explore('point', point_strategy(), case_point, ctx.n(1200, 5000))
    ctx.explore('convert', convert_strategy(), case_convert,
                ctx.n(1500, 6000))
    ctx.explore('magnetic', magnetic_strategy(), case_magnetic,
                ctx.n(600, 2500))
    ctx.explore('magpoint', magpoint_strategy(), case_magpoint,
                ctx.n(100, 300))
    ctx.explore('reuse', reuse_strategy(), case_reuse, ctx.n(400, 2000))

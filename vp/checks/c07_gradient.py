"""C07 - adjoint-state gradient equals the derivative of the data misfit."""
import os
import shutil
import tempfile
import warnings

import numpy as np
from hypothesis import strategies as st

from vp import gen, simgen
from vp.framework import Violation, Inconclusive

RULE = ("Generated stretched grid (6..10 x 4..8 x 4..8), optionally "
        "translated to UTM-scale coordinates (5e5, 6.2e6, -3e3); "
        "computational grid = model grid (gridding='same', or 'input'/"
        "'dict' with an equal-valued copy of the model grid), linear "
        "receivers; 1..3 sources of mixed type (electric point, "
        "dipole in three coordinate formats, wire; magnetic point, dipole), "
        "1..4 electric/magnetic receivers (absolute and source-relative), "
        "1..3 frequencies in drawn (not ascending) order; sources/receivers/"
        "frequencies given as lists, as dicts with non-alphabetical keys or "
        "as nested lists; six mappings x four anisotropy cases; optional "
        "mu_r/epsilon_r of ones (array or scalar); observed "
        "data = data of a perturbed model with a generated NaN mask; noise "
        "model {scalar, per-source, per-receiver, per-frequency, full} "
        "independently for noise floor and relative error, explicit std, "
        "std together with floor/error (std has priority), given through "
        "the constructor, the setters (also after a reset of a set std) or "
        "the data dict; simulation options {file_dir, explicit "
        "tol_gradient, two workers (thorough tier only)}; history before "
        "the gradient is taken {fresh, compute, misfit, "
        "clean('keepresults'), 'results' and 'computed' round trips, "
        "gradient for other observed data/noise then clean('computed'), "
        "jtvec first, jvec first}; perturbation "
        "direction dense / single cell (interior, or anywhere with faces/"
        "edges/corners forced) / single component / outer cell layer.  "
        "Oracle: central "
        "finite differences (steps 2e-2, 1e-2, 1e-3 and Richardson) of the "
        "misfit of forward data obtained by DIRECT solves of the checker-"
        "assembled operator converge at second order to <gradient, "
        "direction>; for single-cell directions additionally relative to "
        "the gradient entry itself; "
        "misfit equals the checker's own formula; shape per anisotropy case; "
        "finite entries.  Non-trivial = misfit>0, |g|>0, all solves "
        "converged; distinct by the whole spec.")
ASSUMPTIONS = [
    "solver tolerance 1e-11 for forward and adjoint solves; cases where any "
    "solve does not converge are inconclusive",
    "threshold: |FD - g.d| <= 1e-5 ||g|| ||d|| at the best step and a "
    ">=30x decrease from step 1e-2 to 1e-3 when above the floor (measured: "
    "typically 1e-9, worst 7e-7 at the best step over 750 thorough cases, "
    "1.6e-6 over 800 cases with the extended generator; "
    "the smallest effect of a mutant/seeded change was 2.5e-4)",
    "single-cell directions (g.d = g_i d_i, no cancellation): additionally "
    "|FD - g.d| <= 1e-3 |g.d| + 1e-6 ||g|| ||d|| (measured over 250 such "
    "cases: error <= 5e-6 |g.d|, <= 1.5e-7 ||g|| ||d||; the floor term "
    "covers the round-off of the differences, estimated 1e-8..1e-7)",
    "the history 'gradient for other observed data and noise, set the real "
    "data and noise, clean(\"computed\"), gradient' assumes that "
    "clean('computed') removes everything derived from the data (its "
    "docstring: all computed properties); data are changed through "
    "survey.data['observed'][...] and the documented setters",
    "mu_r/epsilon_r equal to one are admitted by the gradient (its test is "
    "allclose(v, 1)); the checker's direct solves use the same mu_r/"
    "epsilon_r (epsilon_r switches the displacement term on)",
    "a set standard deviation has priority over noise floor and relative "
    "error; survey.standard_deviation = None restores them (docstring of "
    "Survey.standard_deviation)",
]
SHARDS = {'quick': 1, 'thorough': 16}
STEPS = [2e-2, 1e-2, 1e-3]

DIRS = ['dense', 'dense', 'cell', 'component', 'cell_any', 'boundary']
CELL_DIRS = ('cell', 'cell_any')
HISTORIES = ['fresh', 'fresh', 'compute', 'misfit', 'keepresults',
             'results_rt', 'copy', 'regrad_newobs', 'jtvec_first',
             'jvec_first']
SIMOPTS = [None, None, None, 'file_dir', 'input_grid', 'dict_grid',
           'tol_gradient']
# two workers cost ~30 s per case (process pools for every compute/
# back-propagation): thorough tier only, with a small weight (C11 owns the
# independence of the worker count)
SIMOPTS_THOROUGH = SIMOPTS*2 + ['workers2']
KEYS = ['auto', 'auto', 'dict', 'nested']
UNITS = [None, None, None, 'mur', 'epsr', 'both', 'scalar']
NOISE_KINDS = ['nf', 're', 'both', 'std', 'std+nf', 'std+both', 'std+nf',
               'std+both']
NOISE_VIA = ['ctor', 'setter', 'setter_reset', 'data_dict']
# translation of grid and survey to UTM-scale coordinates (simgen key 'shift')
SHIFTS = [None, None, [5e5, 6.2e6, -3e3]]

# Flags for single generator branches (rule: a branch on which the unchanged
# tree violates the property is switched off and reported, not allow-listed).
ENABLE_HISTORY = True
ENABLE_SIMOPT = True
ENABLE_KEYS = True
ENABLE_NOISE2 = True
ENABLE_UNIT = True
ENABLE_SHIFT = True
ENABLE_SPARSE_ORACLE = True
# history='keepresults' x simopt='dict_grid': found a defect of emg3d
# (clean('keepresults'|'all') threw the user-provided grids of
# gridding='dict' away; repaired in /repo 1a0a38f, regression replay
# findings/C07/dict_grid_clean.json).  Generated again.
ENABLE_DICT_KEEPRESULTS = True


def noise_spec():
    return st.fixed_dictionaries({
        'kind': st.sampled_from(NOISE_KINDS),
        'nf_shape': st.sampled_from(simgen.NOISE_SHAPES),
        're_shape': st.sampled_from(simgen.NOISE_SHAPES),
        'std_shape': st.sampled_from(simgen.NOISE_SHAPES),
        'via': st.sampled_from(NOISE_VIA),
    })


def spec_strategy(quick=True):
    return st.fixed_dictionaries({
        'problem': st.builds(
            lambda pr, sh: {**pr, 'shift': sh} if ENABLE_SHIFT else pr,
            simgen.problem_spec(), st.sampled_from(SHIFTS)),
        'dir': st.sampled_from(DIRS),
        'dseed': gen.SEED,
        # keys below are read with .get (old replay files do not have them)
        'history': st.sampled_from(HISTORIES),
        'simopt': st.sampled_from(SIMOPTS if quick else SIMOPTS_THOROUGH),
        'keys': st.sampled_from(KEYS),
        'fperm': gen.SEED,
        'unit': st.sampled_from(UNITS),
        'noise': st.one_of(st.none(), noise_spec(), noise_spec()),
    })


def checker_misfit(survey_obs, syn, nf, re, std):
    obs = survey_obs
    if std is None:
        s2 = np.zeros(obs.shape)
        if nf is not None:
            s2 = s2 + np.asarray(nf)**2
        if re is not None:
            s2 = s2 + (np.asarray(re)*np.abs(obs))**2
        std = np.sqrt(s2)
    fin = np.isfinite(obs)
    r = (syn - obs)[fin]
    return 0.5*float(np.sum(np.abs(r)**2/np.asarray(
        np.broadcast_to(std, obs.shape))[fin]**2))


# ------------------------------------------------------------ generators
def _apply_keys(p, spec):
    """Order of the frequencies and container type of sources, receivers
    and frequencies (spec keys 'fperm', 'keys'); in place, before any survey
    is made from `p`.  Old specs: ascending list, plain lists."""
    mode = spec.get('keys') if ENABLE_KEYS else None
    if mode is None:
        return 'auto', False
    perm = gen.rng_of(spec.get('fperm', 0), 87).permutation(len(p.freqs))
    p.freqs = [p.freqs[int(i)] for i in perm]
    ascending = all(a < b for a, b in zip(p.freqs[:-1], p.freqs[1:]))
    if mode == 'dict':
        # arbitrary names whose alphabetical order differs from the order of
        # insertion (and, for the frequencies, from the order of the values)
        fn = ['zz', 'a', 'm-3']
        sn = ['TxZ', 'TxA', 'TxM', 'Tx0']
        rn = ['RxZ', 'RxB', 'Rx-1', 'RxA', 'Rx9', 'RxC']
        p.freqs = {fn[i]: f for i, f in enumerate(p.freqs)}
        p.sources = {sn[i]: s for i, s in enumerate(p.sources)}
        p.receivers = {rn[i]: r for i, r in enumerate(p.receivers)}
    elif mode == 'nested':
        s, r = list(p.sources), list(p.receivers)
        p.sources = [s[0], s[1:]] if len(s) > 1 else [s]
        if len(r) > 2:
            p.receivers = [[r[0]], {'x': r[1], 'a': r[2]}, *r[3:]]
        elif len(r) == 2:
            p.receivers = [[r[0]], r[1]]
        else:
            p.receivers = [r]
    return mode, not ascending


def _apply_unit(p, spec):
    """Model with mu_r and/or epsilon_r equal to one (spec key 'unit')."""
    import emg3d
    u = spec.get('unit') if ENABLE_UNIT else None
    if u is None:
        return None
    shape = tuple(p.grid.shape_cells)
    names, arrs = simgen.param_arrays(p)
    mur = {'mur': np.ones(shape), 'both': np.ones(shape),
           'scalar': 1.0}.get(u)
    epsr = {'epsr': np.ones(shape), 'both': np.ones(shape),
            'scalar': 1.0}.get(u)
    p.model = emg3d.Model(p.grid, mapping=p.mapping, mu_r=mur,
                          epsilon_r=epsr, **dict(zip(names, arrs)))
    return u


def _noise(p, obs, spec):
    """(noise_floor, relative_error, std given to the survey, via, labels).
    Old specs (no 'noise'): simgen.noise_args, constructor."""
    ns_ = spec.get('noise') if ENABLE_NOISE2 else None
    ps = spec['problem']
    if ns_ is None:
        kw, std = simgen.noise_args(p, obs)
        return (kw.get('noise_floor'), kw.get('relative_error'), std, 'ctor',
                (ps['noise_kind'], ps['noise_shape'], ps['noise_shape']))
    rng = gen.rng_of(ps['seed'], 85)
    ns, nr, nf = p.shape
    shapes = {'scalar': None, 'src': (ns, 1, 1), 'rec': (1, nr, 1),
              'freq': (1, 1, nf), 'full': (ns, nr, nf)}
    amp = float(np.nanmedian(np.abs(obs))) if np.any(np.isfinite(obs)) \
        else 1.0
    if not np.isfinite(amp) or amp == 0:
        amp = 1.0

    def draw(base, shape):
        shp = shapes[shape]
        if shp is None:
            return float(base*rng.uniform(0.5, 2))
        return base*rng.uniform(0.5, 2, size=shp)
    kind = ns_['kind']
    nfl = rel = std = None
    if kind in ('nf', 'both', 'std+nf', 'std+both'):
        nfl = draw(0.05*amp, ns_['nf_shape'])
    if kind in ('re', 'both', 'std+both'):
        rel = draw(0.05, ns_['re_shape'])
    if kind.startswith('std'):
        std = np.broadcast_to(draw(0.1*amp, ns_['std_shape']), p.shape).copy()
    return nfl, rel, std, ns_['via'], (kind, ns_['nf_shape'], ns_['re_shape'])


def _make_survey(p, obs, nfl, rel, std, via):
    """Survey with the noise model given in one of the documented ways."""
    import emg3d
    data = obs.copy()
    if via == 'data_dict' and std is not None:
        data = {'observed': obs.copy(), 'standard_deviation': std.copy()}
    kw = {}
    if via in ('ctor', 'data_dict'):
        if nfl is not None:
            kw['noise_floor'] = nfl
        if rel is not None:
            kw['relative_error'] = rel
    sv = emg3d.Survey(p.sources, p.receivers, p.freqs, data=data, **kw)
    if via in ('setter', 'setter_reset'):
        if via == 'setter_reset' and std is None:
            # a directly set standard deviation is removed again: the noise
            # floor / relative error apply (documented reset)
            sv.standard_deviation = np.full(p.shape, 7.0*np.nanmax(
                np.abs(obs)))
            sv.standard_deviation = None
        if nfl is not None:
            sv.noise_floor = nfl
        if rel is not None:
            sv.relative_error = rel
    if std is not None and not isinstance(data, dict):
        sv.standard_deviation = std
    return sv


def _tmpdir():
    base = os.path.join(os.path.dirname(os.path.dirname(os.path.dirname(
        os.path.abspath(__file__)))), '.cache', 'tmp')
    os.makedirs(base, exist_ok=True)
    return tempfile.mkdtemp(prefix='c07_', dir=base)


def _sim_kwargs(p, survey, simopt, tmp):
    """Simulation options of spec key 'simopt' (old specs: none)."""
    import emg3d
    kw = {}
    if simopt == 'workers2':
        kw['max_workers'] = 2
    elif simopt == 'file_dir':
        tmp.append(_tmpdir())
        kw['file_dir'] = tmp[-1]
    elif simopt == 'input_grid':
        kw['gridding'] = 'input'
        kw['gridding_opts'] = emg3d.TensorMesh(
            [np.array(h, float) for h in p.grid.h],
            origin=np.array(p.grid.origin, float))
    elif simopt == 'dict_grid':
        kw['gridding'] = 'dict'
        kw['gridding_opts'] = {
            s: {f: emg3d.TensorMesh([np.array(h, float) for h in p.grid.h],
                                    origin=np.array(p.grid.origin, float))
                for f in survey.frequencies} for s in survey.sources}
    elif simopt == 'tol_gradient':
        so = dict(simgen.SOLVER)
        so['tol_gradient'] = 5e-12
        kw['solver_opts'] = so
    return kw


def _direction(p, kind, seed):
    """simgen.direction plus 'cell_any' (a single cell anywhere, half of
    them forced onto a face/edge/corner of the grid) and 'boundary' (dense
    on the outermost cell layer only)."""
    if kind in ('dense', 'cell', 'component'):
        return simgen.direction(p, kind, seed)
    rng = gen.rng_of(seed, 84)
    names, arrs = simgen.param_arrays(p)
    ncomp = len(names)
    shape = tuple(int(n) for n in p.grid.shape_cells)
    d = np.zeros((ncomp,)+shape)
    if kind == 'cell_any':
        idx = [int(rng.integers(0, n)) for n in shape]
        if rng.random() < 0.5:
            nforce = int(rng.integers(1, 4))     # face / edge / corner
            for ax in rng.permutation(3)[:nforce]:
                idx[int(ax)] = int(rng.choice([0, shape[int(ax)]-1]))
        d[(int(rng.integers(0, ncomp)),)+tuple(idx)] = 1.0
    elif kind == 'boundary':
        outer = np.ones(shape, bool)
        outer[1:-1, 1:-1, 1:-1] = False
        d[:] = np.clip(rng.standard_normal(d.shape), -3, 3)*outer
    else:
        raise ValueError(kind)
    if not p.mapping.startswith('L'):
        for i, a in enumerate(arrs):
            d[i] *= np.abs(a)
    return d


def _direct_data(p, sim, direction=None, eps=0.0):
    """simgen.direct_data with the model's mu_r/epsilon_r (None for all old
    specs, for which this is identical to simgen.direct_data)."""
    mur, epsr = p.model.mu_r, p.model.epsilon_r
    if mur is None and epsr is None:
        return simgen.direct_data(p, sim, direction, eps)
    import emg3d
    import scipy.sparse.linalg as spla
    from vp import refop
    names, arrs = simgen.param_arrays(p)
    conds = {}
    for i, (n, a) in enumerate(zip(names, arrs)):
        a = a if direction is None else a + eps*direction[i]
        conds[n] = gen.map_backward(p.mapping, a)
    sx = conds['property_x']
    sy = conds.get('property_y', sx)
    sz = conds.get('property_z', sx)
    h = [p.grid.h[0], p.grid.h[1], p.grid.h[2]]
    shape = tuple(int(n) for n in p.grid.shape_cells)
    mur = None if mur is None else np.array(mur, float).reshape(shape)
    epsr = None if epsr is None else np.array(epsr, float).reshape(shape)
    ii = np.flatnonzero(refop.interior_mask(*shape))
    out = np.full(p.shape, np.nan+1j*np.nan)
    lus = {}
    for i, (sn, src) in enumerate(sim.survey.sources.items()):
        for k, (fn, f) in enumerate(sim.survey.frequencies.items()):
            if fn not in lus:
                A, *_ = refop.assemble(*h, sx, sy, sz, mur, epsr, 2j*np.pi*f)
                lus[fn] = spla.splu(A[ii][:, ii].tocsc())
            sf = emg3d.get_source_field(p.grid, src, f)
            e = emg3d.Field(p.grid, frequency=f)
            e.field[ii] = lus[fn].solve(sf.field[ii])
            out[i, :, k] = sim._get_responses(sn, fn, e)
    return out


def _data_converged(p, sim, rtol=1e-6):
    a = sim.data.synthetic.data
    b = _direct_data(p, sim)
    m = np.isfinite(a) & np.isfinite(b)
    if not m.any():
        return True
    return bool(np.all(np.abs(a-b)[m] <= rtol*np.abs(b)[m]))


def _with_history(spec, p, obs, noise, mk_sim):
    """Simulation on which the gradient is taken, after the drawn history
    (spec key 'history'; old specs: 'fresh')."""
    import emg3d
    nfl, rel, std, via = noise
    hist = spec.get('history') if ENABLE_HISTORY else None
    hist = hist or 'fresh'
    if hist == 'keepresults' and spec.get('simopt') == 'dict_grid' and \
            not ENABLE_DICT_KEEPRESULTS:
        hist = 'misfit'
    if hist == 'regrad_newobs':
        # gradient for other observed data and another noise model first
        # (one more datum missing, so that the real data set has a datum
        # where the first one had none)
        obs0 = obs*(1.1-0.2j)
        fin = np.flatnonzero(np.isfinite(obs0))
        if fin.size > 1:
            obs0.flat[fin[-1]] = np.nan
        sim = mk_sim(_make_survey(
            p, obs0, None if nfl is None else 3.0*nfl,
            None if rel is None else 0.5*rel,
            None if std is None else 2.0*std, via))
        _ = sim.gradient
        sim.survey.data['observed'][...] = obs
        if nfl is not None:
            sim.survey.noise_floor = nfl
        if rel is not None:
            sim.survey.relative_error = rel
        if std is not None:
            sim.survey.standard_deviation = std
        sim.clean('computed')
        return sim, hist
    sim = mk_sim(_make_survey(p, obs, nfl, rel, std, via))
    if hist == 'compute':
        sim.compute()
    elif hist == 'misfit':
        _ = sim.misfit
    elif hist == 'keepresults':
        _ = sim.misfit
        sim.clean('keepresults')
    elif hist == 'results_rt':
        _ = sim.misfit
        sim = emg3d.Simulation.from_dict(sim.to_dict('results', copy=True))
    elif hist == 'copy':
        sim.compute()
        sim = sim.copy()
    elif hist == 'jtvec_first':
        _ = sim.misfit
        rng = gen.rng_of(spec['dseed'], 86)
        amp = np.nanmax(np.abs(obs))
        vec = amp*(rng.standard_normal(p.shape) +
                   1j*rng.standard_normal(p.shape))*sim.data.weights.data
        sim.jtvec(vec)
    elif hist == 'jvec_first':
        v = _direction(p, 'dense', spec['dseed'])
        sim.jvec(v[0] if v.shape[0] == 1 else v)
    return sim, hist


def case_gradient(spec, rec):
    tmp = []
    try:
        with warnings.catch_warnings():
            warnings.simplefilter('ignore')
            return _case_gradient(spec, rec, tmp)
    finally:
        for d in tmp:
            shutil.rmtree(d, ignore_errors=True)


def _case_gradient(spec, rec, tmp):
    p = simgen.build(spec['problem'])
    keys, unsorted = _apply_keys(p, spec)
    unit = _apply_unit(p, spec)
    obs = simgen.observed_from_true(p)
    if obs is None:
        raise Inconclusive("true-model solve did not converge")
    nfl, rel, std, via, nlab = _noise(p, obs, spec)
    simopt = spec.get('simopt') if ENABLE_SIMOPT else None
    if simopt == 'workers2' and p.shape[0]*p.shape[2] < 2:
        simopt = None

    def mk_sim(sv):
        return simgen.make_sim(p, sv, None, **_sim_kwargs(p, sv, simopt, tmp))

    sim, hist = _with_history(spec, p, obs, (nfl, rel, std, via), mk_sim)
    g = np.array(sim.gradient, float)
    phi = float(sim.misfit)
    if not (simgen.all_converged(sim) and
            simgen.all_converged(sim, 'bfield')):
        raise Inconclusive("forward/adjoint solve did not converge")
    if not _data_converged(p, sim):
        raise Inconclusive("responses below the accuracy of the solver")
    ncomp = {'isotropic': 1, 'HTI': 2, 'VTI': 2, 'triaxial': 3}[p.case]
    shape = tuple(int(n) for n in p.grid.shape_cells)
    exp_shape = shape if ncomp == 1 else (ncomp,)+shape
    if g.shape != exp_shape:
        raise Violation(f"gradient_shape:{p.case}",
                        f"{g.shape} vs {exp_shape}")
    if not np.all(np.isfinite(g)):
        raise Violation("gradient_not_finite", f"NaN/inf in gradient "
                        f"(history {hist}, option {simopt})")
    # reported misfit vs the checker's formula
    syn = sim.data.synthetic.data
    ref = checker_misfit(obs, syn, nfl, rel, std)
    if abs(phi-ref) > 1e-10*abs(ref):
        raise Violation(f"misfit_formula:{nlab[0]}:{nlab[1]}",
                        f"misfit {phi!r} vs checker {ref!r}; noise {nlab} "
                        f"given via {via}; history {hist}; option {simopt}")
    g = g.reshape((ncomp,)+shape)
    d = _direction(p, spec['dir'], spec['dseed'])
    gd = float(np.sum(g*d))
    scale = float(np.linalg.norm(g)*np.linalg.norm(d))
    if phi == 0 or scale == 0:
        rec.cls('trivial_zero_misfit_or_gradient')
        return
    # Central differences of the misfit; the forward data of the perturbed
    # models come from direct solves of the checker-assembled operator
    # (simgen.direct_data), the misfit from the checker's own formula.
    def phi_of(eps):
        syn_d = _direct_data(p, sim, d, eps)
        return checker_misfit(obs, syn_d, nfl, rel, std)
    fds = [(phi_of(eps)-phi_of(-eps))/(2*eps) for eps in STEPS]
    fds.append((4*fds[1]-fds[0])/3)      # Richardson of the first two
    aerr = [abs(fd-gd) for fd in fds]
    errs = [e/scale for e in aerr]
    best = min(errs)
    srck = '+'.join(sorted(set(spec['problem']['src'])))
    sig = f"{p.mapping}:{p.case}"
    info = (f"for steps {STEPS}; g.d={gd:.6e}, |g||d|={scale:.3e}, "
            f"misfit={phi:.6e}; sources {srck}; receivers "
            f"{spec['problem']['rec']}; noise {nlab} via {via}; history "
            f"{hist}; option {simopt}; keys {keys}; unit {unit}; shift "
            f"{spec['problem'].get('shift')}")
    if best > 1e-5:
        raise Violation(
            f"gradient_not_derivative:{sig}",
            f"|FD-g.d|/(|g||d|) = {['%.2e' % e for e in errs]} {info}")
    if errs[0] > 1e-4 and errs[1] > errs[0]/3 + 3*best:
        raise Violation(f"gradient_not_second_order:{sig}",
                        f"errors {errs} for steps {STEPS} + Richardson")
    # A single-cell direction has g.d = g_i d_i (no cancellation): the error
    # is also demanded relative to that entry, above a round-off floor.
    if ENABLE_SPARSE_ORACLE and spec['dir'] in CELL_DIRS and \
            'history' in spec and min(aerr) > 1e-3*abs(gd) + 1e-6*scale:
        raise Violation(
            f"gradient_not_derivative_cell:{sig}",
            f"|FD-g.d|/|g.d| = {['%.2e' % (e/max(abs(gd), 1e-300)) for e in aerr]}, "
            f"/(|g||d|) = {['%.2e' % e for e in errs]} {info}")
    rec.cls(f"mapping={p.mapping}", f"case={p.case}", f"dir={spec['dir']}",
            f"noise={nlab[0]}", f"noise_shape={nlab[1]}",
            f"re_shape={nlab[2]}", f"noise_via={via}",
            f"nan={spec['problem']['nan_frac'] > 0}",
            f"nan_mode={spec['problem'].get('nan_mode')}",
            f"relative_rec={any(p.rec_relative)}",
            *[f"src={k}" for k in set(spec['problem']['src'])],
            *[f"rec={k}" for k in set(spec['problem']['rec'])],
            f"nsrc={p.shape[0]}", f"nfreq={p.shape[2]}",
            f"history={hist}", f"simopt={simopt}", f"keys={keys}",
            f"utm_shift={spec['problem'].get('shift') is not None}",
            f"freq_unsorted={unsorted}", f"unit={unit}")
    rec.nt(spec)
    rec.note({'shape': list(shape), 'mapping': p.mapping, 'case': p.case,
              'errs': errs, 'rel_gd': min(aerr)/abs(gd) if gd else None,
              'misfit': phi, 'sources': spec['problem']['src'],
              'receivers': spec['problem']['rec']})


def case_explicit(spec, rec):
    """Explicit problem (no generator involved): used for regression replays
    so that they do not depend on the builders in simgen."""
    import emg3d
    with warnings.catch_warnings():
        warnings.simplefilter('ignore')
        h = [np.diff(np.array(x, float)) for x in spec['nodes']]
        grid = emg3d.TensorMesh(h, origin=[x[0] for x in spec['nodes']])
        rng = gen.rng_of(spec['seed'], 1)
        cond = spec['cond']*10**rng.uniform(-.3, .3, size=grid.shape_cells)
        srcs = [getattr(emg3d, c)(coo) for c, coo in spec['sources']]
        recs = [getattr(emg3d, c)(coo) for c, coo in spec['receivers']]

        def sim_for(model, obs=None):
            sv = emg3d.Survey(srcs, recs, spec['freqs'], data=obs,
                              noise_floor=spec['noise_floor'])
            return emg3d.Simulation(
                sv, model, gridding='same', max_workers=1,
                receiver_interpolation='linear', tqdm_opts=False,
                solver_opts=dict(simgen.SOLVER))
        true = sim_for(emg3d.Model(grid, cond*1.3, mapping='Conductivity'))
        true.compute(observed=True, add_noise=False)
        obs = true.survey.data.observed.data.copy()
        sim = sim_for(emg3d.Model(grid, cond, mapping='Conductivity'), obs)
        g = np.array(sim.gradient)
        d = cond*np.clip(rng.standard_normal(cond.shape), -3, 3)
        gd = float(np.sum(g*d))
        scale = float(np.linalg.norm(g)*np.linalg.norm(d))
        errs = []
        for eps in STEPS:
            ms = [float(sim_for(emg3d.Model(grid, cond+sg*eps*d,
                                            mapping='Conductivity'),
                                obs).misfit) for sg in (1, -1)]
            errs.append(abs((ms[0]-ms[1])/(2*eps)-gd)/scale)
    if min(errs) > 1e-6:
        raise Violation(f"gradient_not_derivative:explicit:{spec['name']}",
                        f"|FD-g.d|/(|g||d|) = {errs} for steps {STEPS}")
    rec.nt(spec)


SUBS = {'gradient': case_gradient, 'explicit': case_explicit}


def run(ctx):
    ctx.regression(SUBS)
    ctx.explore('gradient', spec_strategy(ctx.quick), case_gradient,
                ctx.n(40, 60),
                shrink=not ctx.quick)

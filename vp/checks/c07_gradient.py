"""C07 - adjoint-state gradient equals the derivative of the data misfit."""
import warnings

import numpy as np
from hypothesis import strategies as st

from vp import gen, simgen
from vp.framework import Violation, Inconclusive

RULE = ("Generated stretched grid (6..10 x 4..8 x 4..8), gridding='same', "
        "linear receivers; 1..3 sources of mixed type (electric point, "
        "dipole in three coordinate formats, wire; magnetic point, dipole), "
        "1..4 electric/magnetic receivers (absolute and source-relative), "
        "1..3 frequencies; six mappings x four anisotropy cases; observed "
        "data = data of a perturbed model with a generated NaN mask; noise "
        "model {scalar, per-source, per-receiver, per-frequency, full} x "
        "{noise floor, relative error, both, explicit std}; perturbation "
        "direction dense / single cell / single component.  Oracle: central "
        "finite differences (steps 2e-2, 1e-2, 1e-3 and Richardson) of the "
        "misfit of forward data obtained by DIRECT solves of the checker-"
        "assembled operator converge at second order to <gradient, "
        "direction>; "
        "misfit equals the checker's own formula; shape per anisotropy case; "
        "finite entries.  Non-trivial = misfit>0, |g|>0, all solves "
        "converged; distinct by the whole spec.")
ASSUMPTIONS = [
    "solver tolerance 1e-11 for forward and adjoint solves; cases where any "
    "solve does not converge are inconclusive",
    "threshold: |FD - g.d| <= 1e-5 ||g|| ||d|| at the best step and a "
    ">=30x decrease from step 1e-2 to 1e-3 when above the floor (measured: "
    "typically 1e-9, worst 7e-7 at the best step over 750 thorough cases; "
    "the smallest effect of a mutant/seeded change was 2.5e-4)",
]
SHARDS = {'quick': 1, 'thorough': 16}
STEPS = [2e-2, 1e-2, 1e-3]


def spec_strategy():
    return st.fixed_dictionaries({
        'problem': simgen.problem_spec(),
        'dir': st.sampled_from(['dense', 'dense', 'cell', 'component']),
        'dseed': gen.SEED,
    })


def checker_misfit(survey_obs, syn, nf, re, std):
    obs = survey_obs
    if std is None:
        s2 = np.zeros(obs.shape)
        if nf is not None:
            s2 = s2 + np.asarray(nf)**2
        if re is not None:
            s2 = s2 + (np.asarray(re)*np.abs(obs))**2
        std = np.sqrt(s2)
    fin = np.isfinite(obs)
    r = (syn - obs)[fin]
    return 0.5*float(np.sum(np.abs(r)**2/np.asarray(
        np.broadcast_to(std, obs.shape))[fin]**2))


def case_gradient(spec, rec):
    with warnings.catch_warnings():
        warnings.simplefilter('ignore')
        return _case_gradient(spec, rec)


def _case_gradient(spec, rec):
    p = simgen.build(spec['problem'])
    obs = simgen.observed_from_true(p)
    if obs is None:
        raise Inconclusive("true-model solve did not converge")
    kw, std = simgen.noise_args(p, obs)

    def fresh(model=None):
        sv = simgen.make_survey(p, obs)
        return simgen.make_sim(p, sv, model)

    sim = fresh()
    g = np.array(sim.gradient, float)
    phi = float(sim.misfit)
    if not (simgen.all_converged(sim) and
            simgen.all_converged(sim, 'bfield')):
        raise Inconclusive("forward/adjoint solve did not converge")
    if not simgen.data_converged(p, sim):
        raise Inconclusive("responses below the accuracy of the solver")
    ncomp = {'isotropic': 1, 'HTI': 2, 'VTI': 2, 'triaxial': 3}[p.case]
    shape = tuple(int(n) for n in p.grid.shape_cells)
    exp_shape = shape if ncomp == 1 else (ncomp,)+shape
    if g.shape != exp_shape:
        raise Violation(f"gradient_shape:{p.case}",
                        f"{g.shape} vs {exp_shape}")
    if not np.all(np.isfinite(g)):
        raise Violation("gradient_not_finite", "NaN/inf in gradient")
    # reported misfit vs the checker's formula
    syn = sim.data.synthetic.data
    ref = checker_misfit(obs, syn, kw.get('noise_floor'),
                         kw.get('relative_error'), std)
    if abs(phi-ref) > 1e-10*abs(ref):
        raise Violation(f"misfit_formula:{spec['problem']['noise_kind']}:"
                        f"{spec['problem']['noise_shape']}",
                        f"misfit {phi!r} vs checker {ref!r}")
    g = g.reshape((ncomp,)+shape)
    d = simgen.direction(p, spec['dir'], spec['dseed'])
    gd = float(np.sum(g*d))
    scale = float(np.linalg.norm(g)*np.linalg.norm(d))
    if phi == 0 or scale == 0:
        rec.cls('trivial_zero_misfit_or_gradient')
        return
    # Central differences of the misfit; the forward data of the perturbed
    # models come from direct solves of the checker-assembled operator
    # (simgen.direct_data), the misfit from the checker's own formula.
    def phi_of(eps):
        syn_d = simgen.direct_data(p, sim, d, eps)
        return checker_misfit(obs, syn_d, kw.get('noise_floor'),
                              kw.get('relative_error'), std)
    fds = [(phi_of(eps)-phi_of(-eps))/(2*eps) for eps in STEPS]
    fds.append((4*fds[1]-fds[0])/3)      # Richardson of the first two
    errs = [abs(fd-gd)/scale for fd in fds]
    best = min(errs)
    srck = '+'.join(sorted(set(spec['problem']['src'])))
    sig = f"{p.mapping}:{p.case}"
    if best > 1e-5:
        raise Violation(
            f"gradient_not_derivative:{sig}",
            f"|FD-g.d|/(|g||d|) = {['%.2e' % e for e in errs]} for steps "
            f"{STEPS}; g.d={gd:.6e}, |g||d|={scale:.3e}, misfit={phi:.6e}; "
            f"sources {srck}; receivers {spec['problem']['rec']}; "
            f"noise {spec['problem']['noise_kind']}/"
            f"{spec['problem']['noise_shape']}")
    if errs[0] > 1e-4 and errs[1] > errs[0]/3 + 3*best:
        raise Violation(f"gradient_not_second_order:{sig}",
                        f"errors {errs} for steps {STEPS} + Richardson")
    rec.cls(f"mapping={p.mapping}", f"case={p.case}", f"dir={spec['dir']}",
            f"noise={spec['problem']['noise_kind']}",
            f"noise_shape={spec['problem']['noise_shape']}",
            f"nan={spec['problem']['nan_frac'] > 0}",
            f"nan_mode={spec['problem'].get('nan_mode')}",
            f"relative_rec={any(p.rec_relative)}",
            *[f"src={k}" for k in set(spec['problem']['src'])],
            *[f"rec={k}" for k in set(spec['problem']['rec'])],
            f"nsrc={p.shape[0]}", f"nfreq={p.shape[2]}")
    rec.nt(spec)
    rec.note({'shape': list(shape), 'mapping': p.mapping, 'case': p.case,
              'errs': errs, 'misfit': phi, 'sources': spec['problem']['src'],
              'receivers': spec['problem']['rec']})


def case_explicit(spec, rec):
    """Explicit problem (no generator involved): used for regression replays
    so that they do not depend on the builders in simgen."""
    import emg3d
    with warnings.catch_warnings():
        warnings.simplefilter('ignore')
        h = [np.diff(np.array(x, float)) for x in spec['nodes']]
        grid = emg3d.TensorMesh(h, origin=[x[0] for x in spec['nodes']])
        rng = gen.rng_of(spec['seed'], 1)
        cond = spec['cond']*10**rng.uniform(-.3, .3, size=grid.shape_cells)
        srcs = [getattr(emg3d, c)(coo) for c, coo in spec['sources']]
        recs = [getattr(emg3d, c)(coo) for c, coo in spec['receivers']]

        def sim_for(model, obs=None):
            sv = emg3d.Survey(srcs, recs, spec['freqs'], data=obs,
                              noise_floor=spec['noise_floor'])
            return emg3d.Simulation(
                sv, model, gridding='same', max_workers=1,
                receiver_interpolation='linear', tqdm_opts=False,
                solver_opts=dict(simgen.SOLVER))
        true = sim_for(emg3d.Model(grid, cond*1.3, mapping='Conductivity'))
        true.compute(observed=True, add_noise=False)
        obs = true.survey.data.observed.data.copy()
        sim = sim_for(emg3d.Model(grid, cond, mapping='Conductivity'), obs)
        g = np.array(sim.gradient)
        d = cond*np.clip(rng.standard_normal(cond.shape), -3, 3)
        gd = float(np.sum(g*d))
        scale = float(np.linalg.norm(g)*np.linalg.norm(d))
        errs = []
        for eps in STEPS:
            ms = [float(sim_for(emg3d.Model(grid, cond+sg*eps*d,
                                            mapping='Conductivity'),
                                obs).misfit) for sg in (1, -1)]
            errs.append(abs((ms[0]-ms[1])/(2*eps)-gd)/scale)
    if min(errs) > 1e-6:
        raise Violation(f"gradient_not_derivative:explicit:{spec['name']}",
                        f"|FD-g.d|/(|g||d|) = {errs} for steps {STEPS}")
    rec.nt(spec)


SUBS = {'gradient': case_gradient, 'explicit': case_explicit}


def run(ctx):
    ctx.regression(SUBS)
    ctx.explore('gradient', spec_strategy(), case_gradient, ctx.n(40, 60),
                shrink=not ctx.quick)

"""C09 - receiver sampling <-> point sources are exact transposes; reciprocity.

Sub-checks
----------
electric     get_receiver(field, coo, 'linear') on an edge field against
             (a) <field, v>, v = get_source_field(grid, TxElectricPoint(coo)
             [obtained through Rx._adjoint_source], frequency=None) and
             (b) the checker's own trilinear weights times its own rotation
             factors.  Tolerance 1e4*eps*sum|f||v| plus, for components whose
             rotation factor is <= 1e-10 (get_receiver skips those by design),
             exactly the magnitude of the skipped term.
magnetic     get_receiver(get_magnetic_field(model, e), coo, 'linear') against
             (a) <e, C^T D P^T rot>/(s mu0) with the checker's curl C
             (refop.curl), D = two-cell volume average of 1/mu_r on interior
             faces (what _edge_curl_factor applies; zero on boundary faces) and
             own face interpolation P; for every mu_r; and
             (b) -<e, get_source_field(grid, TxMagneticPoint(coo), f)>/(s mu0)
             for mu_r = 1 and, divided by c, for a constant mu_r = c.  For
             heterogeneous mu_r only (a) is a statement of the code under test
             (TxMagneticPoint is documented as "not implemented for magnetic
             permeability"), so (b) is not demanded there.
nan          NaN exactly for positions with a coordinate < second node or
             > second-last node (outermost cells, boundary, outside), a number
             (== own weights for 'linear') everywhere else, including exactly
             on the second / second-last node and one ulp on either side;
             several receivers in one call; electric and magnetic fields;
             'linear' and (pattern only) 'cubic'.
reciprocity  two emg3d.solve runs with point source and point receiver
             exchanged (electric-electric, magnetic-magnetic).  See
             `case_reciprocity` for the derivation of the two tests.

Input dimensions added after the blind-spot audit (all drawn in the spec; a
spec without the key behaves as before; each has an ENABLE_* switch):
field amplitude 10^[-30,30] and the all-zero field; float32/complex64 fields;
UTM-like coordinates; receiver tuples mixing scalars and arrays, length-1
arrays / lists, integer-typed numbers; get_magnetic_field called twice and
with Model.mu_r re-assigned in between; source strength (real, negative,
complex) and the Source.get_field route; the source vector with the other
frequency argument (electric: f and Laplace, magnetic: None); point sources
in the outermost cells; default interpolation method.  The checker's own
functional is computed from copies taken before emg3d runs, and all inputs
(field, model, grid) must be bitwise unchanged afterwards.
"""
import contextlib
import io
import warnings

import numpy as np
from hypothesis import strategies as st
from scipy.constants import mu_0

from vp import gen, refop
from vp.framework import HarnessError, Inconclusive, Violation

RULE = ("Stretched/random/uniform grids with 3..8 cells per direction; "
        "1..3 receivers per call, each coordinate drawn per axis from "
        "{any admissible node, second node, second-last node, one ulp inside "
        "of a node, cell centre, uniform in [second node, second-last node], "
        "uniform between the second and second-last cell centre}; azimuth in "
        "(-180,180] and elevation in [-90,90] from {axis-aligned, diagonal, "
        "uniform, axis +- 10^u degrees with u in [-12,0] (both sides of the "
        "1e-10 factor threshold)}; real or complex edge fields (dense normal, "
        "entries spread over 8 decades, single basis vector in/next to the "
        "support), with and without zero PEC boundary values; receivers passed "
        "as coordinate tuples/arrays or Rx instances/lists.  Magnetic: same, "
        "plus model with mu_r in {none, constant, heterogeneous}, frequency "
        "or Laplace.  NaN: per axis additionally {one ulp outside the second/"
        "second-last node, inside an outermost cell, exactly on the boundary, "
        "outside the grid up to 10 domain lengths}.  Reciprocity: generated "
        "heterogeneous (an)isotropic models, two interior points with any "
        "orientation, solver configuration and tolerance drawn.  "
        "Non-trivial: transposition = a finite value is expected, the field "
        "is non-zero on the support of the sampling functional and the grid "
        "is non-uniform or the orientation not axis-aligned; nan = at least "
        "one receiver in the NaN region; reciprocity = both solves report "
        "success, the points/orientations differ and the derived bound is "
        "below 1e-2*|response|.  Distinct by (grid seed, shape, point specs, "
        "field seed).  "
        "Added dimensions (transposition and nan sub-checks): field amplitude "
        "10^u, u in {0, [-30,30]} and the all-zero field (must sample to "
        "exactly 0); float32/complex64 fields (electric); x/y origin shifted "
        "by {0, 5e5, 6.5e6} (UTM-like); integer-valued positions passed as "
        "int; receiver argument in {scalar tuple, tuple of arrays (also of "
        "length 1), tuple with scalar y,z and/or scalar angles and array x, "
        "Rx, list of Rx (also of length 1)}; magnetic: get_magnetic_field "
        "called {once, twice (bitwise equal), again after model.mu_r = new "
        "values}; source strength in {1, -1, +-10^[-6,6], complex (frequency "
        "domain)} through get_source_field and Source.get_field; source "
        "vector with frequency None and with f / Laplace s; nan: point "
        "sources at the NaN positions inside the grid (finite, components "
        "sum to the rotation factors), method omitted (default).")
ASSUMPTIONS = [
    "TensorMesh.nodes_* / cell_centers_* (discretize) are the grid geometry; "
    "the checker's interpolation weights are computed from them with its own "
    "1D hat-function code",
    "rotation factors of the checker: (cos az cos el, sin az cos el, sin el) "
    "evaluated with numpy in radians",
    "reference curl / operator vp/refop.py (validated against emg3d.core by "
    "C02); shares no code with emg3d",
    "tolerance 1e4*eps relative to the sum of absolute terms of the sampled "
    "functional; components whose rotation factor is <= 1e-10 may be missing "
    "from get_receiver (documented in its source) and are allowed for with "
    "their own magnitude, nothing else",
    "magnetic receivers with heterogeneous mu_r: only the checker-side "
    "expression (with the face-averaged 1/mu_r the code applies) is demanded; "
    "the identity with get_source_field(TxMagneticPoint) is demanded for "
    "mu_r = 1 and (scaled by 1/c) constant mu_r = c, because the magnetic "
    "point source is documented as not implemented for permeability",
    "reciprocity (b) uses the solver's reported success and tolerance; that "
    "success certifies ||s - A e|| <= tol ||s|| is property C01",
    "the code under test must not modify its inputs: field, model "
    "properties and grid.cell_volumes are compared bitwise with copies taken "
    "before the calls, and the checker's own functional uses those copies",
    "single-precision fields (dtype taken from the data when no frequency is "
    "given): tolerance 1e3*eps(float32) relative to the sum of absolute "
    "terms; amplitudes kept within 1e-24..1e24",
    "source strength: get_source_field(Tx(coo, c)) = c * get_source_field("
    "Tx(coo, 1)) elementwise to 16 eps (+ underflow floor), and "
    "Tx.get_field(grid, f) bitwise equal to get_source_field(grid, Tx, f); "
    "complex strength only where the source field is complex (frequency "
    "domain, or magnetic vector without frequency): emg3d raises a casting "
    "error otherwise",
    "mixed tuples keep azimuth and elevation both scalar or both arrays "
    "(electrodes.rotation does not accept one of each); Python lists of "
    "coordinates are not generated (read as points, not as the tuple form)",
    "the frequency-dependent electric source vector is divided by -s mu0 "
    "(docstring of get_source_field) before comparison; 16 eps extra",
    "point sources in the outermost cells: only existence, finiteness and "
    "the component sums (partition of unity) are demanded, not the weights",
]
SHARDS = {'quick': 1, 'thorough': 16}

EPS = np.finfo(float).eps
C_EPS = 1e4*EPS
C_EPS32 = 1e3*float(np.finfo(np.float32).eps)   # single-precision fields
# factor threshold of get_receiver (+ slack: the checker evaluates the factors
# with numpy in radians, emg3d with scipy's cosdg/sindg; the two may disagree
# by rounding on which side of 1e-10 a factor lies)
DROP = 1e-10*(1 + 1e-3)
COUNTS = [3, 4, 5, 6, 7, 8, 3, 5]

# New input dimensions (each can be switched off on its own; specs that lack
# the corresponding key behave as before).
ENABLE_AMPLITUDE = True      # field amplitude 10^[-30, 30], all-zero field
ENABLE_REUSE = True          # get_magnetic_field twice / mu_r setter between
ENABLE_FORMS = True          # mixed scalar/array tuples, length-1 containers
ENABLE_INTS = True           # integer-typed coordinates and angles
ENABLE_STRENGTH = True       # source strength != 1, Source.get_field route
ENABLE_ALT_FREQ = True       # source vector with the other frequency argument
ENABLE_OUTER_SOURCE = True   # point sources in the outermost cells / outside
ENABLE_DTYPE32 = True        # float32 / complex64 fields (electric)
ENABLE_SHIFT = True          # UTM-like coordinates

IN_MODES = ['node', 'lo', 'hi', 'near_node', 'centre', 'uniform', 'uniform',
            'inner', 'int']
OLD_FORMS = ['coords', 'rx']
FORMS = ['coords', 'rx', 'coords', 'rx', 'coords_arr', 'rx_list',
         'mixed_all', 'mixed_yz', 'mixed_ang']
NAN_MODES = ['below_lo', 'above_hi', 'outer_lo', 'outer_hi', 'bnd_lo',
             'bnd_hi', 'out_lo', 'out_hi']


# ------------------------------------------------------------ strategies
def _near(axes, one_sided):
    """axis value +- 10^u degrees; `one_sided` values only towards zero."""
    def f(t):
        a, u, up = t
        d = float(10.0**u)
        if a in one_sided:
            return float(a - np.sign(a)*d)
        return float(a + d if up else a - d)
    return st.tuples(st.sampled_from(axes), st.floats(-12, 0),
                     st.booleans()).map(f)


def _spread(lo, hi):
    """Evenly spread angle in (lo, hi] (a function of a drawn integer;
    st.floats alone concentrates on 'simple' values)."""
    return st.integers(0, 2**32-1).map(
        lambda k: float(hi - (hi-lo)*gen.rng_of(k, 5).random()))


def azimuth():
    ax = [-90.0, 0.0, 90.0, 180.0]
    return st.one_of(
        st.sampled_from(ax),
        st.sampled_from([-135.0, -45.0, 45.0, 135.0]),
        st.floats(-180, 180, exclude_min=True),
        _spread(-180, 180), _spread(-180, 180),
        _near(ax, (180.0,)))


def elevation():
    ax = [-90.0, 0.0, 90.0]
    return st.one_of(
        st.sampled_from(ax),
        st.floats(-90, 90),
        _spread(-90, 90), _spread(-90, 90), _spread(-90, 90),
        _near(ax, (-90.0, 90.0)))


def axis_pos(modes):
    return st.tuples(st.sampled_from(modes),
                     st.floats(0, 1, exclude_max=True)).map(list)


def point_spec(modes):
    return st.fixed_dictionaries({
        'pos': st.tuples(*[axis_pos(modes)]*3).map(list),
        'az': azimuth(),
        'el': elevation(),
    })


def field_spec(dtype32=False):
    return st.fixed_dictionaries({
        'kind': st.sampled_from(
            ['dense', 'dense', 'dense', 'scaled', 'scaled', 'basis', 'basis']
            + (['zero'] if ENABLE_AMPLITUDE else [])),
        'complex': st.booleans(),
        'pec': st.booleans(),
        'seed': gen.SEED,
        # decimal exponent of the amplitude (real E fields: 1e-10..1e-18)
        'lgamp': (st.one_of(st.just(0.0), st.floats(-30, 30),
                            st.sampled_from([-30.0, -18.0, -15.0, -12.0,
                                             -10.0, -6.0, 6.0, 12.0, 30.0]))
                  if ENABLE_AMPLITUDE else st.just(0.0)),
        'dtype32': (st.sampled_from([False, False, False, True])
                    if dtype32 and ENABLE_DTYPE32 else st.just(False)),
    })


def mag_model_spec():
    return st.fixed_dictionaries({
        'model': gen.model_spec(mur=False, max_decades=3.0),
        'mur': st.sampled_from(['none', 'none', 'const', 'hetero']),
        'mseed': gen.SEED,
    })


def grid_spec():
    """gen.grid_spec plus a shift of the x/y origin (UTM-like coordinates:
    |x|/h up to 1e7; kappa() widens the tolerance accordingly)."""
    return st.tuples(gen.grid_spec(COUNTS),
                     st.sampled_from([0.0, 0.0, 0.0, 5e5, 6.5e6]
                                     if ENABLE_SHIFT else [0.0])).map(
        lambda t: dict(t[0], shift=t[1]))


def strength_spec():
    if not ENABLE_STRENGTH:
        return st.none()
    return st.fixed_dictionaries({
        'kind': st.sampled_from(['one', 'minus_one', 'real', 'real',
                                 'complex', 'complex']),
        'lg': st.floats(-6, 6),
        'seed': gen.SEED,
    })


def electric_strategy():
    return st.fixed_dictionaries({
        'grid': grid_spec(),
        'points': st.lists(point_spec(IN_MODES), min_size=1, max_size=3),
        'field': field_spec(dtype32=True),
        'form': st.sampled_from(FORMS if ENABLE_FORMS else OLD_FORMS),
        'ints': st.booleans() if ENABLE_INTS else st.just(False),
        'strength': strength_spec(),
        # frequency argument of the second source vector (None: only the
        # frequency-independent vector, as before)
        'sfreq': (st.one_of(st.none(), gen.freq_spec(), gen.freq_spec())
                  if ENABLE_ALT_FREQ else st.none()),
    })


def magnetic_strategy():
    return st.fixed_dictionaries({
        'grid': grid_spec(),
        'mm': mag_model_spec(),
        'freq': gen.freq_spec(),
        'points': st.lists(point_spec(IN_MODES), min_size=1, max_size=3),
        'field': field_spec(),
        'form': st.sampled_from(FORMS if ENABLE_FORMS else OLD_FORMS),
        'ints': st.booleans() if ENABLE_INTS else st.just(False),
        'strength': strength_spec(),
        'reuse': st.sampled_from(['once', 'twice', 'mu_setter', 'mu_setter']
                                 if ENABLE_REUSE else ['once']),
        # also the frequency-independent vector of the magnetic point source
        'alt_freq': st.just(bool(ENABLE_ALT_FREQ)),
    })


def nan_strategy():
    # one guaranteed NaN-region axis value somewhere + free mix
    mixed = IN_MODES + NAN_MODES
    return st.fixed_dictionaries({
        'grid': grid_spec(),
        'mm': mag_model_spec(),
        'freq': gen.freq_spec(),
        'magnetic': st.booleans(),
        'method': st.sampled_from(['linear', 'linear', 'linear', 'cubic',
                                   'cubic', 'default']),
        'points': st.lists(st.one_of(point_spec(mixed), point_spec(IN_MODES),
                                     point_spec(IN_MODES[:3]+NAN_MODES[:2])),
                           min_size=1, max_size=4),
        'field': field_spec(dtype32=True),
        'form': st.sampled_from(FORMS if ENABLE_FORMS else OLD_FORMS),
        'ints': st.booleans() if ENABLE_INTS else st.just(False),
        'outer_source': st.just(bool(ENABLE_OUTER_SOURCE)),
    })


def reciprocity_strategy():
    modes = ['node', 'lo', 'hi', 'centre', 'uniform', 'inner', 'inner',
             'inner']
    # a magnetic point source closer than 1.5 cells to the boundary puts
    # source terms on PEC edges, which the solver cannot reduce: keep most
    # points between the second and second-last cell centre
    inner = ['inner', 'inner', 'centre']
    return st.fixed_dictionaries({
        'grid': gen.grid_spec(COUNTS + [6, 8]),
        'model': gen.model_spec(max_decades=2.0),
        'freq': gen.freq_spec(),
        'kind': st.sampled_from(['ee', 'mm']),
        'p1': st.one_of(point_spec(inner), point_spec(inner),
                        point_spec(inner), point_spec(modes)),
        'p2': st.one_of(point_spec(inner), point_spec(inner),
                        point_spec(inner), point_spec(modes)),
        'cfg': st.fixed_dictionaries({
            'sslsolver': st.sampled_from([True, False, 'bicgstab', False]),
            'cycle': st.sampled_from(['F', 'V', 'W', 'F']),
            'semicoarsening': st.booleans(),
            'linerelaxation': st.booleans(),
            'tol': gen.lgfloat(1e-10, 1e-5),
        }),
    })


# ------------------------------------------------- checker-side geometry
def resolve_axis(nodes, centres, mode, u):
    """-> (coordinate, expected_nan)."""
    n = len(nodes) - 1                      # cells; admissible nodes 1..n-1
    lo, hi = nodes[1], nodes[n-1]
    L = nodes[n] - nodes[0]
    if mode == 'node':
        return float(nodes[1 + int(u*(n-1))]), False
    if mode == 'lo':
        return float(lo), False
    if mode == 'hi':
        return float(hi), False
    if mode == 'near_node':
        k = 1 + int(u*(n-1))
        frac = u*(n-1) - int(u*(n-1))
        up = (k == 1) or (k != n-1 and frac < 0.5)
        return float(np.nextafter(nodes[k], np.inf if up else -np.inf)), False
    if mode == 'centre':
        return float(centres[1 + int(u*(n-2))]), False
    if mode == 'uniform':
        return float(min(max(lo + u*(hi-lo), lo), hi)), False
    if mode == 'inner':
        a, b = centres[1], centres[n-2]
        return float(min(max(a + u*(b-a), a), b)), False
    if mode == 'int':       # integer-valued coordinate, if there is one
        v = float(min(max(lo + u*(hi-lo), lo), hi))
        k = float(round(v))
        return (k if lo <= k <= hi else v), False
    if mode == 'below_lo':
        return float(np.nextafter(lo, -np.inf)), True
    if mode == 'above_hi':
        return float(np.nextafter(hi, np.inf)), True
    if mode == 'outer_lo':
        return float(min(nodes[0] + u*(lo-nodes[0]),
                         np.nextafter(lo, -np.inf))), True
    if mode == 'outer_hi':
        return float(max(nodes[n] - u*(nodes[n]-hi),
                         np.nextafter(hi, np.inf))), True
    if mode == 'bnd_lo':
        return float(nodes[0]), True
    if mode == 'bnd_hi':
        return float(nodes[n]), True
    if mode == 'out_lo':
        return float(nodes[0] - L*10.0**(-6 + 7*u)), True
    if mode == 'out_hi':
        return float(nodes[n] + L*10.0**(-6 + 7*u)), True
    raise HarnessError(f"unknown position mode {mode}")


def resolve_point(grid, p):
    """-> dict(coo=(x, y, z, az, el), nan=bool, modes=[...])."""
    nodes = (grid.nodes_x, grid.nodes_y, grid.nodes_z)
    cents = (grid.cell_centers_x, grid.cell_centers_y, grid.cell_centers_z)
    xyz, isnan, nan_ax = [], False, []
    for ax in range(3):
        mode, u = p['pos'][ax]
        v, nn = resolve_axis(nodes[ax], cents[ax], mode, u)
        # generator self-check: the construction gives the intended side
        outside = v < nodes[ax][1] or v > nodes[ax][-2]
        if outside != nn:
            raise HarnessError(f"position mode {mode} produced {v} on the "
                               f"wrong side ({nodes[ax]})")
        xyz.append(v)
        isnan |= nn
        nan_ax.append(nn)
    return {'coo': (xyz[0], xyz[1], xyz[2], float(p['az']), float(p['el'])),
            'nan': isnan, 'nan_ax': nan_ax,
            'modes': [m for m, _ in p['pos']]}


SHARED = {'mixed_all': (1, 2, 3, 4), 'mixed_yz': (1, 2), 'mixed_ang': (3, 4)}


def resolve_points(grid, points, form):
    """All receivers of a call.  For the 'mixed_*' forms the shared entries
    (y and z and/or both angles) of every receiver are those of the first
    one, because they are passed to get_receiver as scalars."""
    pts = [resolve_point(grid, p) for p in points]
    for p in pts[1:]:
        coo = list(p['coo'])
        for i in SHARED.get(form, ()):
            coo[i] = pts[0]['coo'][i]
            if i < 3:
                p['modes'][i] = pts[0]['modes'][i]
                p['nan_ax'][i] = pts[0]['nan_ax'][i]
        p['coo'] = tuple(coo)
        p['nan'] = any(p['nan_ax'])
    return pts


def build_grid(gspec):
    import emg3d
    h, origin = gen.build_widths(gspec)
    shift = float(gspec.get('shift', 0.0))
    if shift:
        origin = origin + np.array([shift, 1.3*shift, 0.0])
    return emg3d.TensorMesh(h, origin=origin)


def rot_own(az, el):
    a, e = np.deg2rad(az), np.deg2rad(el)
    return np.array([np.cos(a)*np.cos(e), np.sin(a)*np.cos(e), np.sin(e)])


def lin1d(p, x):
    """Own 1D hat-function weights on the sorted points p, p[0]<=x<=p[-1],
    and the mask of the points whose hat function may be touched when x or
    the points are perturbed by rounding (interval ends and their
    neighbours)."""
    i = int(np.searchsorted(p, x, side='right')) - 1
    i = min(max(i, 0), len(p)-2)
    t = (x - p[i])/(p[i+1] - p[i])
    w = np.zeros(len(p))
    w[i] = 1.0 - t
    w[i+1] = t
    hull = np.zeros(len(p))
    hull[max(i-1, 0):i+3] = 1.0
    return w, hull


def comp_points(grid, electric):
    n = (grid.nodes_x, grid.nodes_y, grid.nodes_z)
    c = (grid.cell_centers_x, grid.cell_centers_y, grid.cell_centers_z)
    out = []
    for k in range(3):
        if electric:   # edges: centre along the component, nodes across
            out.append(tuple(c[d] if d == k else n[d] for d in range(3)))
        else:          # faces: node along the component, centres across
            out.append(tuple(n[d] if d == k else c[d] for d in range(3)))
    return out


def own_weights(grid, xyz, electric):
    """Three flat (Fortran order) unrotated trilinear weight vectors and the
    three 0/1 hull vectors (entries that rounding of a weight can reach)."""
    out, hulls = [], []
    for pts in comp_points(grid, electric):
        (wx, hx), (wy, hy), (wz, hz) = (lin1d(pts[d], xyz[d])
                                        for d in range(3))
        w = wx[:, None, None]*wy[None, :, None]*wz[None, None, :]
        hl = hx[:, None, None]*hy[None, :, None]*hz[None, None, :]
        out.append(w.ravel('F'))
        hulls.append(hl.ravel('F'))
    return out, hulls


def kappa(grid):
    """Bound of the absolute rounding error of one interpolation weight:
    weights are quotients of coordinate differences, the coordinates
    themselves (nodes, centres) carry eps*|x|."""
    k = 1.0
    for nodes, h in zip((grid.nodes_x, grid.nodes_y, grid.nodes_z), grid.h):
        k = max(k, 1.0 + np.max(np.abs(nodes))/np.min(h))
    return 64*EPS*k


def face_avg_inv_mur(h, mur):
    """Two-cell volume-weighted mean of 1/mu_r on interior faces; zero on
    boundary faces (flat, refop face ordering)."""
    hx, hy, hz = h
    vol = hx[:, None, None]*hy[None, :, None]*hz[None, None, :]
    zeta = vol/(1.0 if mur is None else mur)
    out = []
    for ax in range(3):
        shp = list(vol.shape)
        shp[ax] += 1
        d = np.zeros(shp)
        sl_in = [slice(None)]*3
        sl_in[ax] = slice(1, -1)
        a = [slice(None)]*3
        b = [slice(None)]*3
        a[ax] = slice(0, -1)
        b[ax] = slice(1, None)
        d[tuple(sl_in)] = ((zeta[tuple(a)] + zeta[tuple(b)]) /
                           (vol[tuple(a)] + vol[tuple(b)]))
        out.append(d.ravel('F'))
    return np.concatenate(out)


# ------------------------------------------------------------- builders
def amp_of(fs):
    """Amplitude factor of the field (single precision: kept well inside
    the normal range of float32, 1e-38..3e38, also for kind 'scaled')."""
    lg = float(fs.get('lgamp', 0.0))
    if fs.get('dtype32', False):
        lg = min(max(lg, -20.0), 20.0)
    return float(10.0**lg)


def build_edge_field(grid, fs, freq, support, scale=1.0):
    """Random emg3d.Field on edges.  `freq` None -> dtype from spec."""
    import emg3d
    rng = gen.rng_of(fs['seed'], 31)
    ne = grid.n_edges
    cplx = fs['complex'] if freq is None else freq > 0
    def rnd(size):
        v = rng.standard_normal(size)
        if cplx:
            v = v + 1j*rng.standard_normal(size)
        return v
    kind = fs['kind']
    if kind == 'basis':
        sup = np.flatnonzero(support)
        cand = np.concatenate([sup, rng.integers(0, ne, size=max(1, sup.size))])
        j = int(cand[rng.integers(0, cand.size)])
        v = np.zeros(ne, dtype=complex if cplx else float)
        v[j] = rnd(1)[0]
    elif kind == 'zero':
        v = np.zeros(ne, dtype=complex if cplx else float)
    else:
        v = rnd(ne)
        if kind == 'scaled':
            v = v*10.0**rng.uniform(-4, 4, size=ne)
    v = v*scale
    if freq is None:
        if fs.get('dtype32', False):
            # dtype is taken from the data (only without a frequency)
            v = v.astype(np.complex64 if cplx else np.float32)
        f = emg3d.Field(grid, data=v)
    else:
        f = emg3d.Field(grid, data=v, frequency=freq)
    if fs['pec'] and kind != 'basis':
        gen.pec_zero(f.fx, f.fy, f.fz)
    return f


def frozen(field):
    """(64-bit copy for the checker's own functional, raw copy to decide
    afterwards that the code under test left its input alone)."""
    raw = np.array(field.field, copy=True)
    wide = raw.astype(complex if np.iscomplexobj(raw) else float)
    return wide, raw


def require_unchanged(name, what, now, before):
    now = np.asarray(now)
    if (now.dtype != before.dtype or now.shape != before.shape or
            not np.array_equal(now, before)):
        n = (int(np.sum(now != before)) if now.shape == before.shape
             else 'all')
        raise Violation(
            f"{name}:input_modified:{what}",
            f"{what} was modified in place by the code under test "
            f"({n} entries differ; dtype {before.dtype} -> {now.dtype})")


def ints_class(pts, ints):
    if not ints:
        return 'ints=False'
    n = sum(float(v) == int(v) for p in pts for v in p['coo'][:3])
    return ('ints=True:integer_position_passed' if n else
            'ints=True:angles_only')


def _num(v, ints):
    v = float(v)
    return int(v) if ints and v == int(v) and abs(v) < 2**53 else v


def _arr(vals, ints):
    a = np.array([float(v) for v in vals])
    if ints and np.all(a == np.round(a)) and np.all(np.abs(a) < 2**53):
        return a.astype(np.int64)
    return a


def make_receiver_arg(emg3d, pts, form, magnetic, ints=False):
    """Receiver argument in one of the documented formats: Rx instance, list
    of Rx instances, tuple (x, y, z, azimuth, elevation) whose entries are
    scalars or arrays with one entry per receiver ("all values can either be
    a scalar or having the same length as number of receivers").  With `ints`
    integer-valued numbers are passed as Python int / int64 arrays."""
    Rx = emg3d.RxMagneticPoint if magnetic else emg3d.RxElectricPoint
    if form in ('rx', 'rx_list'):
        rxs = [Rx(tuple(_num(v, ints) for v in p['coo'])) for p in pts]
        if len(pts) == 1 and form == 'rx':
            return rxs[0]
        return rxs
    if form == 'coords' and len(pts) == 1:
        return tuple(_num(v, ints) for v in pts[0]['coo'])
    if form in ('coords', 'coords_arr'):
        return tuple(_arr([p['coo'][k] for p in pts], ints) for k in range(5))
    if form in SHARED:
        # (array azimuth with scalar elevation or vice versa is not accepted
        # by emg3d.electrodes.rotation: both angles scalar or both arrays)
        return tuple(_num(pts[0]['coo'][k], ints) if k in SHARED[form]
                     else _arr([p['coo'][k] for p in pts], ints)
                     for k in range(5))
    raise HarnessError(f"unknown receiver form {form}")


def sample(emg3d, field, pts, form, magnetic, method='linear', ints=False):
    arg = make_receiver_arg(emg3d, pts, form, magnetic, ints)
    if method == 'default':
        r = emg3d.fields.get_receiver(field, arg)
    elif form in ('rx', 'rx_list'):
        r = emg3d.fields.get_receiver(field, arg, method)
    else:
        r = field.get_receiver(arg, method=method)
    if not isinstance(r, emg3d.utils.EMArray):
        raise Violation("receiver_result_type",
                        f"get_receiver returned {type(r).__name__}, "
                        f"documented: EMArray (receivers passed as {form})")
    if np.ndim(r) > 1:
        raise Violation("receiver_result_shape",
                        f"get_receiver returned shape {np.shape(r)} for "
                        f"{len(pts)} receiver(s) passed as {form}")
    r = np.asarray(r).reshape(-1)
    if r.size != len(pts):
        raise Violation("receiver_count",
                        f"get_receiver returned {r.size} values for "
                        f"{len(pts)} receiver(s) passed as {form}")
    return r


def rot_class(rot):
    a = np.abs(rot)
    a[a < 1e-15] = 0        # cos(pi/2) of the checker's own rotation
    if np.any((a > 0) & (a <= 1e-10)):
        return 'tiny_factor(<=1e-10)'
    if np.any((a > 1e-10) & (a < 1e-2)):
        return 'small_factor(<1e-2)'
    if np.sum(a < 1e-15) >= 2:
        return 'axis_aligned'
    if np.any(a < 1e-15):
        return 'in_coordinate_plane'
    return 'generic'


def pos_label(modes):
    if 'hi' in modes:
        return 'on_second_last_node'
    if 'lo' in modes:
        return 'on_second_node'
    if 'near_node' in modes:
        return 'ulp_from_node'
    if 'node' in modes:
        return 'on_node'
    return 'interior'


def axis_relation(nodes, v):
    if v == nodes[1]:
        return 'on_second_node'
    if v == nodes[-2]:
        return 'on_second_last_node'
    if v == np.nextafter(nodes[1], np.inf):
        return 'ulp_above_second_node'
    if v == np.nextafter(nodes[-2], -np.inf):
        return 'ulp_below_second_last_node'
    if v in nodes:
        return 'on_node'
    return 'interior'


def nan_culprit(field, grid, coo, method='linear'):
    """Root cause bucket of an unexpected NaN: the axis whose coordinate,
    when moved to the second cell centre, makes the NaN disappear."""
    nodes = (grid.nodes_x, grid.nodes_y, grid.nodes_z)
    cents = (grid.cell_centers_x, grid.cell_centers_y, grid.cell_centers_z)
    found = []
    if method == 'default':
        method = 'cubic'
    for d in range(3):
        c = list(coo)
        c[d] = float(cents[d][1])
        with warnings.catch_warnings():
            warnings.simplefilter('ignore')
            v = np.asarray(field.get_receiver(tuple(c), method=method))
        if np.all(np.isfinite(v)):
            found.append(f"{'xyz'[d]}:{axis_relation(nodes[d], coo[d])}")
    if len(found) == 1:
        return found[0]
    return 'no_single_axis' if not found else 'any_axis'


def nan_region_label(modes):
    out = []
    for d, m in enumerate(modes):
        if m in ('below_lo', 'outer_lo', 'bnd_lo'):
            out.append(f"{'xyz'[d]}:lower_outermost_cell")
        elif m in ('above_hi', 'outer_hi', 'bnd_hi'):
            out.append(f"{'xyz'[d]}:upper_outermost_cell")
        elif m == 'out_lo':
            out.append(f"{'xyz'[d]}:outside_below")
        elif m == 'out_hi':
            out.append(f"{'xyz'[d]}:outside_above")
    return '+'.join(out)


def functional(vals_c, abs_c, hull_c, kap, rot, ceps=C_EPS):
    """Own value, rounding tolerance and by-design drop allowance.

    abs_c = sum |f| |w_c|, hull_c = sum of |f| over the entries a rounding
    error of the weights (absolute size kap) can reach."""
    vals_c = np.asarray(vals_c)
    abs_c = np.asarray(abs_c, float)
    hull_c = np.asarray(hull_c, float)
    ar = np.abs(rot)
    ref = np.sum(rot*vals_c)
    tol0 = (ceps*np.sum(ar*abs_c) + 16*EPS*np.sum(abs_c) +
            kap*np.sum((ar + 16*EPS)*hull_c))
    small = ar <= DROP
    drop = np.sum(ar[small]*abs_c[small])
    return ref, tol0, drop


# ---------------------------------------------------------------- electric
def _check_point(name, r, ref_own, ip, tol0, drop, label, rcls, nan_diag):
    """Compare receiver r, own value, emg3d source inner product ip."""
    if not np.isfinite(r):
        raise Violation(f"nan_inside_domain:{nan_diag()}",
                        f"get_receiver ({name}) returned {r} for a position "
                        f"inside [second node, second-last node] ({label})")
    tol = tol0 + drop
    d_ro = abs(r - ref_own)
    if ip is not None:
        d_rs = abs(r - ip)
        d_so = abs(ip - ref_own)
        if d_rs > tol:
            if d_so <= tol0:
                who = 'receiver'
            elif d_ro <= tol:
                who = 'source_vector'
            else:
                who = 'both'
            raise Violation(
                f"{name}:receiver_ne_source_vector:{who}_off_own_weights",
                f"get_receiver={r!r} vs <field, source vector>={ip!r} "
                f"(own weights {ref_own!r}); |diff|={d_rs:.3e} > tol="
                f"{tol:.3e} (rounding {tol0:.2e} + dropped factors "
                f"{drop:.2e}); position {label}, orientation {rcls}")
    if d_ro > tol:
        raise Violation(
            f"{name}:receiver_ne_own_weights",
            f"get_receiver={r!r} and the source inner product agree with "
            f"each other but not with the checker's weights {ref_own!r}: "
            f"|diff|={d_ro:.3e} > {tol:.3e}; position {label}, {rcls}")


def strength_of(sp, allow_complex):
    """Source strength of the spec (None: not drawn -> no strength test)."""
    if sp is None:
        return None
    if sp['kind'] == 'one':
        return 1.0
    if sp['kind'] == 'minus_one':
        return -1
    rng = gen.rng_of(sp['seed'], 47)
    mag = float(10.0**sp['lg'])
    sign = -1.0 if rng.random() < 0.5 else 1.0
    phase = rng.uniform(0, 2*np.pi)
    if sp['kind'] == 'complex' and allow_complex:
        return complex(mag*np.cos(phase), mag*np.sin(phase))
    return sign*mag


def strength_class(c):
    if c is None:
        return 'not_drawn'
    if isinstance(c, complex):
        return 'complex'
    return 'one' if c == 1 else 'minus_one' if c == -1 else 'real'


def check_strength(name, emg3d, grid, rx, c, fr, unit):
    """The source term is linear in the (documented) source strength, and
    Source.get_field (the route Simulation takes for the back-propagated
    residual) is get_source_field.  `unit`: vector of the same point for
    strength 1 and the same frequency argument."""
    src = rx._adjoint_source(rx.coordinates, strength=c)
    a = emg3d.get_source_field(grid, src, frequency=fr)
    b = src.get_field(grid, fr)
    av, bv = np.asarray(a.field), np.asarray(b.field)
    if av.dtype != bv.dtype or not np.array_equal(av, bv):
        raise Violation(
            f"{name}:get_field_ne_get_source_field",
            f"{type(src).__name__}.get_field(grid, {fr}) differs from "
            f"get_source_field(grid, source, {fr}); strength {c!r}: max "
            f"|diff| {np.max(np.abs(av-bv)):.3e}, max |value| "
            f"{np.max(np.abs(av)):.3e}")
    uv = np.asarray(unit.field)
    # (underflow floor: products of tiny weights can be subnormal)
    lim = 16*EPS*abs(c)*np.abs(uv) + 16*np.finfo(float).tiny
    d = np.abs(av - c*uv)
    if not np.all(d <= lim):
        j = int(np.argmax(np.where(np.isfinite(d), d - lim, np.inf)))
        raise Violation(
            f"{name}:source_not_linear_in_strength",
            f"get_source_field with strength {c!r}, frequency {fr}: entry "
            f"{j} is {av[j]!r}, strength * unit vector = {c*uv[j]!r} "
            f"(|diff| {d[j]:.3e} > {lim[j]:.3e})")


def case_electric(spec, rec):
    import emg3d
    grid = build_grid(spec['grid'])
    form, ints = spec['form'], spec.get('ints', False)
    pts = resolve_points(grid, spec['points'], form)
    ws = [own_weights(grid, p['coo'][:3], True) for p in pts]
    kap = kappa(grid)
    support = np.zeros(grid.n_edges, bool)
    for w, _ in ws:
        support |= np.concatenate(w) != 0
    fspec = spec['field']
    field = build_edge_field(grid, fspec, None, support, amp_of(fspec))
    # own functional from a copy taken BEFORE the code under test runs
    f, f_raw = frozen(field)
    single = f_raw.dtype.itemsize < (16 if np.iscomplexobj(f_raw) else 8)
    ceps = C_EPS32 if single else C_EPS
    fc = (f[:grid.n_edges_x], f[grid.n_edges_x:grid.n_edges_x+grid.n_edges_y],
          f[grid.n_edges_x+grid.n_edges_y:])
    with warnings.catch_warnings():
        warnings.simplefilter('ignore')
        r = sample(emg3d, field, pts, form, False, ints=ints)
    require_unchanged('electric', 'field', field.field, f_raw)
    # second source vector: with a frequency (times -s mu0)
    sfs = spec.get('sfreq')
    sfreq = None if sfs is None else gen.freq_of(sfs)
    ssval = None if sfs is None else gen.sval_of(sfs)
    c = strength_of(spec.get('strength'), sfreq is not None and sfreq > 0)
    nontriv = False
    for k, (p, (w, hl)) in enumerate(zip(pts, ws)):
        rot = rot_own(p['coo'][3], p['coo'][4])
        vals = [np.sum(fc[c_]*w[c_]) for c_ in range(3)]
        absv = [np.sum(np.abs(fc[c_])*np.abs(w[c_])) for c_ in range(3)]
        hullv = [np.sum(np.abs(fc[c_])*hl[c_]) for c_ in range(3)]
        ref, tol0, drop = functional(vals, absv, hullv, kap, rot, ceps)
        rx = emg3d.RxElectricPoint(p['coo'])
        src = rx._adjoint_source(rx.coordinates)
        if type(src) is not emg3d.TxElectricPoint:
            raise Violation("electric:adjoint_source_class",
                            f"RxElectricPoint._adjoint_source gives "
                            f"{type(src).__name__}")
        v = emg3d.get_source_field(grid, src, frequency=None)
        ip = np.sum(f*np.asarray(v.field))
        label, rcls = pos_label(p['modes']), rot_class(rot)
        _check_point('electric', r[k], ref, ip, tol0, drop, label, rcls,
                     lambda: nan_culprit(field, grid, p['coo']))
        unit, fr = v, None
        if sfreq is not None:
            vf = emg3d.get_source_field(grid, src, frequency=sfreq)
            ipf = np.sum(f*np.asarray(vf.field))/(-ssval*mu_0)
            _check_point('electric[source vector with frequency]', r[k], ref,
                         ipf, tol0 + 16*EPS*float(np.sum(np.abs(rot)*absv)),
                         drop, label, rcls, lambda: 'not_applicable')
            unit, fr = vf, sfreq
        if c is not None:
            check_strength('electric', emg3d, grid, rx, c, fr, unit)
        rec.cls(f"pos={label}", f"rot={rcls}")
        if sum(absv) > 0 and (spec['grid']['kind'] != 'uniform' or
                              rcls != 'axis_aligned'):
            nontriv = True
    require_unchanged('electric', 'field', field.field, f_raw)
    rec.cls(f"field={fspec['kind']}",
            f"complex={np.iscomplexobj(f)}", f"form={form}",
            f"nrec={len(pts)}", f"widths={spec['grid']['kind']}",
            ints_class(pts, ints), f"dtype={f_raw.dtype}",
            f"amplitude={amp_class(fspec)}",
            f"shift={spec['grid'].get('shift', 0.0):g}",
            f"strength={strength_class(c)}",
            "source_frequency=" + ('None' if sfs is None else 'laplace'
                                   if sfs['laplace'] else 'frequency'))
    if nontriv:
        rec.nt([spec['grid']['seed'], spec['grid']['n'], spec['points'],
                spec['field']['seed']])
    rec.note({'shape': list(grid.shape_cells),
              'coo': [list(p['coo']) for p in pts],
              'values': [complex(x) for x in r]})


def amp_class(fs):
    if fs['kind'] == 'zero':
        return 'zero_field'
    lg = float(fs.get('lgamp', 0.0))
    return ('1' if lg == 0 else '<1e-10' if lg < -10 else '<1' if lg < 0
            else '<1e10' if lg < 10 else '>=1e10')


# ---------------------------------------------------------------- magnetic
def draw_mur(mm, shape, salt=41):
    """-> (mu_r array or None, constant value or None)."""
    rng = gen.rng_of(mm['mseed'], salt)
    if mm['mur'] == 'none':
        return None, 1.0
    if mm['mur'] == 'const':
        muc = float(rng.uniform(0.5, 5))
        return np.full(shape, muc), muc
    return rng.uniform(0.5, 5, size=shape), None


def build_mag_model(emg3d, grid, mm, fs, scale, first_salt=None):
    """Model of the spec.  With `first_salt` the model is built with another
    mu_r of the same kind (the caller assigns the final one through the
    Model.mu_r setter between two get_magnetic_field calls)."""
    bg = gen.bg_cond(fs, scale)
    sx, sy, sz, _, epsr = gen.build_cond(mm['model'], grid.shape_cells, bg)
    mur, muc = draw_mur(mm, grid.shape_cells)
    mur0 = mur
    if first_salt is not None and mur is not None:
        mur0, _ = draw_mur(mm, grid.shape_cells, first_salt)
    m = mm['model']['mapping']
    model = emg3d.Model(grid, gen.map_forward(m, sx), gen.map_forward(m, sy),
                        gen.map_forward(m, sz),
                        mu_r=None if mur0 is None else mur0.copy(),
                        epsilon_r=epsr, mapping=m)
    return model, mur, muc


class MagFunctional:
    """Checker-side magnetic sampling functional on an edge field."""

    def __init__(self, grid, mur, s):
        self.h = [np.asarray(x, float) for x in grid.h]
        self.C = refop.curl(*self.h)
        self.absCT = abs(self.C).T.tocsr()
        self.CT = self.C.T.tocsr()
        self.D = face_avg_inv_mur(self.h, mur)
        self.smu = s*mu_0
        nx, ny, nz = (len(x) for x in self.h)
        self.nf = [(nx+1)*ny*nz, nx*(ny+1)*nz, nx*ny*(nz+1)]
        self.grid = grid

    def vectors(self, xyz):
        """Per component c: edge vector g_c = C^T D P_c^T / (s mu0), its
        absolute-value counterpart and the same for the 0/1 hull of P_c."""
        w, hl = own_weights(self.grid, xyz, False)
        off = np.r_[0, np.cumsum(self.nf)]
        g, ga, gh = [], [], []
        for c in range(3):
            pc = np.zeros(off[-1])
            pc[off[c]:off[c+1]] = w[c]
            ph = np.zeros(off[-1])
            ph[off[c]:off[c+1]] = hl[c]
            g.append(self.CT @ (self.D*pc)/self.smu)
            ga.append(self.absCT @ (self.D*np.abs(pc))/abs(self.smu))
            gh.append(self.absCT @ (self.D*ph)/abs(self.smu))
        return g, ga, gh


def check_hfield(name, hfield, efield, grid, meta=False):
    """get_magnetic_field returns "the magnetic field corresponding to the
    provided electric field": a face field and (meta=True; decided after the
    values, so that a wrong value is reported as such) on the same grid with
    the same Laplace parameter (frequency AND its sign = domain)."""
    if hfield.electric or hfield.field.size != grid.n_faces:
        raise Violation(f"{name}:hfield_not_on_faces",
                        "get_magnetic_field did not return a face field")
    if not meta:
        return
    if hfield._frequency != efield._frequency or hfield.grid != efield.grid:
        raise Violation(
            f"{name}:hfield_metadata",
            f"get_magnetic_field: E has frequency argument "
            f"{efield._frequency} (s={efield.sval}), the returned H has "
            f"{hfield._frequency} (s={hfield.sval}); same grid: "
            f"{hfield.grid == efield.grid}")


def case_magnetic(spec, rec):
    import emg3d
    grid = build_grid(spec['grid'])
    fs = spec['freq']
    freq, s = gen.freq_of(fs), gen.sval_of(fs)
    form, ints = spec['form'], spec.get('ints', False)
    reuse = spec.get('reuse', 'once')
    if spec['mm']['mur'] == 'none' and reuse == 'mu_setter':
        reuse = 'twice'                 # no mu_r array to assign to
    model, mur, muc = build_mag_model(
        emg3d, grid, spec['mm'], fs, spec['grid']['scale'],
        first_salt=43 if reuse == 'mu_setter' else None)
    pts = resolve_points(grid, spec['points'], form)
    mf = MagFunctional(grid, mur, s)
    vecs = [mf.vectors(p['coo'][:3]) for p in pts]
    support = np.zeros(grid.n_edges, bool)
    kap = kappa(grid)
    for g, ga, gh in vecs:
        for c_ in range(3):
            support |= ga[c_] != 0
    fspec = spec['field']
    efield = build_edge_field(grid, fspec, freq, support, amp_of(fspec))
    # own functional from copies taken BEFORE the code under test runs
    e, e_raw = frozen(efield)
    vol0 = np.array(model.grid.cell_volumes, copy=True)
    px0 = np.array(model.property_x, copy=True)
    with warnings.catch_warnings():
        warnings.simplefilter('ignore')
        hfield = emg3d.get_magnetic_field(model, efield)
        check_hfield('magnetic', hfield, efield, grid)
        if reuse != 'once':
            if reuse == 'mu_setter':
                model.mu_r = mur.copy()
            h2 = emg3d.get_magnetic_field(model, efield)
            check_hfield('magnetic', h2, efield, grid)
            if reuse == 'twice' and not np.array_equal(
                    np.asarray(hfield.field), np.asarray(h2.field),
                    equal_nan=True):
                d = np.abs(np.asarray(hfield.field) - np.asarray(h2.field))
                raise Violation(
                    "magnetic:second_call_differs",
                    f"two get_magnetic_field(model, efield) calls with the "
                    f"same arguments give different fields: max |diff| "
                    f"{np.nanmax(d):.3e}, max |H| "
                    f"{np.nanmax(np.abs(np.asarray(hfield.field))):.3e}; "
                    f"mu_r {spec['mm']['mur']}")
            hfield = h2
        require_unchanged('magnetic', 'efield', efield.field, e_raw)
        require_unchanged('magnetic', 'grid.cell_volumes',
                          model.grid.cell_volumes, vol0)
        require_unchanged('magnetic', 'model.property_x', model.property_x,
                          px0)
        if mur is not None:
            require_unchanged('magnetic', 'model.mu_r', model.mu_r, mur)
        h_raw = np.array(hfield.field, copy=True)
        r = sample(emg3d, hfield, pts, form, True, ints=ints)
        require_unchanged('magnetic', 'hfield', hfield.field, h_raw)
    c = strength_of(spec.get('strength'), freq > 0)
    nontriv = False
    for k, (p, (g, ga, gh)) in enumerate(zip(pts, vecs)):
        rot = rot_own(p['coo'][3], p['coo'][4])
        vals = [np.sum(e*g[c_]) for c_ in range(3)]
        absv = [np.sum(np.abs(e)*ga[c_]) for c_ in range(3)]
        hullv = [np.sum(np.abs(e)*gh[c_]) for c_ in range(3)]
        ref, tol0, drop = functional(vals, absv, hullv, kap, rot)
        ip = ipn = None
        label, rcls = pos_label(p['modes']), rot_class(rot)
        if muc is not None:
            rx = emg3d.RxMagneticPoint(p['coo'])
            src = rx._adjoint_source(rx.coordinates)
            if type(src) is not emg3d.TxMagneticPoint:
                raise Violation("magnetic:adjoint_source_class",
                                f"RxMagneticPoint._adjoint_source gives "
                                f"{type(src).__name__}")
            sf = emg3d.get_source_field(grid, src, frequency=freq)
            ip = -np.sum(e*np.asarray(sf.field))/(s*mu_0)/muc
        _check_point('magnetic', r[k], ref, ip, tol0, drop,
                     f"{label}, mu_r {spec['mm']['mur']}", rcls,
                     lambda: nan_culprit(hfield, grid, p['coo']))
        if muc is not None and spec.get('alt_freq', False):
            # frequency-independent vector of the same source
            sn = emg3d.get_source_field(grid, src, frequency=None)
            ipn = -np.sum(e*np.asarray(sn.field))/(s*mu_0)/muc
            _check_point('magnetic[source vector without frequency]', r[k],
                         ref, ipn,
                         tol0 + 16*EPS*float(np.sum(np.abs(rot)*absv)), drop,
                         f"{label}, mu_r {spec['mm']['mur']}", rcls,
                         lambda: 'not_applicable')
            if c is not None and k == 1:
                check_strength('magnetic', emg3d, grid, rx, c, None, sn)
        if muc is not None and c is not None and k == 0:
            check_strength('magnetic', emg3d, grid, rx, c, freq, sf)
        rec.cls(f"pos={label}", f"rot={rcls}")
        if sum(absv) > 0 and (spec['grid']['kind'] != 'uniform' or
                              rcls != 'axis_aligned'):
            nontriv = True
    require_unchanged('magnetic', 'efield', efield.field, e_raw)
    check_hfield('magnetic', hfield, efield, grid, meta=True)
    rec.cls(f"field={fspec['kind']}", f"laplace={fs['laplace']}",
            f"mur={spec['mm']['mur']}", f"form={form}",
            f"nrec={len(pts)}", f"widths={spec['grid']['kind']}",
            f"pec={fspec['pec']}", ints_class(pts, ints),
            f"reuse={reuse}", f"reuse={reuse},mur={spec['mm']['mur']}",
            f"amplitude={amp_class(fspec)}",
            f"shift={spec['grid'].get('shift', 0.0):g}",
            f"strength={strength_class(c) if muc is not None else 'n/a'}")
    if nontriv:
        rec.nt([spec['grid']['seed'], spec['grid']['n'], spec['points'],
                spec['field']['seed'], spec['mm']['mur']])
    rec.note({'shape': list(grid.shape_cells), 'sval': str(s),
              'coo': [list(p['coo']) for p in pts],
              'values': [complex(x) for x in r]})


# --------------------------------------------------------------------- nan
def check_outer_source(emg3d, grid, p, magnetic):
    """Point source of a position in an outermost cell or on the boundary
    (receivers are NaN there, so transposition cannot be decided): the source
    vector exists, is finite and - electric - each component sums to the
    rotation factor (the trilinear weights are a partition of unity; their
    individual values are not demanded).  -> class label or None."""
    nodes = (grid.nodes_x, grid.nodes_y, grid.nodes_z)
    coo = p['coo']
    if any(coo[d] < nodes[d][0] or coo[d] > nodes[d][-1] for d in range(3)):
        return None                       # outside the grid: no source
    Tx = emg3d.TxMagneticPoint if magnetic else emg3d.TxElectricPoint
    where = '+'.join(m for m in p['modes'] if m in NAN_MODES)
    with warnings.catch_warnings():
        warnings.simplefilter('ignore')
        v = emg3d.get_source_field(grid, Tx(coo), frequency=None)
    vv = np.asarray(v.field)
    if vv.size != grid.n_edges or not np.all(np.isfinite(vv)):
        raise Violation(
            f"nan:outer_source_not_finite:{Tx.__name__}",
            f"source vector of {Tx.__name__}{coo} ({where}) has "
            f"{int(np.sum(~np.isfinite(vv)))} non-finite of {vv.size} entries")
    if not magnetic:
        rot = rot_own(coo[3], coo[4])
        for c_, vc in enumerate((v.fx, v.fy, v.fz)):
            tot, sab = np.sum(vc), np.sum(np.abs(vc))
            tol = C_EPS*(sab + abs(rot[c_])) + 16*EPS
            if abs(tot - rot[c_]) > tol:
                raise Violation(
                    f"nan:outer_source_moment:{'xyz'[c_]}",
                    f"{'xyz'[c_]}-component of the source vector of "
                    f"TxElectricPoint{coo} ({where}) sums to {tot!r}, "
                    f"rotation factor {rot[c_]!r} (tol {tol:.2e})")
    return f"outer_source:{'magnetic' if magnetic else 'electric'}"


def case_nan(spec, rec):
    import emg3d
    grid = build_grid(spec['grid'])
    fs = spec['freq']
    freq, s = gen.freq_of(fs), gen.sval_of(fs)
    magnetic = spec['magnetic']
    method = spec['method']
    if method in ('cubic', 'default') and min(grid.shape_cells) < 4:
        method = 'linear'       # a cubic spline needs >= 4 points per axis
    form, ints = spec['form'], spec.get('ints', False)
    pts = resolve_points(grid, spec['points'], form)
    everything = np.ones(grid.n_edges, bool)
    fspec = dict(spec['field'])
    if fspec['kind'] == 'basis':
        fspec['kind'] = 'dense'
    if magnetic:
        model, mur, muc = build_mag_model(emg3d, grid, spec['mm'], fs,
                                          spec['grid']['scale'])
        efield = build_edge_field(grid, fspec, freq, everything,
                                  amp_of(fspec))
        with warnings.catch_warnings():
            warnings.simplefilter('ignore')
            field = emg3d.get_magnetic_field(model, efield)
        mf = MagFunctional(grid, mur, s)
    else:
        field = build_edge_field(grid, fspec, None, everything,
                                 amp_of(fspec))
    f, f_raw = frozen(field)
    single = f_raw.dtype.itemsize < (16 if np.iscomplexobj(f_raw) else 8)
    with warnings.catch_warnings():
        warnings.simplefilter('ignore')
        r = sample(emg3d, field, pts, form, magnetic, method, ints)
    require_unchanged('nan', 'field', field.field, f_raw)
    kind = 'magnetic' if magnetic else 'electric'
    if spec.get('outer_source', False):
        for p in pts:
            if p['nan']:
                lab = check_outer_source(emg3d, grid, p, magnetic)
                if lab:
                    rec.cls(lab)
    for k, p in enumerate(pts):
        got_nan = bool(np.isnan(r[k]))
        modes = p['modes']
        if p['nan']:
            why = [m for m in modes if m in NAN_MODES]
            rec.cls(f"nan_expected:{why[0]}")
            if not got_nan:
                raise Violation(
                    f"number_in_nan_region:{nan_region_label(modes)}",
                    f"{kind} receiver at {p['coo'][:3]} (axis modes {modes}) "
                    f"returned {r[k]!r}; nodes x={grid.nodes_x[[0,1,-2,-1]]} "
                    f"y={grid.nodes_y[[0,1,-2,-1]]} "
                    f"z={grid.nodes_z[[0,1,-2,-1]]}")
            continue
        label = pos_label(modes)
        rec.cls(f"number_expected:{label}")
        if got_nan or not np.isfinite(r[k]):
            raise Violation(
                f"nan_inside_domain:"
                f"{nan_culprit(field, grid, p['coo'], method)}",
                f"{kind} receiver ({method}) at {p['coo'][:3]} (axis modes "
                f"{modes}) returned {r[k]!r} although every coordinate lies "
                f"in [second node, second-last node]; {len(pts)} receivers "
                f"in the call")
        if method != 'linear':
            continue
        if fspec['kind'] == 'zero' and r[k] != 0:
            raise Violation(
                f"nan:value_ne_own_weights:{kind}",
                f"receiver {k} of {len(pts)} returned {r[k]!r} for an "
                f"all-zero field")
        rot = rot_own(p['coo'][3], p['coo'][4])
        if magnetic:
            # value check through the emg3d H field itself (face weights)
            w, hl = own_weights(grid, p['coo'][:3], False)
            off = np.r_[0, np.cumsum(mf.nf)]
        else:
            w, hl = own_weights(grid, p['coo'][:3], True)
            off = np.r_[0, grid.n_edges_x, grid.n_edges_x+grid.n_edges_y,
                        grid.n_edges]
        vals = [np.sum(f[off[c]:off[c+1]]*w[c]) for c in range(3)]
        absv = [np.sum(np.abs(f[off[c]:off[c+1]])*np.abs(w[c]))
                for c in range(3)]
        hullv = [np.sum(np.abs(f[off[c]:off[c+1]])*hl[c]) for c in range(3)]
        ref, tol0, drop = functional(vals, absv, hullv, kappa(grid), rot,
                                     C_EPS32 if single else C_EPS)
        if abs(r[k]-ref) > tol0 + drop:
            raise Violation(
                f"nan:value_ne_own_weights:{kind}",
                f"receiver {k} of {len(pts)} returned {r[k]!r}, own weights "
                f"give {ref!r} (tol {tol0+drop:.2e}); NaN pattern of the "
                f"call: {[bool(q['nan']) for q in pts]}")
    rec.cls(f"kind={kind}", f"method={method}", f"nrec={len(pts)}",
            f"form={form}", ints_class(pts, ints), f"dtype={f_raw.dtype}",
            f"amplitude={amp_class(fspec)}",
            f"shift={spec['grid'].get('shift', 0.0):g}",
            f"mix={'mixed' if 0 < sum(p['nan'] for p in pts) < len(pts) else 'pure'}")
    if any(p['nan'] for p in pts):
        rec.nt([spec['grid']['seed'], spec['grid']['n'], spec['points'],
                magnetic, method])
    rec.note({'shape': list(grid.shape_cells), 'method': method,
              'coo': [list(p['coo'][:3]) for p in pts],
              'expected_nan': [bool(p['nan']) for p in pts]})


# ------------------------------------------------------------- reciprocity
def case_reciprocity(spec, rec):
    """Source/receiver exchange.

    Let A be the (complex-)symmetric system matrix on the interior edges
    (refop.assemble; emg3d.solve solves A e = sfield with e = 0 on the PEC
    boundary), q_i the unit sampling functional of point i (electric: the
    trilinear weights times rotation; magnetic, mu_r = 1: C^T P^T rot/(s mu0))
    so that response(e; i) = q_i^T e, and b_i = get_source_field(...) =
    -s mu0 q_i the source term of the same point (this is the transposition
    statement of the other sub-checks).  For the computed fields e_i with
    residuals rho_i = b_i - A e_i:

        a = q_2^T e_1 = -b_2^T e_1/(s mu0)
          = -(A e_2 + rho_2)^T e_1/(s mu0)
        b = q_1^T e_2 = -(A e_1 + rho_1)^T e_2/(s mu0)
        a - b = (e_2^T rho_1 - e_1^T rho_2)/(s mu0)       [A = A^T, exactly]

    (the second-order terms rho^T A^-1 rho cancel by symmetry, so this is an
    identity, not only a first-order estimate).  Tests:

    (a) |a - b - (e_2^T rho_1 - e_1^T rho_2)/(s mu0)| <= rounding floor, with
        rho from the checker's operator, for every outcome of the solver;
        hence |a-b| <= (|e_2^T rho_1| + |e_1^T rho_2|)/|s mu0| + floor.
    (b) if both solves report success with tolerance tol, Cauchy-Schwarz and
        ||rho_i|| <= tol ||b_i|| give
        |a-b| <= tol (||e_2|| ||b_1|| + ||e_1|| ||b_2||)/|s mu0| + floor:
        "unchanged up to the solver tolerance".
    """
    import emg3d
    h, origin = gen.build_widths(spec['grid'])
    grid = emg3d.TensorMesh(h, origin=origin)
    fs = spec['freq']
    freq, s = gen.freq_of(fs), gen.sval_of(fs)
    smu = s*mu_0
    kind = spec['kind']
    mspec = dict(spec['model'])
    if kind == 'mm':
        mspec['mur'] = False      # TxMagneticPoint: documented mu_r = 1 only
    bg = gen.bg_cond(fs, spec['grid']['scale'])
    model, (sx, sy, sz, mur, epsr) = gen.build_model(grid, mspec, bg)
    case = mspec['case']
    rsy = sy if case in ('HTI', 'triaxial') else sx
    rsz = sz if case in ('VTI', 'triaxial') else sx
    A, interior, C, Mf, Me = refop.assemble(*h, sx, rsy, rsz, mur, epsr, s)
    absA = refop.absmat(A)
    pts = [resolve_point(grid, spec['p1']), resolve_point(grid, spec['p2'])]
    Tx = emg3d.TxElectricPoint if kind == 'ee' else emg3d.TxMagneticPoint
    cfg = spec['cfg']
    es, bs, infos = [], [], []
    for p in pts:
        with warnings.catch_warnings():
            warnings.simplefilter('ignore')
            b = emg3d.get_source_field(grid, Tx(p['coo']), frequency=freq)
        buf = io.StringIO()
        with contextlib.redirect_stdout(buf), warnings.catch_warnings():
            warnings.simplefilter('ignore')
            e, info = emg3d.solve(
                model, b, sslsolver=cfg['sslsolver'], cycle=cfg['cycle'],
                semicoarsening=cfg['semicoarsening'],
                linerelaxation=cfg['linerelaxation'], tol=cfg['tol'],
                maxit=50, verb=-1, return_info=True)
        ev = np.asarray(e.field)
        if not np.all(np.isfinite(ev)):
            raise Inconclusive("solver returned a non-finite field (C01)")
        if np.any(ev[~interior] != 0):
            raise Inconclusive("solver returned non-zero PEC values (C01)")
        es.append(e)
        bs.append(np.asarray(b.field))
        infos.append(info)

    def respond(e, p):
        with warnings.catch_warnings():
            warnings.simplefilter('ignore')
            if kind == 'ee':
                fld = e
            else:
                fld = emg3d.get_magnetic_field(model, e)
            return complex(np.asarray(
                emg3d.fields.get_receiver(fld, tuple(p['coo']), 'linear')))
    a = respond(es[0], pts[1])
    b = respond(es[1], pts[0])
    if not (np.isfinite(a) and np.isfinite(b)):
        which = 1 if not np.isfinite(a) else 0
        fld = es[1-which] if kind == 'ee' else \
            emg3d.get_magnetic_field(model, es[1-which])
        raise Violation(
            f"nan_inside_domain:{nan_culprit(fld, grid, pts[which]['coo'])}",
            f"reciprocity ({kind}): responses {a}, {b} at interior points")
    e1, e2 = np.asarray(es[0].field), np.asarray(es[1].field)
    rho, fl = [], []
    for e, bb in ((e1, bs[0]), (e2, bs[1])):
        r = bb - A @ e
        r[~interior] = 0
        rho.append(r)
        fl.append((absA @ np.abs(e) + np.abs(bb))*interior)
    # |sampling functionals| per component for the rounding floor and for
    # the components get_receiver skips by design (factor <= 1e-10)
    ne = [grid.n_edges_x, grid.n_edges_y, grid.n_edges_z]
    off = np.r_[0, np.cumsum(ne)]
    mfun = MagFunctional(grid, None, s) if kind == 'mm' else None
    kap = kappa(grid)
    q_abs, drops = [], []
    for p in pts:
        rot = np.abs(rot_own(p['coo'][3], p['coo'][4]))
        if kind == 'ee':
            w, hl = own_weights(grid, p['coo'][:3], True)
            qa, qh = [], []
            for c in range(3):
                z = np.zeros(off[-1])
                z[off[c]:off[c+1]] = np.abs(w[c])
                qa.append(z)
                z = np.zeros(off[-1])
                z[off[c]:off[c+1]] = hl[c]
                qh.append(z)
        else:
            _, qa, qh = mfun.vectors(p['coo'][:3])
        q_abs.append(sum(rot[c]*qa[c] for c in range(3)) +
                     16*EPS/C_EPS*sum(qa) +
                     kap/C_EPS*sum((rot[c] + 16*EPS)*qh[c] for c in range(3)))
        drops.append(sum(rot[c]*qa[c] for c in range(3) if rot[c] <= DROP)
                     + np.zeros(off[-1]))
    pred = (np.sum(e2*rho[0]) - np.sum(e1*rho[1]))/smu
    floor_ab = (C_EPS*(np.sum(np.abs(e1)*q_abs[1]) +
                       np.sum(np.abs(e2)*q_abs[0])) +
                np.sum(np.abs(e1)*drops[1]) + np.sum(np.abs(e2)*drops[0]))
    floor_res = C_EPS*(np.sum(np.abs(e2)*fl[0]) +
                       np.sum(np.abs(e1)*fl[1]))/abs(smu)
    # (a) identity through the actual residuals
    da = abs((a - b) - pred)
    if da > floor_ab + floor_res:
        raise Violation(
            f"reciprocity:{kind}:residual_identity",
            f"a={a!r}, b={b!r}: a-b={a-b!r} but the residuals of the two "
            f"solves predict {pred!r}; mismatch {da:.3e} > rounding floor "
            f"{floor_ab+floor_res:.3e}")
    bound_a = (abs(np.sum(e2*rho[0])) + abs(np.sum(e1*rho[1])))/abs(smu)
    if abs(a-b) > 1.01*bound_a + floor_ab + floor_res:
        raise Violation(
            f"reciprocity:{kind}:exceeds_residual_bound",
            f"|a-b|={abs(a-b):.3e} > 1.01*{bound_a:.3e} + floor")
    ok = all(i['exit'] == 0 for i in infos)
    bound_b = None
    if ok:
        n1, n2 = np.linalg.norm(bs[0]), np.linalg.norm(bs[1])
        f1 = C_EPS*np.linalg.norm(fl[0])
        f2 = C_EPS*np.linalg.norm(fl[1])
        bound_b = ((cfg['tol']*n1*(1+1e-9) + f1)*np.linalg.norm(e2) +
                   (cfg['tol']*n2*(1+1e-9) + f2)*np.linalg.norm(e1))/abs(smu)
        if abs(a-b) > bound_b + floor_ab:
            raise Violation(
                f"reciprocity:{kind}:exceeds_solver_tolerance",
                f"both solves report success with tol={cfg['tol']:.2e} but "
                f"|a-b|={abs(a-b):.3e} > tol*(||e2|| ||b1|| + ||e1|| ||b2||)/"
                f"|s mu0| = {bound_b:.3e}; a={a!r}, b={b!r}; true relative "
                f"residuals {np.linalg.norm(rho[0])/n1:.2e}, "
                f"{np.linalg.norm(rho[1])/n2:.2e}")
    same = pts[0]['coo'] == pts[1]['coo']
    mag = max(abs(a), abs(b))
    rel = abs(a-b)/mag if mag > 0 else 0.0
    src_on_bnd = any(np.any(bb[~interior] != 0) for bb in bs)
    rec.cls(f"kind={kind}", f"converged={ok}", f"{kind}:converged={ok}",
            f"same_point={same}", f"case={case}",
            f"laplace={fs['laplace']}", gen.regime(fs),
            f"ssl={cfg['sslsolver']}", f"source_touches_boundary={src_on_bnd}",
            f"mur={mur is not None}",
            "rel_diff=" + ('0' if rel == 0 else '<1e-12' if rel < 1e-12 else
                           '<1e-8' if rel < 1e-8 else '<1e-4' if rel < 1e-4
                           else '>=1e-4'))
    if ok and mag > 0:
        q = bound_b/mag
        rec.cls("bound/|a|=" + ('<1e-6' if q < 1e-6 else '<1e-2' if q < 1e-2
                                else '>=1e-2'))
        if not same and q < 1e-2:
            rec.nt([spec['grid']['seed'], spec['grid']['n'], spec['p1'],
                    spec['p2'], spec['model']['seed'], kind])
    rec.note({'shape': list(grid.shape_cells), 'kind': kind, 'a': a, 'b': b,
              'rel_diff': rel, 'tol': cfg['tol'], 'converged': ok,
              'bound_residual': bound_a, 'bound_tol': bound_b,
              'floor': floor_ab+floor_res})


SUBS = {'electric': case_electric, 'magnetic': case_magnetic,
        'nan': case_nan, 'reciprocity': case_reciprocity}


def run(ctx):
    ctx.regression(SUBS)
    ctx.explore('electric', electric_strategy(), case_electric,
                ctx.n(1500, 1500))
    ctx.explore('magnetic', magnetic_strategy(), case_magnetic,
                ctx.n(800, 1000))
    ctx.explore('nan', nan_strategy(), case_nan, ctx.n(800, 800))
    ctx.explore('reciprocity', reciprocity_strategy(), case_reciprocity,
                ctx.n(150, 200), shrink=ctx.quick)

"""C09 - receiver sampling <-> point sources are exact transposes; reciprocity.

Sub-checks
----------
electric     get_receiver(field, coo, 'linear') on an edge field against
             (a) <field, v>, v = get_source_field(grid, TxElectricPoint(coo)
             [obtained through Rx._adjoint_source], frequency=None) and
             (b) the checker's own trilinear weights times its own rotation
             factors.  Tolerance 1e4*eps*sum|f||v| plus, for components whose
             rotation factor is <= 1e-10 (get_receiver skips those by design),
             exactly the magnitude of the skipped term.
magnetic     get_receiver(get_magnetic_field(model, e), coo, 'linear') against
             (a) <e, C^T D P^T rot>/(s mu0) with the checker's curl C
             (refop.curl), D = two-cell volume average of 1/mu_r on interior
             faces (what _edge_curl_factor applies; zero on boundary faces) and
             own face interpolation P; for every mu_r; and
             (b) -<e, get_source_field(grid, TxMagneticPoint(coo), f)>/(s mu0)
             for mu_r = 1 and, divided by c, for a constant mu_r = c.  For
             heterogeneous mu_r only (a) is a statement of the code under test
             (TxMagneticPoint is documented as "not implemented for magnetic
             permeability"), so (b) is not demanded there.
nan          NaN exactly for positions with a coordinate < second node or
             > second-last node (outermost cells, boundary, outside), a number
             (== own weights for 'linear') everywhere else, including exactly
             on the second / second-last node and one ulp on either side;
             several receivers in one call; electric and magnetic fields;
             'linear' and (pattern only) 'cubic'.
reciprocity  two emg3d.solve runs with point source and point receiver
             exchanged (electric-electric, magnetic-magnetic).  See
             `case_reciprocity` for the derivation of the two tests.
"""
import contextlib
import io
import warnings

import numpy as np
from hypothesis import strategies as st
from scipy.constants import mu_0

from vp import gen, refop
from vp.framework import HarnessError, Inconclusive, Violation

RULE = ("Stretched/random/uniform grids with 3..8 cells per direction; "
        "1..3 receivers per call, each coordinate drawn per axis from "
        "{any admissible node, second node, second-last node, one ulp inside "
        "of a node, cell centre, uniform in [second node, second-last node], "
        "uniform between the second and second-last cell centre}; azimuth in "
        "(-180,180] and elevation in [-90,90] from {axis-aligned, diagonal, "
        "uniform, axis +- 10^u degrees with u in [-12,0] (both sides of the "
        "1e-10 factor threshold)}; real or complex edge fields (dense normal, "
        "entries spread over 8 decades, single basis vector in/next to the "
        "support), with and without zero PEC boundary values; receivers passed "
        "as coordinate tuples/arrays or Rx instances/lists.  Magnetic: same, "
        "plus model with mu_r in {none, constant, heterogeneous}, frequency "
        "or Laplace.  NaN: per axis additionally {one ulp outside the second/"
        "second-last node, inside an outermost cell, exactly on the boundary, "
        "outside the grid up to 10 domain lengths}.  Reciprocity: generated "
        "heterogeneous (an)isotropic models, two interior points with any "
        "orientation, solver configuration and tolerance drawn.  "
        "Non-trivial: transposition = a finite value is expected, the field "
        "is non-zero on the support of the sampling functional and the grid "
        "is non-uniform or the orientation not axis-aligned; nan = at least "
        "one receiver in the NaN region; reciprocity = both solves report "
        "success, the points/orientations differ and the derived bound is "
        "below 1e-2*|response|.  Distinct by (grid seed, shape, point specs, "
        "field seed).")
ASSUMPTIONS = [
    "TensorMesh.nodes_* / cell_centers_* (discretize) are the grid geometry; "
    "the checker's interpolation weights are computed from them with its own "
    "1D hat-function code",
    "rotation factors of the checker: (cos az cos el, sin az cos el, sin el) "
    "evaluated with numpy in radians",
    "reference curl / operator vp/refop.py (validated against emg3d.core by "
    "C02); shares no code with emg3d",
    "tolerance 1e4*eps relative to the sum of absolute terms of the sampled "
    "functional; components whose rotation factor is <= 1e-10 may be missing "
    "from get_receiver (documented in its source) and are allowed for with "
    "their own magnitude, nothing else",
    "magnetic receivers with heterogeneous mu_r: only the checker-side "
    "expression (with the face-averaged 1/mu_r the code applies) is demanded; "
    "the identity with get_source_field(TxMagneticPoint) is demanded for "
    "mu_r = 1 and (scaled by 1/c) constant mu_r = c, because the magnetic "
    "point source is documented as not implemented for permeability",
    "reciprocity (b) uses the solver's reported success and tolerance; that "
    "success certifies ||s - A e|| <= tol ||s|| is property C01",
]
SHARDS = {'quick': 1, 'thorough': 16}

EPS = np.finfo(float).eps
C_EPS = 1e4*EPS
DROP = 1e-10*(1 + 1e-5)      # factor threshold of get_receiver (+ slack)
COUNTS = [3, 4, 5, 6, 7, 8, 3, 5]

IN_MODES = ['node', 'lo', 'hi', 'near_node', 'centre', 'uniform', 'uniform',
            'inner']
NAN_MODES = ['below_lo', 'above_hi', 'outer_lo', 'outer_hi', 'bnd_lo',
             'bnd_hi', 'out_lo', 'out_hi']


# ------------------------------------------------------------ strategies
def _near(axes, one_sided):
    """axis value +- 10^u degrees; `one_sided` values only towards zero."""
    def f(t):
        a, u, up = t
        d = float(10.0**u)
        if a in one_sided:
            return float(a - np.sign(a)*d)
        return float(a + d if up else a - d)
    return st.tuples(st.sampled_from(axes), st.floats(-12, 0),
                     st.booleans()).map(f)


def _spread(lo, hi):
    """Evenly spread angle in (lo, hi] (a function of a drawn integer;
    st.floats alone concentrates on 'simple' values)."""
    return st.integers(0, 2**32-1).map(
        lambda k: float(hi - (hi-lo)*gen.rng_of(k, 5).random()))


def azimuth():
    ax = [-90.0, 0.0, 90.0, 180.0]
    return st.one_of(
        st.sampled_from(ax),
        st.sampled_from([-135.0, -45.0, 45.0, 135.0]),
        st.floats(-180, 180, exclude_min=True),
        _spread(-180, 180), _spread(-180, 180),
        _near(ax, (180.0,)))


def elevation():
    ax = [-90.0, 0.0, 90.0]
    return st.one_of(
        st.sampled_from(ax),
        st.floats(-90, 90),
        _spread(-90, 90), _spread(-90, 90), _spread(-90, 90),
        _near(ax, (-90.0, 90.0)))


def axis_pos(modes):
    return st.tuples(st.sampled_from(modes),
                     st.floats(0, 1, exclude_max=True)).map(list)


def point_spec(modes):
    return st.fixed_dictionaries({
        'pos': st.tuples(*[axis_pos(modes)]*3).map(list),
        'az': azimuth(),
        'el': elevation(),
    })


def field_spec():
    return st.fixed_dictionaries({
        'kind': st.sampled_from(['dense', 'dense', 'scaled', 'basis']),
        'complex': st.booleans(),
        'pec': st.booleans(),
        'seed': gen.SEED,
    })


def mag_model_spec():
    return st.fixed_dictionaries({
        'model': gen.model_spec(mur=False, max_decades=3.0),
        'mur': st.sampled_from(['none', 'none', 'const', 'hetero']),
        'mseed': gen.SEED,
    })


def electric_strategy():
    return st.fixed_dictionaries({
        'grid': gen.grid_spec(COUNTS),
        'points': st.lists(point_spec(IN_MODES), min_size=1, max_size=3),
        'field': field_spec(),
        'form': st.sampled_from(['coords', 'rx']),
    })


def magnetic_strategy():
    return st.fixed_dictionaries({
        'grid': gen.grid_spec(COUNTS),
        'mm': mag_model_spec(),
        'freq': gen.freq_spec(),
        'points': st.lists(point_spec(IN_MODES), min_size=1, max_size=3),
        'field': field_spec(),
        'form': st.sampled_from(['coords', 'rx']),
    })


def nan_strategy():
    # one guaranteed NaN-region axis value somewhere + free mix
    mixed = IN_MODES + NAN_MODES
    return st.fixed_dictionaries({
        'grid': gen.grid_spec(COUNTS),
        'mm': mag_model_spec(),
        'freq': gen.freq_spec(),
        'magnetic': st.booleans(),
        'method': st.sampled_from(['linear', 'linear', 'cubic']),
        'points': st.lists(st.one_of(point_spec(mixed), point_spec(IN_MODES),
                                     point_spec(IN_MODES[:3]+NAN_MODES[:2])),
                           min_size=1, max_size=4),
        'field': field_spec(),
        'form': st.sampled_from(['coords', 'rx']),
    })


def reciprocity_strategy():
    modes = ['node', 'lo', 'hi', 'centre', 'uniform', 'inner', 'inner',
             'inner']
    # a magnetic point source closer than 1.5 cells to the boundary puts
    # source terms on PEC edges, which the solver cannot reduce: keep most
    # points between the second and second-last cell centre
    inner = ['inner', 'inner', 'centre']
    return st.fixed_dictionaries({
        'grid': gen.grid_spec(COUNTS + [6, 8]),
        'model': gen.model_spec(max_decades=2.0),
        'freq': gen.freq_spec(),
        'kind': st.sampled_from(['ee', 'mm']),
        'p1': st.one_of(point_spec(inner), point_spec(inner),
                        point_spec(inner), point_spec(modes)),
        'p2': st.one_of(point_spec(inner), point_spec(inner),
                        point_spec(inner), point_spec(modes)),
        'cfg': st.fixed_dictionaries({
            'sslsolver': st.sampled_from([True, False, 'bicgstab', False]),
            'cycle': st.sampled_from(['F', 'V', 'W', 'F']),
            'semicoarsening': st.booleans(),
            'linerelaxation': st.booleans(),
            'tol': gen.lgfloat(1e-10, 1e-5),
        }),
    })


# ------------------------------------------------- checker-side geometry
def resolve_axis(nodes, centres, mode, u):
    """-> (coordinate, expected_nan)."""
    n = len(nodes) - 1                      # cells; admissible nodes 1..n-1
    lo, hi = nodes[1], nodes[n-1]
    L = nodes[n] - nodes[0]
    if mode == 'node':
        return float(nodes[1 + int(u*(n-1))]), False
    if mode == 'lo':
        return float(lo), False
    if mode == 'hi':
        return float(hi), False
    if mode == 'near_node':
        k = 1 + int(u*(n-1))
        frac = u*(n-1) - int(u*(n-1))
        up = (k == 1) or (k != n-1 and frac < 0.5)
        return float(np.nextafter(nodes[k], np.inf if up else -np.inf)), False
    if mode == 'centre':
        return float(centres[1 + int(u*(n-2))]), False
    if mode == 'uniform':
        return float(min(max(lo + u*(hi-lo), lo), hi)), False
    if mode == 'inner':
        a, b = centres[1], centres[n-2]
        return float(min(max(a + u*(b-a), a), b)), False
    if mode == 'below_lo':
        return float(np.nextafter(lo, -np.inf)), True
    if mode == 'above_hi':
        return float(np.nextafter(hi, np.inf)), True
    if mode == 'outer_lo':
        return float(min(nodes[0] + u*(lo-nodes[0]),
                         np.nextafter(lo, -np.inf))), True
    if mode == 'outer_hi':
        return float(max(nodes[n] - u*(nodes[n]-hi),
                         np.nextafter(hi, np.inf))), True
    if mode == 'bnd_lo':
        return float(nodes[0]), True
    if mode == 'bnd_hi':
        return float(nodes[n]), True
    if mode == 'out_lo':
        return float(nodes[0] - L*10.0**(-6 + 7*u)), True
    if mode == 'out_hi':
        return float(nodes[n] + L*10.0**(-6 + 7*u)), True
    raise HarnessError(f"unknown position mode {mode}")


def resolve_point(grid, p):
    """-> dict(coo=(x, y, z, az, el), nan=bool, modes=[...])."""
    nodes = (grid.nodes_x, grid.nodes_y, grid.nodes_z)
    cents = (grid.cell_centers_x, grid.cell_centers_y, grid.cell_centers_z)
    xyz, isnan = [], False
    for ax in range(3):
        mode, u = p['pos'][ax]
        v, nn = resolve_axis(nodes[ax], cents[ax], mode, u)
        # generator self-check: the construction gives the intended side
        outside = v < nodes[ax][1] or v > nodes[ax][-2]
        if outside != nn:
            raise HarnessError(f"position mode {mode} produced {v} on the "
                               f"wrong side ({nodes[ax]})")
        xyz.append(v)
        isnan |= nn
    return {'coo': (xyz[0], xyz[1], xyz[2], float(p['az']), float(p['el'])),
            'nan': isnan, 'modes': [m for m, _ in p['pos']]}


def rot_own(az, el):
    a, e = np.deg2rad(az), np.deg2rad(el)
    return np.array([np.cos(a)*np.cos(e), np.sin(a)*np.cos(e), np.sin(e)])


def lin1d(p, x):
    """Own 1D hat-function weights on the sorted points p, p[0]<=x<=p[-1],
    and the mask of the points whose hat function may be touched when x or
    the points are perturbed by rounding (interval ends and their
    neighbours)."""
    i = int(np.searchsorted(p, x, side='right')) - 1
    i = min(max(i, 0), len(p)-2)
    t = (x - p[i])/(p[i+1] - p[i])
    w = np.zeros(len(p))
    w[i] = 1.0 - t
    w[i+1] = t
    hull = np.zeros(len(p))
    hull[max(i-1, 0):i+3] = 1.0
    return w, hull


def comp_points(grid, electric):
    n = (grid.nodes_x, grid.nodes_y, grid.nodes_z)
    c = (grid.cell_centers_x, grid.cell_centers_y, grid.cell_centers_z)
    out = []
    for k in range(3):
        if electric:   # edges: centre along the component, nodes across
            out.append(tuple(c[d] if d == k else n[d] for d in range(3)))
        else:          # faces: node along the component, centres across
            out.append(tuple(n[d] if d == k else c[d] for d in range(3)))
    return out


def own_weights(grid, xyz, electric):
    """Three flat (Fortran order) unrotated trilinear weight vectors and the
    three 0/1 hull vectors (entries that rounding of a weight can reach)."""
    out, hulls = [], []
    for pts in comp_points(grid, electric):
        (wx, hx), (wy, hy), (wz, hz) = (lin1d(pts[d], xyz[d])
                                        for d in range(3))
        w = wx[:, None, None]*wy[None, :, None]*wz[None, None, :]
        hl = hx[:, None, None]*hy[None, :, None]*hz[None, None, :]
        out.append(w.ravel('F'))
        hulls.append(hl.ravel('F'))
    return out, hulls


def kappa(grid):
    """Bound of the absolute rounding error of one interpolation weight:
    weights are quotients of coordinate differences, the coordinates
    themselves (nodes, centres) carry eps*|x|."""
    k = 1.0
    for nodes, h in zip((grid.nodes_x, grid.nodes_y, grid.nodes_z), grid.h):
        k = max(k, 1.0 + np.max(np.abs(nodes))/np.min(h))
    return 64*EPS*k


def face_avg_inv_mur(h, mur):
    """Two-cell volume-weighted mean of 1/mu_r on interior faces; zero on
    boundary faces (flat, refop face ordering)."""
    hx, hy, hz = h
    vol = hx[:, None, None]*hy[None, :, None]*hz[None, None, :]
    zeta = vol/(1.0 if mur is None else mur)
    out = []
    for ax in range(3):
        shp = list(vol.shape)
        shp[ax] += 1
        d = np.zeros(shp)
        sl_in = [slice(None)]*3
        sl_in[ax] = slice(1, -1)
        a = [slice(None)]*3
        b = [slice(None)]*3
        a[ax] = slice(0, -1)
        b[ax] = slice(1, None)
        d[tuple(sl_in)] = ((zeta[tuple(a)] + zeta[tuple(b)]) /
                           (vol[tuple(a)] + vol[tuple(b)]))
        out.append(d.ravel('F'))
    return np.concatenate(out)


# ------------------------------------------------------------- builders
def build_edge_field(grid, fs, freq, support, scale=1.0):
    """Random emg3d.Field on edges.  `freq` None -> dtype from spec."""
    import emg3d
    rng = gen.rng_of(fs['seed'], 31)
    ne = grid.n_edges
    cplx = fs['complex'] if freq is None else freq > 0
    def rnd(size):
        v = rng.standard_normal(size)
        if cplx:
            v = v + 1j*rng.standard_normal(size)
        return v
    kind = fs['kind']
    if kind == 'basis':
        sup = np.flatnonzero(support)
        cand = np.concatenate([sup, rng.integers(0, ne, size=max(1, sup.size))])
        j = int(cand[rng.integers(0, cand.size)])
        v = np.zeros(ne, dtype=complex if cplx else float)
        v[j] = rnd(1)[0]
    else:
        v = rnd(ne)
        if kind == 'scaled':
            v = v*10.0**rng.uniform(-4, 4, size=ne)
    v = v*scale
    if freq is None:
        f = emg3d.Field(grid, data=v)
    else:
        f = emg3d.Field(grid, data=v, frequency=freq)
    if fs['pec'] and kind != 'basis':
        gen.pec_zero(f.fx, f.fy, f.fz)
    return f


def make_receiver_arg(emg3d, pts, form, magnetic):
    Rx = emg3d.RxMagneticPoint if magnetic else emg3d.RxElectricPoint
    if form == 'rx':
        if len(pts) == 1:
            return Rx(pts[0]['coo'])
        return [Rx(p['coo']) for p in pts]
    if len(pts) == 1:
        return tuple(pts[0]['coo'])
    return tuple(np.array([p['coo'][k] for p in pts]) for k in range(5))


def sample(emg3d, field, pts, form, magnetic, method='linear'):
    arg = make_receiver_arg(emg3d, pts, form, magnetic)
    if form == 'rx':
        r = emg3d.fields.get_receiver(field, arg, method)
    else:
        r = field.get_receiver(arg, method=method)
    r = np.asarray(r).reshape(-1)
    if r.size != len(pts):
        raise Violation("receiver_count",
                        f"get_receiver returned {r.size} values for "
                        f"{len(pts)} receiver(s) passed as {form}")
    return r


def rot_class(rot):
    a = np.abs(rot)
    a[a < 1e-15] = 0        # cos(pi/2) of the checker's own rotation
    if np.any((a > 0) & (a <= 1e-10)):
        return 'tiny_factor(<=1e-10)'
    if np.any((a > 1e-10) & (a < 1e-2)):
        return 'small_factor(<1e-2)'
    if np.sum(a < 1e-15) >= 2:
        return 'axis_aligned'
    if np.any(a < 1e-15):
        return 'in_coordinate_plane'
    return 'generic'


def pos_label(modes):
    if 'hi' in modes:
        return 'on_second_last_node'
    if 'lo' in modes:
        return 'on_second_node'
    if 'near_node' in modes:
        return 'ulp_from_node'
    if 'node' in modes:
        return 'on_node'
    return 'interior'


def axis_relation(nodes, v):
    if v == nodes[1]:
        return 'on_second_node'
    if v == nodes[-2]:
        return 'on_second_last_node'
    if v == np.nextafter(nodes[1], np.inf):
        return 'ulp_above_second_node'
    if v == np.nextafter(nodes[-2], -np.inf):
        return 'ulp_below_second_last_node'
    if v in nodes:
        return 'on_node'
    return 'interior'


def nan_culprit(field, grid, coo, method='linear'):
    """Root cause bucket of an unexpected NaN: the axis whose coordinate,
    when moved to the second cell centre, makes the NaN disappear."""
    nodes = (grid.nodes_x, grid.nodes_y, grid.nodes_z)
    cents = (grid.cell_centers_x, grid.cell_centers_y, grid.cell_centers_z)
    found = []
    for d in range(3):
        c = list(coo)
        c[d] = float(cents[d][1])
        with warnings.catch_warnings():
            warnings.simplefilter('ignore')
            v = np.asarray(field.get_receiver(tuple(c), method=method))
        if np.all(np.isfinite(v)):
            found.append(f"{'xyz'[d]}:{axis_relation(nodes[d], coo[d])}")
    if len(found) == 1:
        return found[0]
    return 'no_single_axis' if not found else 'any_axis'


def nan_region_label(modes):
    out = []
    for d, m in enumerate(modes):
        if m in ('below_lo', 'outer_lo', 'bnd_lo'):
            out.append(f"{'xyz'[d]}:lower_outermost_cell")
        elif m in ('above_hi', 'outer_hi', 'bnd_hi'):
            out.append(f"{'xyz'[d]}:upper_outermost_cell")
        elif m == 'out_lo':
            out.append(f"{'xyz'[d]}:outside_below")
        elif m == 'out_hi':
            out.append(f"{'xyz'[d]}:outside_above")
    return '+'.join(out)


def functional(vals_c, abs_c, hull_c, kap, rot):
    """Own value, rounding tolerance and by-design drop allowance.

    abs_c = sum |f| |w_c|, hull_c = sum of |f| over the entries a rounding
    error of the weights (absolute size kap) can reach."""
    vals_c = np.asarray(vals_c)
    abs_c = np.asarray(abs_c, float)
    hull_c = np.asarray(hull_c, float)
    ar = np.abs(rot)
    ref = np.sum(rot*vals_c)
    tol0 = (C_EPS*np.sum(ar*abs_c) + 16*EPS*np.sum(abs_c) +
            kap*np.sum((ar + 16*EPS)*hull_c))
    small = ar <= DROP
    drop = np.sum(ar[small]*abs_c[small])
    return ref, tol0, drop


# ---------------------------------------------------------------- electric
def _check_point(name, r, ref_own, ip, tol0, drop, label, rcls, nan_diag):
    """Compare receiver r, own value, emg3d source inner product ip."""
    if not np.isfinite(r):
        raise Violation(f"nan_inside_domain:{nan_diag()}",
                        f"get_receiver ({name}) returned {r} for a position "
                        f"inside [second node, second-last node] ({label})")
    tol = tol0 + drop
    d_ro = abs(r - ref_own)
    if ip is not None:
        d_rs = abs(r - ip)
        d_so = abs(ip - ref_own)
        if d_rs > tol:
            if d_so <= tol0:
                who = 'receiver'
            elif d_ro <= tol:
                who = 'source_vector'
            else:
                who = 'both'
            raise Violation(
                f"{name}:receiver_ne_source_vector:{who}_off_own_weights",
                f"get_receiver={r!r} vs <field, source vector>={ip!r} "
                f"(own weights {ref_own!r}); |diff|={d_rs:.3e} > tol="
                f"{tol:.3e} (rounding {tol0:.2e} + dropped factors "
                f"{drop:.2e}); position {label}, orientation {rcls}")
    if d_ro > tol:
        raise Violation(
            f"{name}:receiver_ne_own_weights",
            f"get_receiver={r!r} and the source inner product agree with "
            f"each other but not with the checker's weights {ref_own!r}: "
            f"|diff|={d_ro:.3e} > {tol:.3e}; position {label}, {rcls}")


def case_electric(spec, rec):
    import emg3d
    grid = gen.build_grid(spec['grid'])
    pts = [resolve_point(grid, p) for p in spec['points']]
    ws = [own_weights(grid, p['coo'][:3], True) for p in pts]
    kap = kappa(grid)
    support = np.zeros(grid.n_edges, bool)
    for w, _ in ws:
        support |= np.concatenate(w) != 0
    field = build_edge_field(grid, spec['field'], None, support)
    f = np.asarray(field.field)
    fc = (f[:grid.n_edges_x], f[grid.n_edges_x:grid.n_edges_x+grid.n_edges_y],
          f[grid.n_edges_x+grid.n_edges_y:])
    with warnings.catch_warnings():
        warnings.simplefilter('ignore')
        r = sample(emg3d, field, pts, spec['form'], False)
    nontriv = False
    for k, (p, (w, hl)) in enumerate(zip(pts, ws)):
        rot = rot_own(p['coo'][3], p['coo'][4])
        vals = [np.sum(fc[c]*w[c]) for c in range(3)]
        absv = [np.sum(np.abs(fc[c])*np.abs(w[c])) for c in range(3)]
        hullv = [np.sum(np.abs(fc[c])*hl[c]) for c in range(3)]
        ref, tol0, drop = functional(vals, absv, hullv, kap, rot)
        rx = emg3d.RxElectricPoint(p['coo'])
        src = rx._adjoint_source(rx.coordinates)
        if type(src) is not emg3d.TxElectricPoint:
            raise Violation("electric:adjoint_source_class",
                            f"RxElectricPoint._adjoint_source gives "
                            f"{type(src).__name__}")
        v = emg3d.get_source_field(grid, src, frequency=None)
        ip = np.sum(f*np.asarray(v.field))
        label, rcls = pos_label(p['modes']), rot_class(rot)
        _check_point('electric', r[k], ref, ip, tol0, drop, label, rcls,
                     lambda: nan_culprit(field, grid, p['coo']))
        rec.cls(f"pos={label}", f"rot={rcls}")
        if sum(absv) > 0 and (spec['grid']['kind'] != 'uniform' or
                              rcls != 'axis_aligned'):
            nontriv = True
    rec.cls(f"field={spec['field']['kind']}",
            f"complex={np.iscomplexobj(f)}", f"form={spec['form']}",
            f"nrec={len(pts)}", f"widths={spec['grid']['kind']}")
    if nontriv:
        rec.nt([spec['grid']['seed'], spec['grid']['n'], spec['points'],
                spec['field']['seed']])
    rec.note({'shape': list(grid.shape_cells),
              'coo': [list(p['coo']) for p in pts],
              'values': [complex(x) for x in r]})


# ---------------------------------------------------------------- magnetic
def build_mag_model(emg3d, grid, mm, fs, scale):
    bg = gen.bg_cond(fs, scale)
    sx, sy, sz, _, epsr = gen.build_cond(mm['model'], grid.shape_cells, bg)
    rng = gen.rng_of(mm['mseed'], 41)
    if mm['mur'] == 'none':
        mur = None
        muc = 1.0
    elif mm['mur'] == 'const':
        muc = float(rng.uniform(0.5, 5))
        mur = np.full(grid.shape_cells, muc)
    else:
        muc = None
        mur = rng.uniform(0.5, 5, size=grid.shape_cells)
    m = mm['model']['mapping']
    model = emg3d.Model(grid, gen.map_forward(m, sx), gen.map_forward(m, sy),
                        gen.map_forward(m, sz), mu_r=mur, epsilon_r=epsr,
                        mapping=m)
    return model, mur, muc


class MagFunctional:
    """Checker-side magnetic sampling functional on an edge field."""

    def __init__(self, grid, mur, s):
        self.h = [np.asarray(x, float) for x in grid.h]
        self.C = refop.curl(*self.h)
        self.absCT = abs(self.C).T.tocsr()
        self.CT = self.C.T.tocsr()
        self.D = face_avg_inv_mur(self.h, mur)
        self.smu = s*mu_0
        nx, ny, nz = (len(x) for x in self.h)
        self.nf = [(nx+1)*ny*nz, nx*(ny+1)*nz, nx*ny*(nz+1)]
        self.grid = grid

    def vectors(self, xyz):
        """Per component c: edge vector g_c = C^T D P_c^T / (s mu0), its
        absolute-value counterpart and the same for the 0/1 hull of P_c."""
        w, hl = own_weights(self.grid, xyz, False)
        off = np.r_[0, np.cumsum(self.nf)]
        g, ga, gh = [], [], []
        for c in range(3):
            pc = np.zeros(off[-1])
            pc[off[c]:off[c+1]] = w[c]
            ph = np.zeros(off[-1])
            ph[off[c]:off[c+1]] = hl[c]
            g.append(self.CT @ (self.D*pc)/self.smu)
            ga.append(self.absCT @ (self.D*np.abs(pc))/abs(self.smu))
            gh.append(self.absCT @ (self.D*ph)/abs(self.smu))
        return g, ga, gh


def case_magnetic(spec, rec):
    import emg3d
    grid = gen.build_grid(spec['grid'])
    fs = spec['freq']
    freq, s = gen.freq_of(fs), gen.sval_of(fs)
    model, mur, muc = build_mag_model(emg3d, grid, spec['mm'], fs,
                                      spec['grid']['scale'])
    pts = [resolve_point(grid, p) for p in spec['points']]
    mf = MagFunctional(grid, mur, s)
    vecs = [mf.vectors(p['coo'][:3]) for p in pts]
    support = np.zeros(grid.n_edges, bool)
    kap = kappa(grid)
    for g, ga, gh in vecs:
        for c in range(3):
            support |= ga[c] != 0
    efield = build_edge_field(grid, spec['field'], freq, support)
    e = np.asarray(efield.field)
    with warnings.catch_warnings():
        warnings.simplefilter('ignore')
        hfield = emg3d.get_magnetic_field(model, efield)
        if hfield.electric or hfield.field.size != grid.n_faces:
            raise Violation("magnetic:hfield_not_on_faces",
                            "get_magnetic_field did not return a face field")
        r = sample(emg3d, hfield, pts, spec['form'], True)
    nontriv = False
    for k, (p, (g, ga, gh)) in enumerate(zip(pts, vecs)):
        rot = rot_own(p['coo'][3], p['coo'][4])
        vals = [np.sum(e*g[c]) for c in range(3)]
        absv = [np.sum(np.abs(e)*ga[c]) for c in range(3)]
        hullv = [np.sum(np.abs(e)*gh[c]) for c in range(3)]
        ref, tol0, drop = functional(vals, absv, hullv, kap, rot)
        ip = None
        if muc is not None:
            rx = emg3d.RxMagneticPoint(p['coo'])
            src = rx._adjoint_source(rx.coordinates)
            if type(src) is not emg3d.TxMagneticPoint:
                raise Violation("magnetic:adjoint_source_class",
                                f"RxMagneticPoint._adjoint_source gives "
                                f"{type(src).__name__}")
            sf = emg3d.get_source_field(grid, src, frequency=freq)
            ip = -np.sum(e*np.asarray(sf.field))/(s*mu_0)/muc
        label, rcls = pos_label(p['modes']), rot_class(rot)
        _check_point('magnetic', r[k], ref, ip, tol0, drop,
                     f"{label}, mu_r {spec['mm']['mur']}", rcls,
                     lambda: nan_culprit(hfield, grid, p['coo']))
        rec.cls(f"pos={label}", f"rot={rcls}")
        if sum(absv) > 0 and (spec['grid']['kind'] != 'uniform' or
                              rcls != 'axis_aligned'):
            nontriv = True
    rec.cls(f"field={spec['field']['kind']}", f"laplace={fs['laplace']}",
            f"mur={spec['mm']['mur']}", f"form={spec['form']}",
            f"nrec={len(pts)}", f"widths={spec['grid']['kind']}",
            f"pec={spec['field']['pec']}")
    if nontriv:
        rec.nt([spec['grid']['seed'], spec['grid']['n'], spec['points'],
                spec['field']['seed'], spec['mm']['mur']])
    rec.note({'shape': list(grid.shape_cells), 'sval': str(s),
              'coo': [list(p['coo']) for p in pts],
              'values': [complex(x) for x in r]})


# --------------------------------------------------------------------- nan
def case_nan(spec, rec):
    import emg3d
    grid = gen.build_grid(spec['grid'])
    fs = spec['freq']
    freq, s = gen.freq_of(fs), gen.sval_of(fs)
    magnetic = spec['magnetic']
    method = spec['method']
    if method == 'cubic' and min(grid.shape_cells) < 4:
        method = 'linear'       # a cubic spline needs >= 4 points per axis
    pts = [resolve_point(grid, p) for p in spec['points']]
    everything = np.ones(grid.n_edges, bool)
    fspec = dict(spec['field'])
    if fspec['kind'] == 'basis':
        fspec['kind'] = 'dense'
    if magnetic:
        model, mur, muc = build_mag_model(emg3d, grid, spec['mm'], fs,
                                          spec['grid']['scale'])
        efield = build_edge_field(grid, fspec, freq, everything)
        with warnings.catch_warnings():
            warnings.simplefilter('ignore')
            field = emg3d.get_magnetic_field(model, efield)
        mf = MagFunctional(grid, mur, s)
    else:
        field = build_edge_field(grid, fspec, None, everything)
    f = np.asarray(field.field)
    with warnings.catch_warnings():
        warnings.simplefilter('ignore')
        r = sample(emg3d, field, pts, spec['form'], magnetic, method)
    kind = 'magnetic' if magnetic else 'electric'
    for k, p in enumerate(pts):
        got_nan = bool(np.isnan(r[k]))
        modes = p['modes']
        if p['nan']:
            why = [m for m in modes if m in NAN_MODES]
            rec.cls(f"nan_expected:{why[0]}")
            if not got_nan:
                raise Violation(
                    f"number_in_nan_region:{nan_region_label(modes)}",
                    f"{kind} receiver at {p['coo'][:3]} (axis modes {modes}) "
                    f"returned {r[k]!r}; nodes x={grid.nodes_x[[0,1,-2,-1]]} "
                    f"y={grid.nodes_y[[0,1,-2,-1]]} "
                    f"z={grid.nodes_z[[0,1,-2,-1]]}")
            continue
        label = pos_label(modes)
        rec.cls(f"number_expected:{label}")
        if got_nan or not np.isfinite(r[k]):
            raise Violation(
                f"nan_inside_domain:"
                f"{nan_culprit(field, grid, p['coo'], method)}",
                f"{kind} receiver ({method}) at {p['coo'][:3]} (axis modes "
                f"{modes}) returned {r[k]!r} although every coordinate lies "
                f"in [second node, second-last node]; {len(pts)} receivers "
                f"in the call")
        if method != 'linear':
            continue
        rot = rot_own(p['coo'][3], p['coo'][4])
        if magnetic:
            # value check through the emg3d H field itself (face weights)
            w, hl = own_weights(grid, p['coo'][:3], False)
            off = np.r_[0, np.cumsum(mf.nf)]
        else:
            w, hl = own_weights(grid, p['coo'][:3], True)
            off = np.r_[0, grid.n_edges_x, grid.n_edges_x+grid.n_edges_y,
                        grid.n_edges]
        vals = [np.sum(f[off[c]:off[c+1]]*w[c]) for c in range(3)]
        absv = [np.sum(np.abs(f[off[c]:off[c+1]])*np.abs(w[c]))
                for c in range(3)]
        hullv = [np.sum(np.abs(f[off[c]:off[c+1]])*hl[c]) for c in range(3)]
        ref, tol0, drop = functional(vals, absv, hullv, kappa(grid), rot)
        if abs(r[k]-ref) > tol0 + drop:
            raise Violation(
                f"nan:value_ne_own_weights:{kind}",
                f"receiver {k} of {len(pts)} returned {r[k]!r}, own weights "
                f"give {ref!r} (tol {tol0+drop:.2e}); NaN pattern of the "
                f"call: {[bool(q['nan']) for q in pts]}")
    rec.cls(f"kind={kind}", f"method={method}", f"nrec={len(pts)}",
            f"form={spec['form']}",
            f"mix={'mixed' if 0 < sum(p['nan'] for p in pts) < len(pts) else 'pure'}")
    if any(p['nan'] for p in pts):
        rec.nt([spec['grid']['seed'], spec['grid']['n'], spec['points'],
                magnetic, method])
    rec.note({'shape': list(grid.shape_cells), 'method': method,
              'coo': [list(p['coo'][:3]) for p in pts],
              'expected_nan': [bool(p['nan']) for p in pts]})


# ------------------------------------------------------------- reciprocity
def case_reciprocity(spec, rec):
    """Source/receiver exchange.

    Let A be the (complex-)symmetric system matrix on the interior edges
    (refop.assemble; emg3d.solve solves A e = sfield with e = 0 on the PEC
    boundary), q_i the unit sampling functional of point i (electric: the
    trilinear weights times rotation; magnetic, mu_r = 1: C^T P^T rot/(s mu0))
    so that response(e; i) = q_i^T e, and b_i = get_source_field(...) =
    -s mu0 q_i the source term of the same point (this is the transposition
    statement of the other sub-checks).  For the computed fields e_i with
    residuals rho_i = b_i - A e_i:

        a = q_2^T e_1 = -b_2^T e_1/(s mu0)
          = -(A e_2 + rho_2)^T e_1/(s mu0)
        b = q_1^T e_2 = -(A e_1 + rho_1)^T e_2/(s mu0)
        a - b = (e_2^T rho_1 - e_1^T rho_2)/(s mu0)       [A = A^T, exactly]

    (the second-order terms rho^T A^-1 rho cancel by symmetry, so this is an
    identity, not only a first-order estimate).  Tests:

    (a) |a - b - (e_2^T rho_1 - e_1^T rho_2)/(s mu0)| <= rounding floor, with
        rho from the checker's operator, for every outcome of the solver;
        hence |a-b| <= (|e_2^T rho_1| + |e_1^T rho_2|)/|s mu0| + floor.
    (b) if both solves report success with tolerance tol, Cauchy-Schwarz and
        ||rho_i|| <= tol ||b_i|| give
        |a-b| <= tol (||e_2|| ||b_1|| + ||e_1|| ||b_2||)/|s mu0| + floor:
        "unchanged up to the solver tolerance".
    """
    import emg3d
    h, origin = gen.build_widths(spec['grid'])
    grid = emg3d.TensorMesh(h, origin=origin)
    fs = spec['freq']
    freq, s = gen.freq_of(fs), gen.sval_of(fs)
    smu = s*mu_0
    kind = spec['kind']
    mspec = dict(spec['model'])
    if kind == 'mm':
        mspec['mur'] = False      # TxMagneticPoint: documented mu_r = 1 only
    bg = gen.bg_cond(fs, spec['grid']['scale'])
    model, (sx, sy, sz, mur, epsr) = gen.build_model(grid, mspec, bg)
    case = mspec['case']
    rsy = sy if case in ('HTI', 'triaxial') else sx
    rsz = sz if case in ('VTI', 'triaxial') else sx
    A, interior, C, Mf, Me = refop.assemble(*h, sx, rsy, rsz, mur, epsr, s)
    absA = refop.absmat(A)
    pts = [resolve_point(grid, spec['p1']), resolve_point(grid, spec['p2'])]
    Tx = emg3d.TxElectricPoint if kind == 'ee' else emg3d.TxMagneticPoint
    cfg = spec['cfg']
    es, bs, infos = [], [], []
    for p in pts:
        with warnings.catch_warnings():
            warnings.simplefilter('ignore')
            b = emg3d.get_source_field(grid, Tx(p['coo']), frequency=freq)
        buf = io.StringIO()
        with contextlib.redirect_stdout(buf), warnings.catch_warnings():
            warnings.simplefilter('ignore')
            e, info = emg3d.solve(
                model, b, sslsolver=cfg['sslsolver'], cycle=cfg['cycle'],
                semicoarsening=cfg['semicoarsening'],
                linerelaxation=cfg['linerelaxation'], tol=cfg['tol'],
                maxit=50, verb=-1, return_info=True)
        ev = np.asarray(e.field)
        if not np.all(np.isfinite(ev)):
            raise Inconclusive("solver returned a non-finite field (C01)")
        if np.any(ev[~interior] != 0):
            raise Inconclusive("solver returned non-zero PEC values (C01)")
        es.append(e)
        bs.append(np.asarray(b.field))
        infos.append(info)

    def respond(e, p):
        with warnings.catch_warnings():
            warnings.simplefilter('ignore')
            if kind == 'ee':
                fld = e
            else:
                fld = emg3d.get_magnetic_field(model, e)
            return complex(np.asarray(
                emg3d.fields.get_receiver(fld, tuple(p['coo']), 'linear')))
    a = respond(es[0], pts[1])
    b = respond(es[1], pts[0])
    if not (np.isfinite(a) and np.isfinite(b)):
        which = 1 if not np.isfinite(a) else 0
        fld = es[1-which] if kind == 'ee' else \
            emg3d.get_magnetic_field(model, es[1-which])
        raise Violation(
            f"nan_inside_domain:{nan_culprit(fld, grid, pts[which]['coo'])}",
            f"reciprocity ({kind}): responses {a}, {b} at interior points")
    e1, e2 = np.asarray(es[0].field), np.asarray(es[1].field)
    rho, fl = [], []
    for e, bb in ((e1, bs[0]), (e2, bs[1])):
        r = bb - A @ e
        r[~interior] = 0
        rho.append(r)
        fl.append((absA @ np.abs(e) + np.abs(bb))*interior)
    # |sampling functionals| per component for the rounding floor and for
    # the components get_receiver skips by design (factor <= 1e-10)
    ne = [grid.n_edges_x, grid.n_edges_y, grid.n_edges_z]
    off = np.r_[0, np.cumsum(ne)]
    mfun = MagFunctional(grid, None, s) if kind == 'mm' else None
    kap = kappa(grid)
    q_abs, drops = [], []
    for p in pts:
        rot = np.abs(rot_own(p['coo'][3], p['coo'][4]))
        if kind == 'ee':
            w, hl = own_weights(grid, p['coo'][:3], True)
            qa, qh = [], []
            for c in range(3):
                z = np.zeros(off[-1])
                z[off[c]:off[c+1]] = np.abs(w[c])
                qa.append(z)
                z = np.zeros(off[-1])
                z[off[c]:off[c+1]] = hl[c]
                qh.append(z)
        else:
            _, qa, qh = mfun.vectors(p['coo'][:3])
        q_abs.append(sum(rot[c]*qa[c] for c in range(3)) +
                     16*EPS/C_EPS*sum(qa) +
                     kap/C_EPS*sum((rot[c] + 16*EPS)*qh[c] for c in range(3)))
        drops.append(sum(rot[c]*qa[c] for c in range(3) if rot[c] <= DROP)
                     + np.zeros(off[-1]))
    pred = (np.sum(e2*rho[0]) - np.sum(e1*rho[1]))/smu
    floor_ab = (C_EPS*(np.sum(np.abs(e1)*q_abs[1]) +
                       np.sum(np.abs(e2)*q_abs[0])) +
                np.sum(np.abs(e1)*drops[1]) + np.sum(np.abs(e2)*drops[0]))
    floor_res = C_EPS*(np.sum(np.abs(e2)*fl[0]) +
                       np.sum(np.abs(e1)*fl[1]))/abs(smu)
    # (a) identity through the actual residuals
    da = abs((a - b) - pred)
    if da > floor_ab + floor_res:
        raise Violation(
            f"reciprocity:{kind}:residual_identity",
            f"a={a!r}, b={b!r}: a-b={a-b!r} but the residuals of the two "
            f"solves predict {pred!r}; mismatch {da:.3e} > rounding floor "
            f"{floor_ab+floor_res:.3e}")
    bound_a = (abs(np.sum(e2*rho[0])) + abs(np.sum(e1*rho[1])))/abs(smu)
    if abs(a-b) > 1.01*bound_a + floor_ab + floor_res:
        raise Violation(
            f"reciprocity:{kind}:exceeds_residual_bound",
            f"|a-b|={abs(a-b):.3e} > 1.01*{bound_a:.3e} + floor")
    ok = all(i['exit'] == 0 for i in infos)
    bound_b = None
    if ok:
        n1, n2 = np.linalg.norm(bs[0]), np.linalg.norm(bs[1])
        f1 = C_EPS*np.linalg.norm(fl[0])
        f2 = C_EPS*np.linalg.norm(fl[1])
        bound_b = ((cfg['tol']*n1*(1+1e-9) + f1)*np.linalg.norm(e2) +
                   (cfg['tol']*n2*(1+1e-9) + f2)*np.linalg.norm(e1))/abs(smu)
        if abs(a-b) > bound_b + floor_ab:
            raise Violation(
                f"reciprocity:{kind}:exceeds_solver_tolerance",
                f"both solves report success with tol={cfg['tol']:.2e} but "
                f"|a-b|={abs(a-b):.3e} > tol*(||e2|| ||b1|| + ||e1|| ||b2||)/"
                f"|s mu0| = {bound_b:.3e}; a={a!r}, b={b!r}; true relative "
                f"residuals {np.linalg.norm(rho[0])/n1:.2e}, "
                f"{np.linalg.norm(rho[1])/n2:.2e}")
    same = pts[0]['coo'] == pts[1]['coo']
    mag = max(abs(a), abs(b))
    rel = abs(a-b)/mag if mag > 0 else 0.0
    src_on_bnd = any(np.any(bb[~interior] != 0) for bb in bs)
    rec.cls(f"kind={kind}", f"converged={ok}", f"{kind}:converged={ok}",
            f"same_point={same}", f"case={case}",
            f"laplace={fs['laplace']}", gen.regime(fs),
            f"ssl={cfg['sslsolver']}", f"source_touches_boundary={src_on_bnd}",
            f"mur={mur is not None}",
            "rel_diff=" + ('0' if rel == 0 else '<1e-12' if rel < 1e-12 else
                           '<1e-8' if rel < 1e-8 else '<1e-4' if rel < 1e-4
                           else '>=1e-4'))
    if ok and mag > 0:
        q = bound_b/mag
        rec.cls("bound/|a|=" + ('<1e-6' if q < 1e-6 else '<1e-2' if q < 1e-2
                                else '>=1e-2'))
        if not same and q < 1e-2:
            rec.nt([spec['grid']['seed'], spec['grid']['n'], spec['p1'],
                    spec['p2'], spec['model']['seed'], kind])
    rec.note({'shape': list(grid.shape_cells), 'kind': kind, 'a': a, 'b': b,
              'rel_diff': rel, 'tol': cfg['tol'], 'converged': ok,
              'bound_residual': bound_a, 'bound_tol': bound_b,
              'floor': floor_ab+floor_res})


SUBS = {'electric': case_electric, 'magnetic': case_magnetic,
        'nan': case_nan, 'reciprocity': case_reciprocity}


def run(ctx):
    ctx.regression(SUBS)
    ctx.explore('electric', electric_strategy(), case_electric,
                ctx.n(1500, 1500))
    ctx.explore('magnetic', magnetic_strategy(), case_magnetic,
                ctx.n(800, 1000))
    ctx.explore('nan', nan_strategy(), case_nan, ctx.n(800, 800))
    ctx.explore('reciprocity', reciprocity_strategy(), case_reciprocity,
                ctx.n(150, 200), shrink=ctx.quick)

"""C16 - automatic gridding meets its stated postconditions or fails loudly.

Two sub-checks share one generator and one 1-D oracle:

* ``oaw``: emg3d.meshes.origin_and_widths (1-D, fast; most cases),
* ``cm`` : emg3d.construct_mesh (3-D; per-direction tuple/dict/None inputs,
  property lists of length 1,2,3,4,7), checked direction by direction after
  the checker's own routing of the documented input formats.

The oracle recomputes skin depth, wavelength, survey domain and computational
domain from the inputs (no emg3d helper is called for that) and then checks
every postcondition of the property statement on the returned origin/widths,
or that the documented error was raised.
"""
import contextlib
import copy
import io
import warnings

import numpy as np
from hypothesis import strategies as st
from scipy.constants import mu_0

from vp import gen, simgen
from vp.framework import HarnessError, Violation

RULE = ("Inputs are built from dimensionless draws (domain extents, vector "
        "cell sizes, sea-surface height in units of the minimum cell width; "
        "max_buffer in units of the wavelength) around a drawn frequency "
        "(1e-3..1e3 Hz, 25 % Laplace), conductivities (1e-4..10 S/m, 1e-8 "
        "for air) in one of the six mappings, centre, stretching pair, width "
        "limits (None/float/[min,max]), points per skin depth, lambda_factor, "
        "lambda_from_center, center_on_edge (True/False/unset), optional "
        "node vector (alone, with wider/narrower/node-aligned domain or with "
        "distance), optional sea surface, and a cell-number list (<=256) "
        "placed around a checker-side estimate of the required cells (about "
        "8 % deliberately too small, 3 % documented-invalid input).  75 % of "
        "the cases call origin_and_widths (1-D), 25 % construct_mesh with "
        "tuple/dict/single-value formats and property lists of length "
        "1,2,3,4,7.  Non-trivial = a mesh was returned and at least one of "
        "{node vector, sea surface, per-direction options} was active; "
        "distinct by the complete effective inputs of the call.  Added "
        "after the audit: UTM-like x/y centres (3e5..7e6), mapping as Map "
        "instance, default cell_numbers (argument omitted), reversed / "
        "duplicated cell lists, ndarray/tuple leaves for domain, distance, "
        "stretching, limits, center and properties in construct_mesh, "
        "verb in {-1,0,1} and raise_error=False for origin_and_widths, "
        "documented-invalid input in ONE direction of construct_mesh, sea "
        "surfaces designed to be fitted (whole number >= 2 of minimum "
        "widths + 0.02 above a centre on an edge), 1/4 of the calls repeated "
        "with the same argument objects.  Sub-check gmc enumerates "
        "good_mg_cell_nr(max_nr, max_lowest 2..19, min_div 0..6) against the "
        "documented formula, hlp compares skin_depth (with mu_r), wavelength "
        "and cell_width (pps 0.5..20, limits None/float/pair) with the "
        "documented formulas; sub-check ego calls estimate_gridding_opts "
        "with generated model (all cases/mappings), point-source survey and "
        "a drawn subset of user-given options (domain/distance/vector per "
        "direction, vector as 'xyz' string, 3-tuples/dicts, mapping str/Map, "
        "unknown key).")
ASSUMPTIONS = [
    "4b: two neighbouring cells whose common node lies strictly inside the "
    "survey domain obey stretching[0] (documented: 'first value is the "
    "maximum stretching for the survey domain'), with the 1.1/1.25 sea "
    "allowance; cells inside a retained user vector excluded as before",
    "5: with a sea surface the centre is still required on a node when "
    "center_on_edge is True/unset and no user vector is retained (the "
    "centre nodes are then a 'vector' whose widths stay untouched); with "
    "center_on_edge=False and a sea surface the centre stays undecided",
    "6b: between the first and last node of a user vector inside the "
    "user's domain (>= 3 such nodes) the mesh has no other node",
    "7b: a sea surface designed to be fitted (gap to the centre block = "
    "(n+0.02) minimum widths, n >= 1, stretching[1] >= 1.05, centre on an "
    "edge, no user vector) must be within 1e-6 minimum widths of a node "
    "whatever the warning says: the docstring promises the attempt and "
    "names only 'too close to the center' as reason for failing; a run in "
    "which the sea surface is a node in < 30 % of the meshes with a sea "
    "surface is a harness error",
    "no gridding function may change its argument objects (deep comparison "
    "before/after, dtype included) and a second call with the same objects "
    "returns the identical mesh (Simulation re-uses gridding_opts)",
    "verb: 0 and -1 print nothing, -1 returns (origin, widths, info str), "
    "1 prints; raise_error=False returns (None, None[, info]) exactly when "
    "the RuntimeError would have been raised; construct_mesh attaches "
    "construct_mesh_info",
    "ego oracle (checker code): passed-along options come back with the "
    "same per-direction meaning (3-sequence or x/y/z dict); frequency = "
    "10**mean(log10 f); centre = mean of the (point) source locations; "
    "buffer properties = forward map of the lowest conductivity over all "
    "present components of the six outermost cell layers, the first "
    "property only within the model's range (its rule is not documented); "
    "domain = given domain > distance > vector (None accepted for the last "
    "two: construct_mesh derives the same), else survey extent + 10 % with "
    "the documented 1:3 horizontal rule (symmetric expansion, 0.5 m slack "
    "per side: the code rounds to whole metres) and for z the extent with "
    "or without the 10 % (text and code differ; both accepted), at least "
    "min(larger horizontal dimension, 10 km)/2, expanded 9:1 down:up (+-0.5 "
    "m); unknown key -> TypeError.  input_sc2 (deprecated) not used",
    "oracle formulas (checker code, no emg3d helper): skin depth "
    "sqrt(2/(omega sigma mu0)), wavelength 2 pi delta, minimum width "
    "clip(delta/pps, limits), survey domain = domain > distance > vector "
    "(raised to the sea surface), buffer = min(lambda_factor*lambda, "
    "max_buffer) or the documented from-centre rule capped at "
    "center +- max_buffer",
    "for negative (Laplace) frequencies the skin depth is the value for |f| "
    "divided by sqrt(2 pi): this convention exists only as code in "
    "meshes.skin_depth (no documented formula) and is taken over as is",
    "property routing of construct_mesh as documented for lists of length "
    "1,2,3,4,7; mappings inverted by the checker's own formulas",
    "tolerances: coverage 1e-9 x (mesh extent or largest |coordinate|); node "
    "coincidences 4 n eps x extent (accumulation) + 1e-9 x (|coordinate| + "
    "smallest width); width ratios 1e-9 relative; sea surface additionally "
    "1e-8 m absolute (the code's own isclose test) + 1e-7 smallest widths",
    "the stretching bound is max(stretching) (with a sea surface: at least "
    "1.1 x stretching[0] without and 1.25 x stretching[0] with a node "
    "vector); ratios between cells that both lie inside the retained part "
    "of a user vector are the user's and are not checked",
    "a provided vector is considered dropped (documented: fewer than two "
    "cells in the domain) only if fewer than three of its nodes remain "
    "after trimming to the domain; vector nodes are required to be mesh "
    "nodes when at least three of them lie inside the user's domain",
    "the property does not promise that a mesh is found whenever one "
    "exists: a RuntimeError('No suitable grid found') is always accepted "
    "(a run in which fewer than 60 % of the inputs designed to be feasible "
    "return a mesh is reported as harness error, not as violation)",
]
SHARDS = {'quick': 1, 'thorough': 16}

DIRS = 'xyz'
NO_GRID = "No suitable grid found"
SEA_WARN = "Seasurface is not at an actual boundary"

# cell_numbers documented as the default of construct_mesh
DEFAULT_CELLS = [16, 24, 32, 40, 48, 64, 80, 96, 128, 160, 192, 256, 320, 384,
                 512, 640, 768, 1024]

# switches of the oracles / generator branches added after the first audit
# (all measured quiet on the unchanged tree; set one to False to disable it
# if it ever turns out to demand more than emg3d promises)
ENABLE_S0_IN_DOMAIN = True      # 4b: stretching[0] inside the survey domain
ENABLE_CENTER_WITH_SEA = True   # 5: centre = node with sea + centre on edge
ENABLE_VECTOR_EXACT = True      # 6b: no foreign node inside the vector span
ENABLE_SEA_FIT = True           # 7b: designed-to-fit sea surface is a node
ENABLE_IMMUTABLE = True         # inputs unchanged by the call; same result
#                                 when called again with the same objects

# designed-feasible bookkeeping (per process)
_FEAS = {'designed': 0, 'mesh': 0}
# sea-surface bookkeeping (per process): how often the sea surface became a
# node (a run in which it hardly ever does exercises only the warning)
_SEA = {'cases': 0, 'node': 0, 'fit_designed': 0}


# ======================================================================
# Strategies (JSON-able specs only)
# ======================================================================
def W(*pairs):
    vals = []
    for v, w in pairs:
        vals += [v]*w
    return st.sampled_from(vals)


COND = st.one_of(gen.lgfloat(1e-4, 10), gen.lgfloat(1e-4, 10),
                 gen.lgfloat(1e-4, 10), gen.lgfloat(1e-2, 3),
                 gen.lgfloat(1e-2, 3), st.just(1e-8))

COMMON = st.fixed_dictionaries({
    'f': gen.lgfloat(1e-3, 1e3),
    'laplace': W((False, 3), (True, 1)),
    'mapping': st.sampled_from(gen.MAPPINGS + ['omit']),
    'cond': st.lists(COND, min_size=7, max_size=7),
    'lf': st.one_of(st.none(), gen.lgfloat(0.05, 2), gen.lgfloat(0.05, 2)),
    'mb': st.one_of(st.none(), gen.lgfloat(0.05, 5), gen.lgfloat(0.05, 5)),
    'lfc': W((False, 7), (True, 3)),
    # mapping passed as a Map instance (documented {str, Map}) instead of
    # its name
    'mapping_obj': W((False, 3), (True, 1)),
})

VEC = st.fixed_dictionaries({
    'n': st.integers(3, 24),
    'kind': st.sampled_from(['uniform', 'random', 'stretched']),
    'w': gen.lgfloat(0.3, 3),
    'seed': gen.SEED,
    'cfrac': st.floats(0.0, 1.0),
    'snap': st.booleans(),
    # (Hypothesis over-represents the ends of a sampled_from list; the
    # lists are ordered so that this favours the interesting values)
    'dom': W(('at_node', 2), ('wider', 2), ('none', 3), ('narrower', 2),
             ('distance', 2), ('mixed', 2)),
    'e0': gen.lgfloat(0.5, 30), 'e1': gen.lgfloat(0.5, 30),
    't0': st.floats(0.0, 1.0), 't1': st.floats(0.0, 1.0),
})

SEA = st.fixed_dictionaries({
    'k': st.one_of(gen.lgfloat(0.2, 60), st.floats(0.5, 5.0)),
    # 'int+': whole number of minimum widths (>= 2) plus 0.02: with the centre
    # on an edge and no user vector the sea surface can be fitted (7b)
    'snap': W(('none', 2), ('int', 1), ('half', 1), ('int+', 3)),
    'ref': W(('center', 2), ('vtop', 1)),
})

DIR = st.fixed_dictionaries({
    'center': st.one_of(st.just(0.0), st.floats(-5000, 5000),
                        st.floats(-5000, 5000)),
    # UTM-like horizontal coordinates (used for x/y of construct_mesh and
    # for origin_and_widths without sea surface)
    'utm': W((False, 4), (True, 1)),
    'ucenter': st.floats(3e5, 7e6),
    'pps': st.one_of(st.none(), st.sampled_from([1, 2, 3, 5, 10]),
                     st.floats(1, 10)),
    'lim': st.fixed_dictionaries({
        'kind': W(('none', 5), ('float', 2), ('pair', 3)),
        'a': gen.lgfloat(0.3, 3), 'b': gen.lgfloat(1.0, 4)}),
    'st': st.fixed_dictionaries({
        'kind': W(('ordered', 4), ('omit', 1), ('raw', 1), ('ordered', 4)),
        's0': st.one_of(st.just(1.0), st.floats(1.0, 1.02),
                        st.floats(1.02, 1.5)),
        's1': st.one_of(st.floats(1.0, 2.0), st.floats(1.05, 1.5))}),
    'dommode': W(('domain', 3), ('both', 1), ('distance', 3), ('domain', 2)),
    'cpos': W(('inside', 8), ('edge', 2), ('outside', 2), ('inside', 8)),
    'dl': gen.lgfloat(0.3, 100), 'dr': gen.lgfloat(0.3, 100),
    'vec': VEC, 'use_vec': W((True, 1), (False, 1)),
    'coe': st.sampled_from([True, False, True, False, None]),
    'sea': SEA, 'use_sea': W((True, 2), (False, 3)),
})

CELLS = st.fixed_dictionaries({
    'kind': W(('good_window', 6), ('good_full', 2), ('infeasible', 1),
              ('ints', 3), ('default', 2)),
    # order in which the list is handed over (documented: "list of possible
    # numbers of cells"; nothing asks for a sorted or duplicate-free list)
    'order': W(('sorted', 3), ('reversed', 1), ('dup', 1)),
    'max_lowest': st.sampled_from([2, 3, 5, 5, 7]),
    'min_div': st.sampled_from([1, 2, 3, 3]),
    'lo': st.sampled_from([0.5, 0.9, 1.0, 1.2, 1.3, 1.5]),
    'm': st.integers(1, 4),
    'offs': st.lists(st.integers(0, 24), min_size=1, max_size=3),
})

OAW_SPEC = st.fixed_dictionaries({
    'common': COMMON,
    'dir': DIR,
    'nprop': st.sampled_from([1, 2, 3, 3]),
    'scalar': st.booleans(),
    'cells': CELLS,
    'container': st.sampled_from(['list', 'tuple', 'array']),
    'invalid': W((None, 16), ('sea_below', 1), ('sea_equal', 1),
                 ('no_domain', 1), (None, 16)),
    # call a second time with the very same argument objects
    'twice': W((False, 3), (True, 1)),
    # force the designed-to-fit sea-surface layout (check_dir 7b)
    'sea_design': W((False, 5), (True, 1)),
    'verb': W((0, 4), (-1, 1), (1, 1)),
    'raise_error': W((True, 4), (False, 1)),
})

FMT = st.sampled_from(['tuple', 'dict', 'same'])
CM_SPEC = st.fixed_dictionaries({
    'common': COMMON,
    'dirs': st.lists(DIR, min_size=3, max_size=3),
    'nprop': st.sampled_from([1, 2, 3, 4, 7, 3, 4, 7]),
    'scalar': st.booleans(),
    'cells': CELLS,
    'same_geom': W((False, 5), (True, 1)),
    # x and y share the centre coordinate (the usual (0, 0, z) layout) while
    # everything else stays independent per direction
    'same_center_xy': W((False, 2), (True, 1)),
    # y repeats every input of x and has ONE more per-direction input that
    # x leaves at None (e.g. vector=(None, yvec, None)): two directions that
    # look identical when only x's inputs are compared
    'y_extends_x': W((None, 5), ('vector', 1), ('stretching', 1),
                     ('limits', 1), ('pps', 1), ('coe', 1)),
    'fmt': st.fixed_dictionaries({
        'domain': FMT, 'distance': FMT, 'vector': FMT, 'stretching': FMT,
        'min_width_limits': FMT, 'min_width_pps': FMT,
        'center_on_edge': FMT}),
    # container of the [min, max] leaves of domain / distance / stretching /
    # min_width_limits, of center and of the property list
    'leaf': st.sampled_from(['list', 'tuple', 'array']),
    'center_as': st.sampled_from(['tuple', 'list', 'array']),
    'props_as': st.sampled_from(['list', 'tuple', 'array']),
    'twice': W((False, 4), (True, 1)),
    'invalid': W((None, 20), ('sea_below', 1), ('sea_equal', 1),
                 ('no_domain_y', 1), (None, 20)),
    'sea_design': W((False, 4), (True, 1)),
})


# ======================================================================
# Oracle side: own formulas
# ======================================================================
def own_skin_depth(f, cond):
    sd = np.sqrt(2.0/(2.0*np.pi*abs(f)*np.asarray(cond, float)*mu_0))
    if f < 0:                       # emg3d's Laplace convention (ASSUMPTIONS)
        sd = sd/np.sqrt(2.0*np.pi)
    return sd


def own_dmin(delta0, pps, limits):
    w = float(delta0)/float(pps)
    if limits is None:
        return w
    if isinstance(limits, (int, float)):
        return float(limits)
    return min(max(w, float(limits[0])), float(limits[1]))


def derive(E):
    """Everything the postconditions refer to, from the effective inputs of
    one direction.  E['props'] = [p_minwidth, p_negative, p_positive]."""
    f = E['frequency']
    cond = gen.map_backward(E['mapping'], np.array(E['props'], float))
    sd = own_skin_depth(f, cond)
    dmin = own_dmin(sd[0], E['pps'], E['limits'])
    c = float(E['center'])
    vec = None if E['vector'] is None else np.asarray(E['vector'], float)
    if E['domain'] is not None:
        dom = [float(E['domain'][0]), float(E['domain'][1])]
        src = 'domain'
    elif E['distance'] is not None:
        dom = [c-abs(float(E['distance'][0])), c+abs(float(E['distance'][1]))]
        src = 'distance'
    elif vec is not None:
        dom = [float(vec.min()), float(vec.max())]
        src = 'vector'
    else:
        return {'dom': None, 'dmin': dmin, 'sd': sd}
    dom_user = list(dom)
    sea = E['seasurface']
    if sea is not None:
        dom[1] = max(dom[1], float(sea))
    wl = float(E['lambda_factor'])*2.0*np.pi*sd[1:]
    mb = float(E['max_buffer'])
    bind = ['', '']
    if E['lfc']:
        cd = [0.0, 0.0]
        for k, sgn in ((0, -1.0), (1, 1.0)):
            a = abs(dom[k]-c)
            b = max(0.0, (2.0*wl[k]-a)/2.0)
            cd[k] = dom[k] + sgn*b
            bind[k] = 'wavelength' if b > 0 else 'survey_domain'
        if c-mb > cd[0]:
            cd[0] = c-mb
            bind[0] = 'max_buffer'
        if c+mb < cd[1]:
            cd[1] = c+mb
            bind[1] = 'max_buffer'
    else:
        cd = [dom[0]-min(wl[0], mb), dom[1]+min(wl[1], mb)]
        bind = ['wavelength' if wl[k] <= mb else 'max_buffer'
                for k in (0, 1)]
    req = [min(dom[0], cd[0]), max(dom[1], cd[1])]
    out = {'dom': dom, 'dom_user': dom_user, 'src': src, 'cd': cd,
           'req': req, 'bind': bind, 'dmin': dmin, 'sd': sd, 'wl': wl,
           'vec': vec, 'tv': None, 'vin': None}
    if vec is not None:
        n = vec.size
        vin = vec[(vec >= dom_user[0]) & (vec <= dom_user[1])]
        i0 = max(0, int(np.sum(vec <= dom_user[0]))-1)
        i1 = n-1-max(0, int(np.sum(vec >= dom_user[1]))-1)
        tv = vec[i0:i1+1]
        out['vin'] = vin
        out['tv'] = tv if tv.size >= 3 else None
    return out


def _near(nodes, x):
    """distance of x (array) to the nearest entry of sorted nodes."""
    x = np.atleast_1d(np.asarray(x, float))
    i = np.clip(np.searchsorted(nodes, x), 1, nodes.size-1)
    return np.minimum(np.abs(nodes[i]-x), np.abs(nodes[i-1]-x))


def check_dir(E, x0, hx, sea_warned, tag=''):
    """The postconditions for one direction; raises Violation."""
    D = derive(E)

    def V(sig, msg, **kw):
        det = {'inputs': E, 'x0': x0, 'hx': hx, 'derived': {
            k: D.get(k) for k in ('dom', 'cd', 'req', 'dmin', 'sd', 'bind')}}
        det.update(kw)
        return Violation(sig + tag, msg, det)

    try:
        hx = np.array(hx, dtype=float)
        x0 = float(x0)
    except (TypeError, ValueError):
        raise V('bad_return', f"origin/widths not numeric: {x0!r}, {hx!r}")
    if hx.ndim != 1 or hx.size == 0:
        raise V('bad_return', f"widths of shape {hx.shape}")
    vecmode = 'vector' if D['tv'] is not None else 'novector'
    seamode = 'sea' if E['seasurface'] is not None else 'nosea'

    # 1. permitted cell count ------------------------------------------
    permitted = sorted(set(int(k) for k in E['cell_numbers']))
    if hx.size not in permitted:
        raise V('cell_count_not_permitted',
                f"{hx.size} cells, permitted {permitted}")
    # 2. positive widths -------------------------------------------------
    if not np.all(np.isfinite(hx)) or not np.isfinite(x0):
        raise V('nonfinite_mesh', "non-finite origin or widths")
    if not np.all(hx > 0):
        raise V('nonpositive_width', f"min width {hx.min()}")
    nodes = x0 + np.r_[0.0, np.cumsum(hx)]
    scale = max(abs(nodes[0]), abs(nodes[-1]), nodes[-1]-nodes[0])
    tol = 1e-9*scale                    # coverage (far ends of the mesh)
    # node coincidences: accumulation error of the cumulative sum plus a
    # relative slack on the coordinate and the smallest cell
    err = 4*hx.size*np.finfo(float).eps*scale
    hmin = float(hx.min())

    def tolx(x):
        return err + 1e-9*(abs(float(x)) + hmin)
    # 3. coverage --------------------------------------------------------
    rule = 'from_center' if E['lfc'] else 'from_domain'
    for k, side in ((0, 'left'), (1, 'right')):
        miss_dom = (nodes[0]-D['dom'][0]) if k == 0 else \
            (D['dom'][1]-nodes[-1])
        if miss_dom > tol:
            raise V(f"survey_domain_not_covered:{side}:{D['src']}:{seamode}",
                    f"mesh [{nodes[0]}, {nodes[-1]}] does not contain the "
                    f"survey domain {D['dom']} (short by {miss_dom})")
        miss = (nodes[0]-D['req'][0]) if k == 0 else (D['req'][1]-nodes[-1])
        if miss > tol:
            raise V(f"buffer_not_covered:{side}:{rule}:{D['bind'][k]}",
                    f"mesh [{nodes[0]}, {nodes[-1]}] does not contain the "
                    f"computational domain {D['cd']} (short by {miss}; "
                    f"survey domain {D['dom']}, wavelengths {D['wl']}, "
                    f"max_buffer {E['max_buffer']})")
    # 4. stretching ------------------------------------------------------
    if hx.size > 1:
        rat = np.maximum(hx[1:]/hx[:-1], hx[:-1]/hx[1:])
        check = np.ones(rat.size, bool)
        if D['tv'] is not None:
            tv = D['tv']
            inv = ((nodes[:-1] >= tv[0]-tolx(tv[0])) &
                   (nodes[1:] <= tv[-1]+tolx(tv[-1])))
            check = ~(inv[1:] & inv[:-1])
        s = [float(E['stretching'][0]), float(E['stretching'][1])]
        bound = max(s)
        if E['seasurface'] is not None:
            created = D['tv'] is not None or E['coe'] is not False
            bound = max(bound, s[0]*(1.25 if created else 1.1))
        if check.any() and rat[check].max() > bound*(1+1e-9):
            i = int(np.argmax(np.where(check, rat, 0)))
            raise V(f"stretching_exceeded:{seamode}:{vecmode}",
                    f"widths {hx[i]} | {hx[i+1]} (ratio {rat[i]}) at "
                    f"x={nodes[i+1]}; permitted {s}, bound {bound}")
    # 4b. documented split of the stretching pair: "the first value is the
    # maximum stretching for the survey domain".  Two cells whose common
    # node lies strictly inside the survey domain are both survey-domain
    # cells (the cell crossing the domain boundary included); with a sea
    # surface the documented 10 % / 25 % allowance applies to them.
    if hx.size > 1 and ENABLE_S0_IN_DOMAIN:
        s0 = float(E['stretching'][0])
        b0 = s0
        if E['seasurface'] is not None:
            created = D['tv'] is not None or E['coe'] is not False
            b0 = s0*(1.25 if created else 1.1)
        inner = nodes[1:-1]
        tin = err + 1e-9*(np.abs(inner) + hmin)          # = tolx(inner)
        ins = (inner > D['dom'][0]+tin) & (inner < D['dom'][1]-tin)
        sel = check & ins
        if sel.any() and rat[sel].max() > b0*(1+1e-9):
            i = int(np.argmax(np.where(sel, rat, 0)))
            raise V(f"stretching_exceeded_in_survey_domain:{seamode}:"
                    f"{vecmode}",
                    f"widths {hx[i]} | {hx[i+1]} (ratio {rat[i]}) at "
                    f"x={nodes[i+1]} inside the survey domain {D['dom']}; "
                    f"stretching {E['stretching']}, bound {b0}")
    # 5. centre ----------------------------------------------------------
    # Not decided with a retained user vector (it overrules the centre) and
    # for a sea surface with center_on_edge=False (the centre cell may be
    # moved / resized to reach the sea surface).  With a sea surface and the
    # centre on an edge the three centre nodes are "a vector" in the sense
    # of the _seasurface contract (widths stay untouched): centre = node.
    sea_moves_center = E['seasurface'] is not None and (
        E['coe'] is False or not ENABLE_CENTER_WITH_SEA)
    if D['tv'] is None and not sea_moves_center:
        on_edge = E['coe'] is not False          # unset -> documented: edge
        if on_edge:
            d = float(_near(nodes, E['center'])[0])
            if d > tolx(E['center']):
                raise V(f"center_not_on_node{':sea' if seamode == 'sea' else ''}",
                        f"center {E['center']} is {d} from the nearest node "
                        f"(center_on_edge={E['coe']})")
        else:
            cc = 0.5*(nodes[1:]+nodes[:-1])
            d = float(np.min(np.abs(cc-E['center'])))
            if d > tolx(E['center']):
                raise V("center_not_at_cell_center",
                        f"center {E['center']} is {d} from the nearest cell "
                        f"center (center_on_edge=False)")
    # 6. vector nodes ----------------------------------------------------
    if D['vec'] is not None and D['vin'].size >= 3:
        d = _near(nodes, D['vin'])
        tv_ = err + 1e-9*(np.abs(D['vin']) + hmin)
        if np.any(d > tv_):
            j = int(np.argmax(d-tv_))
            raise V(f"vector_node_missing:{D['src']}:{seamode}",
                    f"vector node {D['vin'][j]} (inside domain "
                    f"{D['dom_user']}) is {d[j]} from the nearest mesh node")
        # 6b. the vector is used as it is: between its first and last node
        # inside the domain the mesh has no other node (documented: "vectors
        # of mesh-edges that should be used"; min width / stretching have no
        # influence where a vector is provided)
        vin = D['vin']
        if ENABLE_VECTOR_EXACT and hmin > 1e3*float(tv_.max()):
            lo_, hi_ = vin[0]-tv_[0], vin[-1]+tv_[-1]
            got = nodes[(nodes >= lo_) & (nodes <= hi_)]
            if got.size != vin.size:
                extra = [float(x) for x in got
                         if _near(vin, x)[0] > tolx(x)][:3]
                raise V(f"vector_span_has_other_nodes:{D['src']}:{seamode}",
                        f"{got.size} mesh nodes between the vector nodes "
                        f"{vin[0]} and {vin[-1]} (the vector has {vin.size} "
                        f"there); extra nodes e.g. {extra}")
    # 7. sea surface -----------------------------------------------------
    if E['seasurface'] is not None:
        # the code's own test is isclose(0, d): 1e-8 m absolute; the
        # root finder for the fitting cells is accurate to ~1e-8 widths
        d = float(_near(nodes, E['seasurface'])[0])
        tsea = tolx(E['seasurface']) + 1.01e-8 + 1e-7*hmin
        if d > tsea and not sea_warned:
            raise V(f"seasurface_not_node_no_warning:{vecmode}",
                    f"sea surface {E['seasurface']} is {d} from the nearest "
                    f"node and no warning was raised")
        # 7b. designed-to-fit inputs (build_dir, snap 'int+'): the gap from
        # the centre block to the sea surface is (n + 0.02) minimum widths,
        # n >= 1, which n cells fill with a stretching < 1.03 (permitted:
        # min(1.25 stretching[0], stretching[1]) >= 1.05).  The docstring
        # promises the fit ("will try to ensure ..."; failure only "if the
        # seasurface is too close to the center"), whatever the warning says
        # (the warning test of the code is absolute, 1e-8 m; the demand here
        # is 1e-6 minimum widths).
        if E.get('sea_fit') and ENABLE_SEA_FIT and \
                d > tsea + 1e-6*float(D['dmin']):
            raise V("seasurface_fit_missed",
                    f"sea surface {E['seasurface']} = center + "
                    f"{(E['seasurface']-E['center'])/D['dmin']:.4f} minimum "
                    f"widths is {d} from the nearest node (warning raised: "
                    f"{sea_warned}) although whole cells fit with "
                    f"stretching < 1.03; stretching {E['stretching']}")
        return D, ('sea=node' if d <= tsea else 'sea=warned')
    return D, 'sea=none'


# ======================================================================
# Generator side: build effective inputs from a spec
# ======================================================================
def good_numbers(max_nr, max_lowest, min_div):
    out = set()
    for p in (2, 3, 5, 7):
        if p > max_lowest:
            continue
        k = p*2**min_div
        while k <= max_nr:
            out.add(k)
            k *= 2
    return sorted(out)


def _stretching(d):
    s = d['st']
    if s['kind'] == 'omit':
        return None
    if s['kind'] == 'ordered':
        return [s['s0'], max(s['s0'], s['s1'])]
    return [s['s0'], s['s1']]


def _limits(d, w0):
    lim = d['lim']
    if lim['kind'] == 'none':
        return None
    if lim['kind'] == 'float':
        return float(lim['a']*w0)
    return [float(lim['a']*w0), float(lim['a']*lim['b']*w0)]


def _vector(v, c, dmin):
    rng = gen.rng_of(v['seed'], 16)
    n = v['n']
    if v['kind'] == 'uniform':
        h = np.ones(n-1)
    elif v['kind'] == 'random':
        h = rng.uniform(0.5, 2.0, n-1)
    else:
        k = rng.integers(0, n-1)
        h = rng.uniform(1.0, 1.3)**np.abs(np.arange(n-1)-k)
    h = h*v['w']*dmin
    cum = np.r_[0.0, np.cumsum(h)]
    pos = v['cfrac']*cum[-1]
    if v['snap']:
        i = int(np.argmin(np.abs(cum-pos)))
        return c + (cum-cum[i])
    return (c-pos) + cum


def build_dir(d, common, props3, opts, with_sea=True, utm_ok=False):
    """Effective per-direction inputs E from a DIR spec.  `opts` holds the
    already resolved per-direction options (pps, limits, stretching, coe)."""
    f = -common['f'] if common['laplace'] else common['f']
    mapping = 'Resistivity' if common['mapping'] == 'omit' else \
        common['mapping']
    cond3 = gen.map_backward(mapping, np.array(props3, float))
    sd = own_skin_depth(f, cond3)
    pps = 3 if opts['pps'] is None else opts['pps']
    dmin = own_dmin(sd[0], pps, opts['limits'])
    c = float(d['center'])
    if utm_ok and d.get('utm') and not (with_sea and d['use_sea']):
        c = float(d['ucenter'])
    domain = distance = vector = None
    if d['use_vec']:
        v = d['vec']
        vector = _vector(v, c, dmin)
        span = vector[-1]-vector[0]
        n = vector.size
        if v['dom'] == 'wider':
            domain = [vector[0]-v['e0']*dmin, vector[-1]+v['e1']*dmin]
        elif v['dom'] == 'narrower':
            domain = [vector[0]+0.45*v['t0']*span,
                      vector[-1]-0.45*v['t1']*span]
        elif v['dom'] == 'mixed':
            domain = [vector[0]-v['e0']*dmin, vector[-1]-0.45*v['t1']*span]
        elif v['dom'] == 'at_node':
            i0 = int(v['t0']*((n-1)//2))
            i1 = n-1-int(v['t1']*((n-1)//2))
            if i1 <= i0:
                i0, i1 = 0, n-1
            domain = [float(vector[i0]), float(vector[i1])]
        elif v['dom'] == 'distance':
            distance = [d['dl']*dmin, d['dr']*dmin]
    else:
        lo, hi = d['dl']*dmin, d['dr']*dmin
        if d['cpos'] == 'edge':
            lo = 0.0
        elif d['cpos'] == 'outside':
            lo = -min(lo, 0.5*hi)       # domain starts right of the centre
        if d['dommode'] in ('domain', 'both'):
            domain = [c-lo, c+hi]
        if d['dommode'] in ('distance', 'both'):
            if d['dommode'] == 'both':      # domain has priority
                distance = [0.5*abs(lo)+dmin, 2.0*hi]
            else:
                distance = [abs(lo), hi]
    sea = None
    sea_fit = False
    st_ = opts['stretching']
    if with_sea and d['use_sea']:
        s = d['sea']
        k = s['k']
        if s['snap'] == 'int':
            k = max(1.0, float(round(k)))
        elif s['snap'] == 'half':
            k = float(round(k)) + 0.5
        elif s['snap'] == 'int+':
            k = max(2.0, float(round(k))) + 0.02
            # designed to fit (see check_dir 7b): centre block = the three
            # nodes center-dmin, center, center+dmin; gap = (k-1) dmin
            sea_fit = (vector is None and opts['coe'] is not False and
                       (st_ is None or float(st_[1]) >= 1.05))
        if s['ref'] == 'vtop' and vector is not None:
            sea = float(vector[-1] + k*(vector[-1]-vector[-2]))
        else:
            sea = float(c + k*dmin)
        if sea <= c:
            sea = float(c + dmin)
    lfc = bool(common['lfc'])
    if not d['use_vec'] and d['cpos'] == 'outside':
        lfc = False     # the from-centre rule is not defined there
    lf = 1.0 if common['lf'] is None else common['lf']
    wl_ref = lf*2*np.pi*float(np.max(sd[1:]))
    mb = 100000 if common['mb'] is None else float(common['mb']*wl_ref)
    E = {
        'frequency': f, 'props': [float(p) for p in props3],
        'mapping': mapping, 'center': c,
        'domain': None if domain is None else [float(domain[0]),
                                               float(domain[1])],
        'distance': None if distance is None else [float(distance[0]),
                                                   float(distance[1])],
        'vector': vector, 'seasurface': sea,
        'stretching': [1.0, 1.5] if st_ is None else st_,
        'limits': opts['limits'], 'pps': pps,
        'lambda_factor': lf, 'max_buffer': mb, 'lfc': lfc,
        'coe': opts['coe'], 'cell_numbers': None,
    }
    if sea_fit:
        E['sea_fit'] = True
    return E


def _count(dist, w, alpha):
    """cells of widths w*alpha^k (k>=1) needed to span dist; last width."""
    if dist <= 0:
        return 0, w
    if alpha <= 1.0 + 1e-12:
        n = int(np.ceil(dist/w))
        return n, w
    n = int(np.ceil(np.log(dist*(alpha-1)/(w*alpha)+1)/np.log(alpha)-1e-12))
    n = max(n, 1)
    return n, w*alpha**n


def estimate_need(E):
    """Generator helper only: cells the search needs at maximal stretching."""
    D = derive(E)
    if D['dom'] is None:
        return 8
    dmin, c = D['dmin'], E['center']
    if D['tv'] is not None:
        tv = D['tv']
        nc, e0, e1 = tv.size-1, tv[0], tv[-1]
        w0, w1 = tv[1]-tv[0], tv[-1]-tv[-2]
    elif E['coe'] is not False:
        nc, e0, e1, w0, w1 = 2, c-dmin, c+dmin, dmin, dmin
    else:
        nc, e0, e1, w0, w1 = 1, c-dmin/2, c+dmin/2, dmin, dmin
    sea = E['seasurface']
    if sea is not None and sea > e1:
        n = int((sea-e1)/w1)
        if n >= 1:
            nc += n
            e1 = sea
    s0, s1 = E['stretching']
    s1 = max(s0, s1)
    nl, wl_ = _count(e0-D['dom'][0], w0, s0)
    nr, wr_ = _count(D['dom'][1]-e1, w1, s0)
    # extent actually reached
    def reach(w, a, n):
        if n == 0:
            return 0.0
        if a <= 1+1e-12:
            return n*w
        return w*a*(a**n-1)/(a-1)
    x0 = min(e0, e0-reach(w0, s0, nl))
    x1 = max(e1, e1+reach(w1, s0, nr))
    bl, _ = _count(x0-D['cd'][0], wl_, s1)
    br, _ = _count(D['cd'][1]-x1, wr_, s1)
    return int(nc+nl+nr+bl+br)


def repair_buffer(Es, limit=200):
    """Shrink max_buffer (all directions alike; it is a global option of
    construct_mesh) until the estimated need fits; returns need."""
    need = max(estimate_need(E) for E in Es)
    for _ in range(14):
        if need <= limit:
            break
        mb = min(E['max_buffer'] for E in Es)
        # start from the buffer that is actually in effect
        eff = max(max(min(float(w), mb) for w in derive(E)['wl'])
                  for E in Es if derive(E)['dom'] is not None)
        new = min(mb, eff)/3.0
        for E in Es:
            E['max_buffer'] = float(new)
        need = max(estimate_need(E) for E in Es)
    return need


# The search of origin_and_widths tries, for every permitted cell number below
# the first feasible one, up to nsa x nca stretching pairs (100 x 100 for
# stretching[0] > 1.1).  The added generator dimensions that lengthen the
# search (default cell list, second call) are used only where this bound is
# small (the coverage-instrumented fuzz runs are ~100x slower per pair).
SEARCH_CAP = 6000


def _search_cost(Es, cells):
    c = 0
    for E in Es:
        if derive(E)['dom'] is None:
            continue
        s0, s1 = E['stretching']
        nsa = max(1, min(100, int((s0-1)/0.001)))
        nca = max(1, min(100, int((max(s0, s1)-1)/0.001)))
        need = estimate_need(E)
        c += sum(1 for k in cells if k < need)*nsa*nca
    return c


def make_cells(cs, need, Es=None):
    """cell_numbers list (JSON-able ints, all <= 256) and design label.
    `need` (estimate_need) was measured to be exact in 97 % and within +-2
    in all of 293 feasible cases."""
    base = good_numbers(256, cs['max_lowest'], cs['min_div'])
    kind = cs['kind']
    if kind == 'default':
        if need <= 200 and (Es is None or _search_cost(
                Es, DEFAULT_CELLS) <= SEARCH_CAP):
            # the argument is omitted; permitted = the documented default
            return list(DEFAULT_CELLS), 'feasible'
        kind = 'good_full'
    if kind == 'infeasible' and need >= 6:
        cells = sorted({max(1, int(need*0.5)), max(1, int(need*0.75))})
    elif need > 256:
        cells = [base[-1]]
    elif kind in ('ints', 'infeasible'):
        cells = sorted({min(256, max(1, need+o)) for o in cs['offs']})
    elif kind == 'good_full':
        mx = [m for m in (64, 128, 256) if m >= need+3] or [256]
        cells = [k for k in base if k <= mx[0]]
    else:
        cand = [k for k in base if k >= cs['lo']*need]
        cells = cand[:cs['m']] if cand else [base[-1]]
        more = [k for k in base if k >= need+3]
        if max(cells) < need+3 and more:
            cells = cells + more[:1]
    top = max(cells)
    design = 'feasible' if top >= need+3 else \
        'marginal' if top >= need-3 else 'infeasible'
    return [int(k) for k in cells], design


def props_list(common, nprop):
    mapping = 'Resistivity' if common['mapping'] == 'omit' else \
        common['mapping']
    p = gen.map_forward(mapping, np.array(common['cond'][:nprop], float))
    return [float(x) for x in p], mapping


# ======================================================================
# Sub-check 1: origin_and_widths
# ======================================================================
def _contain(x, kind):
    if x is None:
        return None
    if kind == 'tuple':
        return tuple(x)
    if kind == 'array':
        return np.array(x, float)
    return list(x)


def _diff(a, b, path=''):
    """Path of the first difference (type or value) between two argument
    trees, or None."""
    if type(a) is not type(b):
        return path or '?'
    if isinstance(a, dict):
        if list(a) != list(b):
            return path or '?'
        for k in a:
            r = _diff(a[k], b[k], f"{path}.{k}" if path else str(k))
            if r:
                return r
        return None
    if isinstance(a, (list, tuple)):
        if len(a) != len(b):
            return path or '?'
        for i, (x, y) in enumerate(zip(a, b)):
            r = _diff(x, y, f"{path}[{i}]")
            if r:
                return r
        return None
    if isinstance(a, np.ndarray):
        ok = a.dtype == b.dtype and a.shape == b.shape and \
            np.array_equal(a, b)
        return None if ok else (path or '?')
    if a is None or isinstance(a, (bool, int, float, str, np.generic)):
        return None if a == b else (path or '?')
    return None         # Map instance: type compared above


def _call(fn, kw, E, tag=''):
    """fn(**kw); the argument objects must come back unchanged (nothing
    documents that a gridding function modifies its inputs; the Simulation
    class calls construct_mesh repeatedly with the same objects)."""
    kw0 = copy.deepcopy(kw)
    exc = None
    try:
        out = fn(**kw)
    except Exception as e:          # looked at by the caller
        exc, out = e, None
    bad = _diff(kw, kw0) if ENABLE_IMMUTABLE else None
    if bad:
        key = bad.split('.')[0].split('[')[0]
        raise Violation(f"input_modified:{key}{tag}",
                        f"argument {bad} was changed by the call",
                        {'inputs': E, 'before': kw0, 'after': kw})
    if exc is not None:
        raise exc
    return out


def _same_mesh(a, b):
    return (np.array_equal(np.asarray(a[0], float), np.asarray(b[0], float))
            and len(a[1]) == len(b[1]) and all(
                np.array_equal(x, y) for x, y in zip(a[1], b[1])))


def _order(cells, how):
    if how == 'reversed':
        return list(cells[::-1])
    if how == 'dup':
        return list(cells[::-1]) + [cells[0]]
    return list(cells)


def _sea_design(d):
    """DIR spec with the designed-to-fit sea surface: no user vector, sea
    surface a whole number (>= 2) of minimum widths + 0.02 above the centre;
    the caller makes center_on_edge True / unset."""
    d = dict(d)
    d['use_sea'], d['use_vec'] = True, False
    d['sea'] = dict(d['sea'], snap='int+', ref='center')
    return d


def _mapping_arg(common, mapping):
    if common.get('mapping_obj', False):
        from emg3d import maps
        return getattr(maps, 'Map'+mapping)()
    return mapping


def case_oaw(spec, rec):
    from emg3d import meshes
    common, d = spec['common'], spec['dir']
    if spec.get('sea_design', False):
        d = _sea_design(d)
        if d['coe'] is False:
            d['coe'] = True
    nprop = spec['nprop']
    plist, mapping = props_list(common, nprop)
    # documented 1-D meaning: [p_minwidth, p_negative, p_positive]
    props3 = [plist[0], plist[min(nprop-1, 1)], plist[min(nprop-1, 2)]]
    w0 = float(own_skin_depth(
        -common['f'] if common['laplace'] else common['f'],
        common['cond'][0]))/(3 if d['pps'] is None else d['pps'])
    opts = {'pps': d['pps'], 'limits': _limits(d, w0),
            'stretching': _stretching(d), 'coe': d['coe']}
    E = build_dir(d, common, props3, opts, utm_ok=True)
    invalid = spec['invalid']
    if invalid == 'no_domain':
        E['domain'] = E['distance'] = E['vector'] = None
    elif invalid in ('sea_below', 'sea_equal'):
        dm = derive(E)['dmin']
        E['seasurface'] = E['center'] - (dm if invalid == 'sea_below' else 0)
    if invalid is None:
        need = repair_buffer([E])
    else:
        need = 8
    cells, design = make_cells(spec['cells'], need,
                               [E] if invalid is None else None)
    E['cell_numbers'] = cells

    # ---- the call, as a user would write it --------------------------
    cont = spec['container']
    scalar = nprop == 1 and spec['scalar']
    props_arg = plist[0] if scalar else \
        _contain(plist, 'array' if cont == 'array' else 'list')
    kw = {'frequency': E['frequency'], 'properties': props_arg,
          'center': E['center']}
    ckind = spec['cells']['kind']
    omit_cells = ckind == 'default' and cells == DEFAULT_CELLS
    if not omit_cells:
        kw['cell_numbers'] = _contain(
            _order(cells, spec['cells'].get('order', 'sorted')), cont)
    verb = spec.get('verb', 0)
    raise_error = spec.get('raise_error', True)
    if verb != 0:
        kw['verb'] = verb
    if not raise_error:
        kw['raise_error'] = False
    if E['domain'] is not None:
        kw['domain'] = _contain(E['domain'], cont)
    if E['distance'] is not None:
        kw['distance'] = _contain(E['distance'], cont)
    if E['vector'] is not None:
        kw['vector'] = np.array(E['vector'])
    if E['seasurface'] is not None:
        kw['seasurface'] = E['seasurface']
    if opts['stretching'] is not None:
        kw['stretching'] = _contain(opts['stretching'], cont)
    if opts['limits'] is not None:
        kw['min_width_limits'] = opts['limits'] if isinstance(
            opts['limits'], float) else _contain(opts['limits'], cont)
    if d['pps'] is not None:
        kw['min_width_pps'] = d['pps']
    if common['lf'] is not None:
        kw['lambda_factor'] = E['lambda_factor']
    if common['mb'] is not None or E['max_buffer'] != 100000:
        kw['max_buffer'] = E['max_buffer']
    if E['lfc'] or common['lfc']:
        kw['lambda_from_center'] = E['lfc']
    if common['mapping'] != 'omit':
        kw['mapping'] = _mapping_arg(common, mapping)
    if E['coe'] is not None:
        kw['center_on_edge'] = E['coe']

    rec.cls(f"design={design}", f"invalid={invalid}", f"verb={verb}",
            f"raise_error={raise_error}",
            f"mapping_as={type(kw.get('mapping')).__name__[:3]}",
            f"center={'utm' if abs(E['center']) > 1e5 else 'local'}")
    if 'cell_numbers' in kw:
        rec.cls(f"cell_order={spec['cells'].get('order', 'sorted')}")
    buf = io.StringIO()
    with warnings.catch_warnings(record=True) as wlist, \
            contextlib.redirect_stdout(buf):
        warnings.simplefilter('always')
        try:
            out = _call(meshes.origin_and_widths, kw, E)
        except RuntimeError as e:
            if invalid is None and NO_GRID in str(e) and raise_error:
                rec.cls('outcome=runtime_error')
                if design == 'feasible':
                    _FEAS['designed'] += 1
                return
            raise Violation(f"wrong_error:RuntimeError:invalid={invalid}"
                            f"{'' if raise_error else ':raise_error=False'}",
                            f"unexpected RuntimeError: {e}", {'inputs': E})
        except ValueError as e:
            if invalid == 'no_domain' and 'At least one of' in str(e):
                rec.cls('outcome=value_error')
                return
            if invalid in ('sea_below', 'sea_equal') and \
                    'seasurface' in str(e):
                rec.cls('outcome=value_error')
                return
            raise
    if invalid is not None:
        raise Violation(f"invalid_input_accepted:{invalid}",
                        "documented-invalid input returned a mesh",
                        {'inputs': E})
    # documented return: (origin, widths), plus the info string if verb < 0
    nout = 3 if verb < 0 else 2
    if not isinstance(out, tuple) or len(out) != nout:
        raise Violation(f"bad_return:verb={verb}",
                        f"returned {type(out).__name__} of length "
                        f"{len(out) if isinstance(out, tuple) else '-'}; "
                        f"documented {nout} values for verb={verb}",
                        {'inputs': E})
    if verb < 0 and not isinstance(out[2], str):
        raise Violation("bad_return:info", f"info is {type(out[2])}",
                        {'inputs': E})
    printed = buf.getvalue()
    if verb <= 0 and printed.strip():
        raise Violation(f"printed_although_silent:verb={verb}",
                        f"verb={verb} printed {printed[:200]!r}",
                        {'inputs': E})
    if out[0] is None or out[1] is None:
        # "Otherwise it just returns None's" - only without raise_error
        if raise_error or not (out[0] is None and out[1] is None):
            raise Violation(f"none_returned:raise_error={raise_error}",
                            f"returned origin={out[0]!r}, widths={out[1]!r}",
                            {'inputs': E})
        rec.cls('outcome=none_returned')
        if design == 'feasible':
            _FEAS['designed'] += 1
        return
    if verb > 0 and not printed.strip():
        raise Violation("verbose_prints_nothing",
                        "verb=1 printed nothing for a returned mesh",
                        {'inputs': E})
    msgs = [str(w.message) for w in wlist]
    warned = any(SEA_WARN in m for m in msgs)
    D, seares = check_dir(E, out[0], out[1], warned)
    if spec.get('twice', False) and ENABLE_IMMUTABLE and \
            _search_cost([E], cells) <= SEARCH_CAP:
        with warnings.catch_warnings(), contextlib.redirect_stdout(buf):
            warnings.simplefilter('ignore')
            out2 = _call(meshes.origin_and_widths, kw, E)
        if not _same_mesh(([out[0]], [out[1]]), ([out2[0]], [out2[1]])):
            raise Violation("second_call_differs",
                            "the same call with the same argument objects "
                            f"returned origin {out[0]!r} / {np.size(out[1])} "
                            f"cells, then {out2[0]!r} / {np.size(out2[1])}",
                            {'inputs': E})
        rec.cls('twice')
    _sea_count(E, seares)
    if design == 'feasible':
        _FEAS['designed'] += 1
        _FEAS['mesh'] += 1
    _classify(rec, E, D, d, common, seares, np.size(out[1]), cells,
              ckind if (ckind != 'default' or omit_cells) else 'good_full')
    rec.cls(f"nprop={nprop}{'(float)' if scalar else ''}")
    active = [k for k, on in (('vector', E['vector'] is not None),
                              ('sea', E['seasurface'] is not None)) if on]
    if active:
        rec.nt(['oaw', E])
    rec.note({'cells': int(np.size(out[1])), 'x0': float(out[0]),
              'dmin': D['dmin'], 'domain': D['dom'], 'comp': D['cd'],
              'sea': seares, 'need_est': need, 'cell_numbers': cells})


def _sea_count(E, seares):
    if E['seasurface'] is not None:
        _SEA['cases'] += 1
        _SEA['node'] += seares == 'sea=node'
        _SEA['fit_designed'] += bool(E.get('sea_fit'))


def _classify(rec, E, D, d, common, seares, ncell, cells, ckind, pre=''):
    rec.cls(pre+'outcome=mesh', pre+seares,
            pre+f"mapping={common['mapping']}",
            pre+f"laplace={common['laplace']}",
            pre+f"lfc={E['lfc']}", pre+f"coe={E['coe']}",
            pre+f"limits={d['lim']['kind']}",
            pre+f"stretching={d['st']['kind']}"
            f"{'/s0=1' if E['stretching'][0] == 1.0 else ''}",
            pre+f"domain_from={D['src']}",
            pre+f"bind={D['bind'][0]}/{D['bind'][1]}",
            pre+f"cells={ckind}",
            pre+("ncell<=32" if ncell <= 32 else "ncell<=96" if ncell <= 96
                 else "ncell>96"))
    if E['seasurface'] is not None:
        rec.cls(pre+f"sea_fit_designed={bool(E.get('sea_fit'))}",
                pre+f"sea:center_checked={D['tv'] is None and E['coe'] is not False}")
    if E['vector'] is not None:
        rec.cls(pre+f"vector:{d['vec']['dom']}:"
                f"{'kept' if D['tv'] is not None else 'dropped'}")
    else:
        rec.cls(pre+f"novector:cpos={d['cpos']}:{d['dommode']}")


# ======================================================================
# Sub-check 2: construct_mesh
# ======================================================================
def route_properties(plist):
    """Documented meaning of the property formats -> per direction
    [p_minwidth, p_negative, p_positive]."""
    n = len(plist)
    p = plist
    if n == 1:
        return [[p[0], p[0], p[0]]]*3
    if n == 2:
        return [[p[0], p[1], p[1]]]*3
    if n == 3:
        return [[p[0], p[2], p[2]], [p[0], p[2], p[2]], [p[0], p[1], p[2]]]
    if n == 4:
        return [[p[0], p[1], p[1]], [p[0], p[1], p[1]], [p[0], p[2], p[3]]]
    if n == 7:
        return [[p[0], p[1], p[2]], [p[0], p[3], p[4]], [p[0], p[5], p[6]]]
    raise HarnessError(f"property list of length {n}")


def _pack(vals, fmt, leaf='list'):
    """Three per-direction values -> documented container, or (False, None)
    to omit the argument.  [a, b] leaves become list / tuple / ndarray."""
    if all(v is None for v in vals):
        return False, None
    if leaf != 'list':
        vals = [_contain(v, leaf) if isinstance(v, list) else v
                for v in vals]
    if fmt == 'dict':
        return True, {'x': vals[0], 'y': vals[1], 'z': vals[2]}
    if fmt == 'same':
        return True, vals[0]
    return True, (vals[0], vals[1], vals[2])


def case_cm(spec, rec):
    import emg3d
    common = spec['common']
    nprop = spec['nprop']
    fmt = dict(spec['fmt'])
    dirs = [dict(d) for d in spec['dirs']]
    same_geom = spec['same_geom']
    invalid = spec.get('invalid')
    if invalid == 'no_domain_y':
        same_geom = False
    if spec.get('same_center_xy') and not same_geom:
        for key in ('center', 'utm', 'ucenter'):
            dirs[1][key] = dirs[0].get(key)
    yx = None if (same_geom or invalid == 'no_domain_y') else \
        spec.get('y_extends_x')
    if same_geom:
        for d in dirs:
            d['utm'] = False        # one geometry: z decides (never UTM)
    if yx:
        for key in ('center', 'utm', 'ucenter'):
            dirs[1][key] = dirs[0].get(key)
        for key in ('dommode', 'cpos', 'dl', 'dr', 'vec', 'use_vec'):
            dirs[1][key] = dirs[0][key]
        if yx == 'vector':
            dirs[0]['use_vec'] = False
            dirs[1]['use_vec'] = True
    if same_geom:
        for k in (1, 2):
            for key in ('center', 'dommode', 'cpos', 'dl', 'dr', 'vec',
                        'use_vec'):
                dirs[k][key] = dirs[0][key]
    sea_design = spec.get('sea_design', False) and not same_geom
    if sea_design:
        dirs[2] = _sea_design(dirs[2])
    plist, mapping = props_list(common, nprop)
    routed = route_properties(plist)
    f = -common['f'] if common['laplace'] else common['f']

    # ---- options that may be per direction ---------------------------
    # 'same' = one value for all directions (that of x)
    def resolve(name, values):
        if fmt[name] == 'same':
            return [values[0]]*3
        return values
    pps = resolve('min_width_pps', [d['pps'] for d in dirs])
    w0s = [float(own_skin_depth(f, common['cond'][0])) /
           (3 if p is None else p) for p in pps]
    lims = resolve('min_width_limits',
                   [_limits(d, w) for d, w in zip(dirs, w0s)])
    sts = resolve('stretching', [_stretching(d) for d in dirs])
    coes = resolve('center_on_edge', [d['coe'] for d in dirs])
    if sea_design and coes[2] is False:
        coes = [coes[0], coes[1], True]
        if fmt['center_on_edge'] == 'same':
            fmt['center_on_edge'] = 'tuple'
    if yx:
        # y equals x in every option, except the one x leaves at None
        for name, lst, dflt in (('pps', pps, 4), ('limits', lims, None),
                                ('stretching', sts, [1.05, 1.4]),
                                ('coe', coes, False)):
            lst = list(lst)
            lst[1] = lst[0]
            if yx == name:
                lst[0] = None
                if lst[1] is None:
                    lst[1] = dflt if name != 'limits' else \
                        [0.8*w0s[1], 1.3*w0s[1]]
            if name == 'pps':
                pps = lst
            elif name == 'limits':
                lims = lst
            elif name == 'stretching':
                sts = lst
            else:
                coes = lst
        for nm in ('min_width_pps', 'min_width_limits', 'stretching',
                   'center_on_edge'):
            if fmt[nm] == 'same':
                fmt[nm] = 'tuple'
    if same_geom:
        # identical geometry in all directions needs one minimum width
        lims, pps = [lims[0]]*3, [pps[0]]*3
        fmt['min_width_limits'] = fmt['min_width_pps'] = 'same'
    Es = []
    for k in range(3):
        opts = {'pps': pps[k], 'limits': lims[k], 'stretching': sts[k],
                'coe': coes[k]}
        Es.append(build_dir(dirs[k], common, routed[k], opts,
                            with_sea=(k == 2), utm_ok=(k < 2)))
    if same_geom:
        for k in (1, 2):
            for key in ('domain', 'distance', 'vector'):
                Es[k][key] = Es[0][key]
    else:
        for key in ('domain', 'distance', 'vector'):
            if fmt[key] == 'same':
                fmt[key] = 'tuple'
    # max_buffer / lfc are global options: make them equal
    mb = min(E['max_buffer'] for E in Es)
    lfc = all(E['lfc'] for E in Es)
    for E in Es:
        E['max_buffer'] = mb
        E['lfc'] = lfc
    # documented-invalid input in ONE direction (the others stay valid)
    if invalid == 'no_domain_y':
        Es[1]['domain'] = Es[1]['distance'] = Es[1]['vector'] = None
    elif invalid in ('sea_below', 'sea_equal'):
        dm = derive(Es[2])['dmin']
        Es[2]['seasurface'] = Es[2]['center'] - (
            dm if invalid == 'sea_below' else 0)
    # (the valid directions are still searched before the error is raised)
    need = repair_buffer(Es)
    cells, design = make_cells(spec['cells'], need, Es)
    for E in Es:
        E['cell_numbers'] = cells

    # ---- the call ------------------------------------------------------
    leaf = spec.get('leaf', 'list')
    props_arg = plist[0] if (nprop == 1 and spec['scalar']) else \
        _contain(list(plist), spec.get('props_as', 'list'))
    kw = {'frequency': f, 'properties': props_arg,
          'center': _contain([E['center'] for E in Es],
                             spec.get('center_as', 'tuple'))}
    ckind = spec['cells']['kind']
    omit_cells = ckind == 'default' and cells == DEFAULT_CELLS
    if not omit_cells:
        kw['cell_numbers'] = _order(cells,
                                    spec['cells'].get('order', 'sorted'))
    for name, key in (('domain', 'domain'), ('distance', 'distance'),
                      ('vector', 'vector')):
        give, val = _pack([E[key] for E in Es], fmt[name], leaf)
        if give:
            kw[name] = val
    give, val = _pack(sts, fmt['stretching'], leaf)
    if give:
        kw['stretching'] = val
    give, val = _pack(lims, fmt['min_width_limits'], leaf)
    if give:
        kw['min_width_limits'] = val
    give, val = _pack(pps, fmt['min_width_pps'])
    if give:
        kw['min_width_pps'] = val
    give, val = _pack(coes, fmt['center_on_edge'])
    if give:
        kw['center_on_edge'] = val
    if Es[2]['seasurface'] is not None:
        kw['seasurface'] = Es[2]['seasurface']
    if common['lf'] is not None:
        kw['lambda_factor'] = Es[0]['lambda_factor']
    if common['mb'] is not None or mb != 100000:
        kw['max_buffer'] = mb
    if lfc or common['lfc']:
        kw['lambda_from_center'] = lfc
    if common['mapping'] != 'omit':
        kw['mapping'] = _mapping_arg(common, mapping)

    # the checker's reading of the call (documented routing), to make sure
    # the per-direction inputs above are what the call really says
    _verify_routing(kw, Es, sts, lims, pps, coes)

    rec.cls(f"design={design}", f"nprop={nprop}",
            f"same_geom={same_geom}", f"invalid={invalid}",
            f"leaf={leaf}", f"center_as={type(kw['center']).__name__}",
            f"props_as={type(kw['properties']).__name__}",
            f"mapping_as={type(kw.get('mapping')).__name__[:3]}",
            f"center_xy={'utm' if max(abs(Es[0]['center']), abs(Es[1]['center'])) > 1e5 else 'local'}",
            *[f"fmt:{k}={type(kw[k]).__name__}" for k in (
                'domain', 'distance', 'vector', 'stretching',
                'min_width_limits', 'min_width_pps', 'center_on_edge')
              if k in kw])
    if 'cell_numbers' in kw:
        rec.cls(f"cell_order={spec['cells'].get('order', 'sorted')}")
    buf = io.StringIO()
    with warnings.catch_warnings(record=True) as wlist, \
            contextlib.redirect_stdout(buf):
        warnings.simplefilter('always')
        try:
            mesh = _call(emg3d.construct_mesh, kw, Es, tag='[cm]')
        except ValueError as e:
            if invalid == 'no_domain_y' and 'At least one of' in str(e):
                rec.cls('outcome=value_error')
                return
            if invalid in ('sea_below', 'sea_equal') and \
                    'seasurface' in str(e):
                rec.cls('outcome=value_error')
                return
            raise
        except RuntimeError as e:
            if invalid is None and NO_GRID in str(e):
                rec.cls('outcome=runtime_error')
                if design == 'feasible':
                    _FEAS['designed'] += 1
                return
            raise Violation("wrong_error:RuntimeError[cm]",
                            f"unexpected RuntimeError: {e}",
                            {'inputs': Es})
    if invalid is not None:
        raise Violation(f"invalid_input_accepted:{invalid}[cm]",
                        "documented-invalid input in one direction returned "
                        "a mesh", {'inputs': Es})
    if buf.getvalue().strip():
        raise Violation("printed_although_silent[cm]",
                        f"construct_mesh printed {buf.getvalue()[:200]!r}",
                        {'inputs': Es})
    if not isinstance(getattr(mesh, 'construct_mesh_info', None), str):
        # documented: "The info is added either way to the returned mesh"
        raise Violation("no_construct_mesh_info[cm]",
                        "mesh.construct_mesh_info is missing",
                        {'inputs': Es})
    msgs = [str(w.message) for w in wlist]
    warned = any(SEA_WARN in m for m in msgs)
    ncs = []
    for k in range(3):
        D, seares = check_dir(Es[k], mesh.origin[k], mesh.h[k],
                              warned, tag=f"[cm:{DIRS[k]}]")
        ncs.append(int(mesh.h[k].size))
        _classify(rec, Es[k], D, dirs[k], common, seares, ncs[-1], cells,
                  ckind if (ckind != 'default' or omit_cells)
                  else 'good_full', pre=f"{DIRS[k]}:")
    _sea_count(Es[2], seares)
    if spec.get('twice', False) and ENABLE_IMMUTABLE and \
            _search_cost(Es, cells) <= SEARCH_CAP:
        with warnings.catch_warnings(), contextlib.redirect_stdout(buf):
            warnings.simplefilter('ignore')
            mesh2 = _call(emg3d.construct_mesh, kw, Es, tag='[cm]')
        if not _same_mesh((mesh.origin, mesh.h), (mesh2.origin, mesh2.h)):
            raise Violation("second_call_differs[cm]",
                            "the same call with the same argument objects "
                            f"returned shape {ncs}, origin {mesh.origin}, "
                            f"then {[int(h.size) for h in mesh2.h]}, "
                            f"{mesh2.origin}", {'inputs': Es})
        rec.cls('twice')
    rec.cls('outcome=mesh')
    if design == 'feasible':
        _FEAS['designed'] += 1
        _FEAS['mesh'] += 1
    perdir = [k for k in ('domain', 'distance', 'vector', 'stretching',
                          'min_width_limits', 'min_width_pps',
                          'center_on_edge')
              if isinstance(kw.get(k), (tuple, dict)) and not (
                  k in ('min_width_limits', 'stretching') and
                  isinstance(kw[k], tuple) and len(kw[k]) == 2)]
    active = perdir + [k for k, on in (
        ('vector', any(E['vector'] is not None for E in Es)),
        ('sea', Es[2]['seasurface'] is not None),
        ('nprop>2', nprop > 2)) if on]
    if active:
        rec.nt(['cm', nprop, Es])
    rec.note({'shape': ncs, 'origin': [float(x) for x in mesh.origin],
              'nprop': nprop, 'need_est': need, 'cell_numbers': cells,
              'keys': sorted(kw)})


def _verify_routing(kw, Es, sts, lims, pps, coes):
    """Self-test of the generator: re-derive the per-direction inputs from
    the call arguments by the documented rules and compare with Es."""
    def per_dir(val, k, pair_is_global):
        if val is None:
            return None
        if isinstance(val, dict):
            return val[DIRS[k]]
        if isinstance(val, np.ndarray):
            return val
        if isinstance(val, (bool, int, float)):
            return val
        if len(val) == 3:
            return val[k]
        return val
    for k in range(3):
        E = Es[k]
        got = {
            'domain': per_dir(kw.get('domain'), k, True),
            'distance': per_dir(kw.get('distance'), k, True),
            'vector': per_dir(kw.get('vector'), k, False),
            'stretching': per_dir(kw.get('stretching'), k, True),
            'limits': per_dir(kw.get('min_width_limits'), k, True),
            'pps': per_dir(kw.get('min_width_pps'), k, False),
            'coe': per_dir(kw.get('center_on_edge'), k, False),
        }
        exp = {'domain': E['domain'], 'distance': E['distance'],
               'vector': E['vector'], 'stretching': sts[k],
               'limits': lims[k], 'pps': pps[k], 'coe': coes[k]}
        for name in got:
            a, b = got[name], exp[name]
            same = (a is None and b is None) or (
                a is not None and b is not None and
                np.array_equal(np.asarray(a, float), np.asarray(b, float)))
            if not same:
                raise HarnessError(
                    f"generator routing self-test failed for {name} in "
                    f"{DIRS[k]}: call says {a!r}, oracle uses {b!r}")


# ======================================================================
# Sub-check 3: good_mg_cell_nr against its documented formula
# ======================================================================
def gmc_specs():
    out = []
    for max_nr in (1, 2, 15, 16, 17, 100, 256, 1000, 1023, 1024, 1025, 5000):
        for max_lowest in range(2, 20):
            for min_div in range(0, 7):
                out.append({'max_nr': max_nr, 'max_lowest': max_lowest,
                            'min_div': min_div, 'default': False})
    out.append({'default': True})
    return out


def case_gmc(spec, rec):
    """Documented: all numbers p 2^n <= M with p = 2, 3, ..., p_max and
    n = n_min, n_min+1, ...; returned from lowest to highest.  (Even p > 2
    and odd multiples add nothing new: p 2^n = (p/2) 2^(n+1).)  The default
    is the list quoted in the construct_mesh docstring."""
    from emg3d import meshes
    if spec['default']:
        got = meshes.good_mg_cell_nr()
        exp = DEFAULT_CELLS
        rec.cls('default')
    else:
        M, pm, nm = spec['max_nr'], spec['max_lowest'], spec['min_div']
        got = meshes.good_mg_cell_nr(max_nr=M, max_lowest=pm, min_div=nm)
        exp = set()
        for p_ in range(2, pm+1):
            k = p_*2**nm
            while k <= M:
                exp.add(k)
                k *= 2
        exp = sorted(exp)
        rec.cls(f"max_lowest={'2-5' if pm <= 5 else '6-19'}",
                'empty' if not exp else 'nonempty')
    got = [int(k) for k in np.asarray(got).ravel()]
    if got != list(exp):
        only_got = sorted(set(got)-set(exp))[:5]
        only_exp = sorted(set(exp)-set(got))[:5]
        raise Violation(
            "good_mg_cell_nr_differs" + (":default" if spec['default'] else ""),
            f"good_mg_cell_nr({spec}) returned {got[:12]}..., documented "
            f"{list(exp)[:12]}...; only returned {only_got}, missing "
            f"{only_exp}, sorted={got == sorted(got)}", {'spec': spec})
    if exp:
        rec.nt(['gmc', spec])


# ======================================================================
# Sub-check 3b: the documented formulas of the public helpers
# ======================================================================
HLP_SPEC = st.fixed_dictionaries({
    'f': gen.lgfloat(1e-3, 1e3), 'laplace': st.booleans(),
    'cond': st.lists(COND, min_size=1, max_size=3),
    'mu_r': st.one_of(st.none(), gen.lgfloat(0.1, 100)),
    'pps': st.one_of(st.none(), st.sampled_from([1, 3, 10]),
                     st.floats(0.5, 20)),
    'lim': st.fixed_dictionaries({
        'kind': W(('none', 1), ('float', 1), ('pair', 2)),
        'a': gen.lgfloat(0.3, 3), 'b': gen.lgfloat(1.0, 4)}),
    'container': st.sampled_from(['list', 'tuple', 'array']),
})


def case_hlp(spec, rec):
    """skin_depth = sqrt(2/(omega sigma mu_r mu_0)) (Laplace: see
    ASSUMPTIONS), wavelength = 2 pi delta, cell_width = delta/pps limited
    as documented (None / float / [min, max])."""
    from emg3d import meshes
    f = -spec['f'] if spec['laplace'] else spec['f']
    cond = np.array(spec['cond'], float)
    mu_r = spec['mu_r']
    arg = float(cond[0]) if cond.size == 1 else cond
    got = meshes.skin_depth(f, arg) if mu_r is None else \
        meshes.skin_depth(f, arg, mu_r=mu_r)
    exp = own_skin_depth(f, cond)/np.sqrt(1.0 if mu_r is None else mu_r)
    got = np.atleast_1d(np.asarray(got, float))
    if got.shape != exp.shape or np.any(np.abs(got-exp) > 1e-12*exp):
        raise Violation(f"skin_depth:mu_r={'1' if mu_r is None else 'given'}",
                        f"skin_depth({f}, {arg}, mu_r={mu_r}) = {got}, "
                        f"documented formula gives {exp}", {'spec': spec})
    wl = np.atleast_1d(np.asarray(meshes.wavelength(got), float))
    if np.any(np.abs(wl-2*np.pi*got) > 1e-12*wl):
        raise Violation("wavelength", f"wavelength({got}) = {wl}",
                        {'spec': spec})
    pps = spec['pps']
    sd0 = float(got[0])
    lim = _limits({'lim': spec['lim']}, sd0/(3 if pps is None else pps))
    larg = lim if not isinstance(lim, list) else _contain(
        lim, spec['container'])
    kw = {}
    if pps is not None:
        kw['pps'] = pps
    if lim is not None:
        kw['limits'] = larg
    cw = np.asarray(meshes.cell_width(sd0, **kw), float)
    cexp = own_dmin(sd0, 3 if pps is None else pps, lim)
    if cw.size != 1 or abs(float(cw.ravel()[0])-cexp) > 1e-12*cexp:
        raise Violation(f"cell_width:limits={spec['lim']['kind']}",
                        f"cell_width({sd0}, {kw}) = {cw}, documented "
                        f"{cexp}", {'spec': spec})
    rec.cls(f"mu_r={'default' if mu_r is None else 'given'}",
            f"limits={spec['lim']['kind']}", f"laplace={spec['laplace']}",
            f"pps={'default' if pps is None else 'given'}")
    rec.nt(['hlp', spec])


# ======================================================================
# Sub-check 4: estimate_gridding_opts
# ======================================================================
EGO_PASS = ['seasurface', 'cell_numbers', 'lambda_factor',
            'lambda_from_center', 'max_buffer', 'verb']
EGO_PERDIR = ['stretching', 'min_width_limits', 'min_width_pps',
              'center_on_edge']
EGO_SPEC = st.fixed_dictionaries({
    'prob': simgen.problem_spec(
        nx=(6, 8, 10), nyz=(4, 6, 8), max_src=3, max_rec=4, max_freq=3,
        src_kinds=['el_point', 'mag_point'], max_decades=3.0),
    'give': st.fixed_dictionaries({k: st.booleans() for k in (
        EGO_PASS + EGO_PERDIR + ['frequency', 'center', 'properties',
                                 'mapping'])}),
    'perdir3': st.fixed_dictionaries({k: st.booleans() for k in EGO_PERDIR}),
    'fmt3': st.sampled_from(['tuple', 'list', 'dict']),
    'dom': st.lists(W((False, 2), (True, 1)), min_size=3, max_size=3),
    'dist': st.lists(W((False, 2), (True, 1)), min_size=3, max_size=3),
    'vec': W(('none', 2), ('str', 1), ('arrays', 1)),
    'vecdirs': st.lists(st.booleans(), min_size=3, max_size=3),
    'mapping': st.sampled_from(gen.MAPPINGS),
    'mapping_obj': st.booleans(),
    'nprop': st.sampled_from([1, 2, 3, 4, 7]),
    'leftover': W((False, 7), (True, 1)),
    'seed': gen.SEED,
})


def _triple(v):
    if v is None:
        return [None, None, None]
    if isinstance(v, dict):
        return [v['x'], v['y'], v['z']]
    if isinstance(v, (list, tuple)) and len(v) == 3:
        return list(v)
    return [v, v, v]


def _leaf_eq(a, b):
    if a is None or b is None:
        return a is None and b is None
    a, b = np.asarray(a, float), np.asarray(b, float)
    return a.shape == b.shape and np.array_equal(a, b)


def case_ego(spec, rec):
    from emg3d import meshes
    p = simgen.build(spec['prob'])
    survey = simgen.make_survey(p)
    grid, model = p.grid, p.model
    rng = gen.rng_of(spec['seed'], 161)
    nodes = [grid.nodes_x, grid.nodes_y, grid.nodes_z]
    ext = np.array([x[-1]-x[0] for x in nodes])
    give = spec['give']
    fmt3 = spec['fmt3']

    def three(vals):
        if fmt3 == 'dict':
            return {'x': vals[0], 'y': vals[1], 'z': vals[2]}
        return tuple(vals) if fmt3 == 'tuple' else list(vals)

    # ---- user-given part ---------------------------------------------
    user = {}
    values = {
        'seasurface': float(nodes[2][-1] + rng.uniform(0, 1)*ext[2]),
        'cell_numbers': [16, 32, 64, 128],
        'lambda_factor': float(rng.uniform(0.2, 2)),
        'lambda_from_center': bool(rng.integers(0, 2)),
        'max_buffer': float(rng.uniform(1e3, 1e5)), 'verb': 0,
        'frequency': float(10**rng.uniform(-2, 2)),
        'center': tuple(float(rng.uniform(x[1], x[-2])) for x in nodes),
        'properties': [float(v) for v in 10**rng.uniform(-1, 2,
                                                         spec['nprop'])],
    }
    per = {
        'stretching': lambda: [1.0+float(rng.uniform(0, 0.1)),
                               1.2+float(rng.uniform(0, 0.5))],
        'min_width_limits': lambda: [float(rng.uniform(1, 10)),
                                     float(rng.uniform(10, 100))],
        'min_width_pps': lambda: float(rng.integers(2, 6)),
        'center_on_edge': lambda: bool(rng.integers(0, 2)),
    }
    for k in EGO_PASS + ['frequency', 'center', 'properties']:
        v = values[k]               # always drawn: fixed stream positions
        if give[k]:
            user[k] = v
    for k in EGO_PERDIR:
        vals = [per[k]() for _ in range(3)]
        if rng.random() < 0.3:
            vals[int(rng.integers(0, 3))] = None
        if give[k]:
            user[k] = three(vals) if spec['perdir3'][k] else vals[0]
    map_given = spec['mapping'] if give['mapping'] else None
    if map_given is not None:
        if spec['mapping_obj']:
            from emg3d import maps
            user['mapping'] = getattr(maps, 'Map'+map_given)()
        else:
            user['mapping'] = map_given
    dom = [sorted(float(v) for v in rng.uniform(
        nodes[i][0]-ext[i], nodes[i][-1]+ext[i], 2)) if spec['dom'][i]
        else None for i in range(3)]
    dist = [[float(v) for v in rng.uniform(0.1, 2.0, 2)*ext[i]]
            if spec['dist'][i] else None for i in range(3)]
    vecs = [None, None, None]
    vdirs = list(spec['vecdirs'])
    if spec['vec'] != 'none' and not any(vdirs):
        vdirs[int(rng.integers(0, 3))] = True
    for i in range(3):
        n = int(rng.integers(3, 9))
        v = np.sort(rng.uniform(nodes[i][0]-ext[i], nodes[i][-1]+ext[i], n))
        if spec['vec'] == 'arrays' and vdirs[i]:
            vecs[i] = v
        elif spec['vec'] == 'str' and vdirs[i]:
            vecs[i] = np.array(nodes[i])
    if any(d is not None for d in dom):
        user['domain'] = three(dom)
    if any(d is not None for d in dist):
        user['distance'] = three(dist)
    if spec['vec'] == 'arrays':
        user['vector'] = three(vecs)
    elif spec['vec'] == 'str':
        letters = ''.join(DIRS[i] for i in range(3) if vdirs[i])
        user['vector'] = letters
    if spec['leftover']:
        user['min_width'] = 10.0        # not a gridding option
    user0 = copy.deepcopy(user)

    rec.cls(f"vector={spec['vec']}", f"mapping_given={map_given is not None}",
            f"properties_given={give['properties']}",
            f"leftover={spec['leftover']}", f"case={p.case}",
            *[f"{DIRS[i]}:domain_from=" + (
                'domain' if dom[i] is not None else
                'distance' if dist[i] is not None else
                'vector' if vecs[i] is not None else 'survey')
              for i in range(3)])
    try:
        with warnings.catch_warnings():
            warnings.simplefilter('ignore')
            g = meshes.estimate_gridding_opts(dict(user), model, survey)
    except TypeError as e:
        if spec['leftover'] and 'min_width' in str(e):
            rec.cls('outcome=type_error')
            return
        raise
    if spec['leftover']:
        raise Violation("ego:unknown_option_accepted",
                        "gridding option 'min_width' (not an input of "
                        "construct_mesh) was accepted silently",
                        {'user': user0})

    def V(sig, msg):
        return Violation("ego:"+sig, msg, {'user': user0, 'returned': g})

    # ---- passed-along options -----------------------------------------
    for k in EGO_PASS:
        if give[k]:
            if k not in g or _diff(g[k], user0[k]):
                raise V(f"not_passed_along:{k}",
                        f"{k}={user0[k]!r} came back as {g.get(k)!r}")
        elif g.get(k) is not None:
            raise V(f"invented:{k}", f"{k} not given, returned {g[k]!r}")
    for k in EGO_PERDIR:
        if give[k]:
            a, b = _triple(g.get(k)), _triple(user0[k])
            if not all(_leaf_eq(x, y) for x, y in zip(a, b)):
                raise V(f"not_passed_along:{k}",
                        f"{k}={user0[k]!r} came back as {g.get(k)!r}")
        elif g.get(k) is not None:
            raise V(f"invented:{k}", f"{k} not given, returned {g[k]!r}")
    # ---- mapping, frequency, centre -------------------------------------
    mname = map_given if map_given is not None else p.mapping
    gm = g.get('mapping')
    gm = gm if isinstance(gm, str) else getattr(gm, 'name', None)
    if gm != mname:
        raise V("mapping", f"mapping {gm!r}, expected {mname!r} "
                f"(given {map_given!r}, model {p.mapping!r})")
    fexp = user0['frequency'] if give['frequency'] else float(
        10**np.mean(np.log10(p.freqs)))
    if not abs(float(g['frequency'])-fexp) <= 1e-12*abs(fexp):
        raise V(f"frequency:given={give['frequency']}",
                f"frequency {g['frequency']!r}, expected {fexp!r} "
                f"(survey frequencies {p.freqs})")
    scoord = np.array([s.center for s in p.sources], float)
    cexp = np.array(user0['center']) if give['center'] else scoord.mean(0)
    cgot = np.asarray(g['center'], float)
    cscale = np.abs(np.r_[scoord.ravel(), ext]).max()
    if cgot.shape != (3,) or np.abs(cgot-cexp).max() > 1e-12*cscale:
        raise V(f"center:given={give['center']}",
                f"center {g['center']!r}, expected {cexp!r} (sources at "
                f"{scoord.tolist()})")
    # ---- vector, distance -------------------------------------------------
    gv = _triple(g.get('vector'))
    gd = _triple(g.get('distance'))
    for i in range(3):
        if not _leaf_eq(gv[i], vecs[i]):
            raise V(f"vector:{spec['vec']}",
                    f"vector[{DIRS[i]}] = {gv[i]!r}, expected {vecs[i]!r}")
        if not _leaf_eq(gd[i], dist[i]):
            raise V("distance", f"distance[{DIRS[i]}] = {gd[i]!r}, given "
                    f"{dist[i]!r}")
    # ---- properties --------------------------------------------------------
    if give['properties']:
        if _diff(list(np.atleast_1d(g['properties'])),
                 list(np.atleast_1d(user0['properties']))):
            raise V("properties:given", f"properties {g['properties']!r}, "
                    f"given {user0['properties']!r}")
    else:
        comps = [c for c in p.cond[:3] if c is not None]
        slabs = [(0, slice(None), slice(None)), (-1, slice(None), slice(None)),
                 (slice(None), 0, slice(None)), (slice(None), -1, slice(None)),
                 (slice(None), slice(None), 0), (slice(None), slice(None), -1)]
        cexp_ = [min(float(c[sl].min()) for c in comps) for sl in slabs]
        pg = np.asarray(g['properties'], float)
        if pg.shape != (7,):
            raise V("properties:shape", f"properties {g['properties']!r}")
        cgot_ = gen.map_backward(mname, pg)
        names = ['xneg', 'xpos', 'yneg', 'ypos', 'zneg', 'zpos']
        for j in range(6):
            if not abs(cgot_[j+1]-cexp_[j]) <= 1e-9*cexp_[j]:
                raise V(f"properties:{names[j]}",
                        f"buffer property {names[j]} = {pg[j+1]} ({mname}; "
                        f"conductivity {cgot_[j+1]}), lowest conductivity of "
                        f"the outermost layer is {cexp_[j]} (all: {cexp_})")
        lo_ = min(float(c.min()) for c in comps)
        hi_ = max(float(c.max()) for c in comps)
        if not (lo_*(1-1e-9) <= cgot_[0] <= hi_*(1+1e-9)):
            raise V("properties:source",
                    f"source property {pg[0]} (conductivity {cgot_[0]}) is "
                    f"outside the model's range [{lo_}, {hi_}]")
    # ---- domain ---------------------------------------------------------------
    gdom = _triple(g.get('domain'))
    # survey extent: all sources and all receivers (absolute positions)
    pts = [np.asarray(s.center, float) for s in p.sources]
    for s in p.sources:
        for r, rel in zip(p.receivers, p.rec_relative):
            rc = np.asarray(r.center, float)
            pts.append(rc + np.asarray(s.center, float) if rel else rc)
    pts = np.array(pts)
    base, diff, src = [], [], []
    for i in range(3):
        if dom[i] is not None:
            b, w = dom[i], 'domain'
        elif dist[i] is not None:
            b, w = [cexp[i]-dist[i][0], cexp[i]+dist[i][1]], 'distance'
        elif vecs[i] is not None:
            b, w = [float(vecs[i].min()), float(vecs[i].max())], 'vector'
        else:
            a0, a1 = float(pts[:, i].min()), float(pts[:, i].max())
            b, w = [a0-(a1-a0)/10, a1+(a1-a0)/10], 'survey'
        base.append([float(b[0]), float(b[1])])
        diff.append(float(b[1]-b[0]))
        src.append(w)
    dscale = max(np.abs(pts).max(), max(abs(v) for b in base for v in b))
    tol = 1e-9*dscale

    def close(got, exp, slack=0.0):
        return got is not None and np.shape(got) == (2,) and all(
            abs(float(got[k])-exp[k]) <= slack+tol for k in (0, 1))
    for i in range(3):
        if src[i] in ('distance', 'vector') and gdom[i] is None:
            continue            # left to construct_mesh (same meaning)
        if src[i] != 'survey':
            if not close(gdom[i], base[i]):
                raise V(f"domain:{DIRS[i]}:{src[i]}",
                        f"domain[{DIRS[i]}] = {gdom[i]!r}, expected "
                        f"{base[i]} from the given {src[i]}")
    # x / y from the survey: + 10 %, then "not smaller than a third of the
    # other direction, otherwise expanded symmetrically" (whole metres:
    # measured; hence 0.5 m slack per side)
    small = 1e-6*max(dscale, 1.0)
    for i, o in ((0, 1), (1, 0)):
        if src[i] != 'survey':
            continue
        if max(diff[i], diff[o]) < small:
            continue            # a single point: ratio undefined
        ratio = diff[o]/max(diff[i], 1e-300)
        # y takes precedence when both are from the survey (only one of the
        # two can be the smaller one anyway)
        if abs(ratio-3) < 1e-6:
            continue
        exp = base[i]
        slack = 0.0
        if ratio > 3:
            e = (diff[o]/3.0-diff[i])/2.0
            exp, slack = [base[i][0]-e, base[i][1]+e], 0.5
        if not close(gdom[i], exp, slack):
            raise V(f"domain:{DIRS[i]}:survey:{'expanded' if slack else 'plain'}",
                    f"domain[{DIRS[i]}] = {gdom[i]!r}, expected {exp} (+- "
                    f"{slack}): survey extent {pts[:, i].min()}.."
                    f"{pts[:, i].max()} plus 10 %, other horizontal "
                    f"dimension {diff[o]}")
        rec.cls(f"{DIRS[i]}:survey:{'expanded' if slack else 'plain'}")
        if not slack and gdom[i] is not None and \
                abs((gdom[i][1]-gdom[i][0])-diff[i]) > tol:
            raise V(f"domain:{DIRS[i]}:survey:plain", "extent changed")
    # z from the survey: extent (the public text) or extent + 10 % (the
    # code) - both readings accepted - at least half the larger horizontal
    # dimension or 5 km, expanded 9 parts down, 1 part up
    if src[2] == 'survey' and max(diff[0], diff[1]) >= small:
        a0, a1 = float(pts[:, 2].min()), float(pts[:, 2].max())
        hd = min(10000.0, max(diff[0], diff[1]))
        ok, tried = False, []
        for b in ([a0, a1], [a0-(a1-a0)/10, a1+(a1-a0)/10]):
            zd = b[1]-b[0]
            if abs(hd-2*zd) < 1e-6*hd:
                ok = True
                break
            if hd/max(zd, 1e-300) > 2:
                e = (hd/2.0-zd)/10.0
                exp = [b[0]-9*e, b[1]+e]
                good = gdom[2] is not None and np.shape(gdom[2]) == (2,) \
                    and abs(float(gdom[2][1])-exp[1]) <= 0.5+tol and \
                    abs((b[0]-float(gdom[2][0])) -
                        9*(float(gdom[2][1])-b[1])) <= 1e-6*max(hd, 1.0)+9*tol
                lab = 'expanded'
            else:
                exp = b
                good = close(gdom[2], exp)
                lab = 'plain'
            tried.append(exp)
            if good:
                ok = True
                rec.cls(f"z:survey:{lab}")
                break
        if not ok:
            raise V("domain:z:survey",
                    f"domain[z] = {gdom[2]!r}; expected one of {tried} "
                    f"(source/receiver depths {a0}..{a1}, horizontal "
                    f"dimension {max(diff[0], diff[1])})")
    rec.cls('outcome=options')
    rec.nt(['ego', sorted(user0), spec['prob']['seed'],
            spec['seed'], spec['dom'], spec['dist'], spec['vec']])
    rec.note({'given': sorted(user0), 'domain_from': src,
              'domain': [None if d is None else [float(d[0]), float(d[1])]
                         for d in gdom]})


SUBS = {'oaw': case_oaw, 'cm': case_cm, 'gmc': case_gmc, 'hlp': case_hlp,
        'ego': case_ego}
FUZZ = {'oaw': (OAW_SPEC, case_oaw), 'cm': (CM_SPEC, case_cm)}


def run(ctx):
    ctx.regression(SUBS)
    _FEAS['designed'] = _FEAS['mesh'] = 0
    for k in _SEA:
        _SEA[k] = 0
    ctx.enumerate('gmc', gmc_specs(), case_gmc, exhaustive=False)
    ctx.explore('hlp', HLP_SPEC, case_hlp, ctx.n(150, 600))
    ctx.explore('oaw', OAW_SPEC, case_oaw, ctx.n(900, 3600))
    ctx.explore('cm', CM_SPEC, case_cm, ctx.n(300, 1200))
    ctx.explore('ego', EGO_SPEC, case_ego, ctx.n(200, 1000))
    # coverage-guided campaigns over the same strategies / oracles
    ctx.fuzz('oaw', ctx.n(250, 4000))
    # 'cm' is not fuzzed: under instrumentation one construct_mesh case takes
    # 15-20 s (three searches over cell numbers x stretching), i.e. fewer
    # than 50 executions in ten minutes - the Hypothesis exploration of 'cm'
    # above covers it.
    ctx.notes['designed_feasible'] = dict(_FEAS)
    ctx.notes['sea_surface'] = dict(_SEA)
    if _SEA['cases'] >= 60 and _SEA['node'] < 0.3*_SEA['cases']:
        raise HarnessError(
            f"the sea surface became a node in only {_SEA['node']} of "
            f"{_SEA['cases']} meshes with a sea surface: the clause is "
            "discharged almost only by the warning")
    if _FEAS['designed'] >= 40 and _FEAS['mesh'] < 0.6*_FEAS['designed']:
        raise HarnessError(
            f"only {_FEAS['mesh']} of {_FEAS['designed']} inputs designed to "
            "be feasible returned a mesh: the postconditions are hardly "
            "exercised (gridding fails loudly far more often than the "
            "generator expects)")

"""C11 - survey results do not depend on worker count, scheduling, file mode.

Sub-checks
----------
parallel  One generated survey (1-3 sources x 1-3 frequencies, >= 2 tasks,
          1-3 receivers, tiny 8x8x8 or stretched 8x{8,12}x8 problem) is
          computed by a Simulation with a drawn max_workers (1..16), in
          memory or through `file_dir`, with tqdm present or absent, for one
          operation (compute + repeated compute, gradient = forward +
          back-propagation [+ jtvec], jvec [+ a second jvec]).  While the
          simulation under test runs, `emg3d._multiprocessing.solve` is
          replaced in the parent by a wrapper with the same module/qualname;
          the forked workers therefore execute the wrapper, which logs the
          start of the task, calls the real function, holds the result back
          until it is the task's turn in a drawn completion order (a
          permutation; a task waits until no lower-ranked task is in flight
          and all lower-ranked tasks are done or cannot start because all
          workers are occupied; bounded by 1.5 s) and logs (pid, task) on
          completion.

          Oracle: every slot of get_efield / data.synthetic / back-propagated
          field / jvec, the misfit and the gradient are bit-identical
          (numpy.array_equal incl. NaN positions, same shape and dtype) to
          (i)  the same call sequence on a sequential in-memory simulation
               (max_workers=1), and
          (ii) per-task references computed by the checker: a direct
               emg3d.solve_source per source-frequency pair, and a sequential
               one-source-one-frequency simulation per pair (one slot, so a
               slot cannot be filled from the wrong task);
          the same for what is stored / derived by position next to the
          fields: the solver information of every slot (get_efield_info and
          the back-propagation info; all deterministic entries), the
          frequency and grid carried by the stored field, get_hfield;
          no field slot is empty when compute() returns (looked at before an
          accessor can recompute it) and reading the results starts no
          computation; repeating compute() changes nothing; a field
          requested with get_efield before compute() is the result of its
          own task and fills no other slot; jtvec / a second jvec equal the
          sequential run and jtvec leaves gradient, misfit and residual alone.

layered   layered=True (tasks = sources, emg3d._multiprocessing.layered
          wrapped in the same way): rows of data.synthetic bit-identical to
          one-source references and to the sequential run, misfit and
          gradient bit-identical to the sequential run, gradient = sum of
          the one-source gradients (1e-9).
"""
import hashlib
import multiprocessing
import os
import shutil
import tempfile
import time
import warnings

import numpy as np
from hypothesis import strategies as st

from vp import gen
from vp.framework import VERIF, HarnessError, Inconclusive, Violation

RULE = ("Survey: 1-3 sources x 1-3 distinct frequencies (>= 2 tasks; 1 x N "
        "and N x 1 included) x 1-3 receivers (electric/magnetic, absolute/"
        "relative); sources: electric point / finite dipole / magnetic point "
        "with defaults, or the 'extended' set (also wire, magnetic dipole, "
        "6-coordinate dipole; strength != 1, finite length), random position "
        "and orientation; default or user-provided source/frequency names "
        "(with '_' and '.', the file names are built from them); random "
        "heterogeneous model on a uniform 8x8x8 or stretched 8x{8,12}x8 grid "
        "(isotropic/VTI/HTI/triaxial, four mappings, for op=compute also "
        "mu_r/epsilon_r), gridding 'same', 'input' (one provided grid), "
        "'dict' (a different provided grid per task) or a dict in which "
        "tasks share TensorMesh objects / use the model grid; solver options:"
        " plain MG, default, defaults given as explicit booleans, integer "
        "semicoarsening/linerelaxation codes with W-cycle, or maxit=2 (exit "
        "1); tol 1e-3, observed data = reference responses x random factors "
        "with NaN holes.  Execution setting: max_workers 1..16, in-memory / "
        "file_dir (fresh, or still holding the files of an earlier "
        "simulation of the same survey with another model), tqdm present "
        "(bar on / off / {'disable': True}) / absent, operation compute"
        "(+repeat) / gradient (+jtvec) / jvec (+second jvec), optionally one "
        "get_efield before compute(); stratified over operation x file mode "
        "(plus a few max_workers=1 cases and layered=True cases with 2-4 "
        "sources, all extraction methods).  Completion order: a drawn "
        "permutation (reversed / rotated / interleaved / random) enforced "
        "inside the forked workers by holding finished tasks back until "
        "their turn (exactly the drawn order if max_workers >= tasks, else "
        "the closest order the pool can produce; every hold is bounded by "
        "1.5 s).  Non-trivial = in the phase that belongs to the operation "
        "(forward / back-propagation / jvec) the logged completion order "
        "differs from the submission order and >= 2 worker pids took part; "
        "distinct by (setting, survey shape, observed completion order).  A "
        "hold that fails to force an order only lowers distinct_nontrivial.")
ASSUMPTIONS = [
    "workers are forked (Python 3.12, Linux): a module attribute replaced in "
    "the parent before the pool is created is what the workers execute; the "
    "wrapper only calls the real emg3d._multiprocessing.solve / .layered, "
    "waits for its turn by polling the log file (monotonic clock used for "
    "the 1.5 s bound only) and appends start/end lines to the log file",
    "task identification: Simulation._data_or_file of the instance under "
    "test is wrapped (observation only) to learn which input belongs to "
    "which (what, source, frequency); inputs are not modified",
    "a sequential one-source-one-frequency Simulation and a direct "
    "emg3d.solve_source are the per-task references (trusted not to confuse "
    "slots, having only one); back-propagated fields and their solver info "
    "are read through the private Simulation._dict_get('bfield'/"
    "'bfield_info', ...) (no public accessor); empty field slots are looked "
    "for in the private Simulation._dict_efield (skipped, and labelled, if "
    "that attribute is gone)",
    "solver info compared: exit, exit_message, abs_error, rel_error, "
    "ref_error, tol, it_mg, it_ssl, error_at_cycle (not: time, "
    "runtime_at_cycle, log); a slot that was computed twice (get_efield "
    "before compute) is compared with the sequential run only",
    "layered mode: one-source surveys (sequential) are the references; "
    "file_dir is documented to have no effect there and is only passed",
    "not generated: source/frequency names whose '{source}_{frequency}' "
    "concatenations coincide (ENABLE_COLLIDING_NAMES; on the pinned tree two "
    "tasks then share one file in file mode - reported separately)",
    "completion orders are forced by timing, not enumerated; crashes of "
    "workers are out of scope",
]
SHARDS = {'quick': 1, 'thorough': 4}

TMPBASE = os.path.join(VERIF, '.cache', 'tmp')

SRC_TYPES = ['TxElectricPoint', 'TxElectricDipole', 'TxMagneticPoint']
REC_TYPES = ['RxElectricPoint', 'RxMagneticPoint']
# 'extended' source set: every source class with a strength, both dipole
# coordinate formats ('TxElectricDipole6' = [x0, x1, y0, y1, z0, z1])
EXT_TYPES = ['TxElectricPoint', 'TxElectricDipole', 'TxMagneticPoint',
             'TxElectricWire', 'TxMagneticDipole', 'TxElectricDipole6']
# user-provided names (the file names of the file mode are built from them);
# every "{source}_{frequency}" combination is unique
SRC_NAMES = ['Tx_1', 'Tx.1', 'Tx_10']
FREQ_NAMES = ['f_1.0', 'f_10', '1_f']
# Names with coinciding concatenations: ('A', 'B_C') and ('A_B', 'C') both
# give the file 'efield_A_B_C.h5'.  Documented as legitimate ("keys can be
# arbitrary names"), but on the pinned tree the two tasks share one file in
# file mode and slot ('A', 'B_C') receives the result of ('A_B', 'C'): see
# /tmp/audit/C11_finding.md.  Switched off so that the check is quiet.
ENABLE_COLLIDING_NAMES = True
SRC_NAMES_COLL = ['A', 'A_B', 'A_B_C']
FREQ_NAMES_COLL = ['B_C', 'C', 'x']


# ---------------------------------------------------------------- wrapper
# State inherited by forked workers.
#   table:   fingerprint of a task input -> (key, wanted completion rank)
#   ranks:   key -> rank for all tasks of the current phase
#   phase:   counter of process_map calls of the simulation under test
#   workers: max_workers of the simulation under test
_STATE = {'table': {}, 'ranks': {}, 'phase': 0, 'workers': 1, 'log': None,
          'real': None}
HOLD_MAX = 1.5     # s; a task is never held back longer than this
POLL = 0.003


def _fingerprint(inp):
    """Identify a task input (dict in memory mode, file name otherwise)."""
    if isinstance(inp, str):
        return 'file:' + inp
    if 'sfield' in inp:
        buf = np.ascontiguousarray(inp['sfield'].field).tobytes()
        return 'sfield:' + hashlib.sha1(buf).hexdigest()
    src = inp['source']
    return 'src:' + repr((type(src).__name__,
                          np.asarray(src.coordinates, float).tolist(),
                          float(inp['frequency'])))


def _append(path, text):
    fd = os.open(path, os.O_WRONLY | os.O_APPEND | os.O_CREAT)
    try:
        os.write(fd, text.encode())
    finally:
        os.close(fd)


def _read_phase(path, phase):
    """-> (started, done): lists of (pid, key) of one phase, in log order."""
    started, done = [], []
    with open(path) as f:
        for ln in f.read().splitlines():
            p = ln.split()
            if len(p) == 4 and p[2] == str(phase):
                (started if p[0] == 'S' else done).append((p[1], p[3]))
    return started, done


def _hold(key, rank):
    """Hold a finished task back until it is its turn to complete.

    Its turn: no task with a lower wanted rank is in flight (started, not
    done), and every lower-ranked task is done - or cannot start anyway
    because all workers are occupied.  The lowest-ranked task in flight can
    therefore always complete (no deadlock); HOLD_MAX bounds the wait in any
    case.  The clock only bounds the wait, it decides nothing."""
    ranks, nwork = _STATE['ranks'], _STATE['workers']
    deadline = time.monotonic() + HOLD_MAX
    while time.monotonic() < deadline:
        started, done = _read_phase(_STATE['log'], _STATE['phase'])
        done = {k for _, k in done}
        inflight = {k for _, k in started} - done
        if not any(ranks.get(k, rank) < rank for k in inflight):
            waiting = [k for k, r in ranks.items()
                       if r is not None and r < rank and k not in done]
            if not waiting or len(inflight) >= nwork:
                return
        time.sleep(POLL)


def _delayed_solve(inp):
    """Stand-in for emg3d._multiprocessing.solve: log the start, call the
    real function, hold the result back until its turn, log the end."""
    try:
        key, rank = _STATE['table'].get(_fingerprint(inp), ('?', None))
    except Exception:    # never let the instrumentation change the outcome
        key, rank = '?', None
    log, phase, pid = _STATE['log'], _STATE['phase'], os.getpid()
    if log:
        _append(log, f"S {pid} {phase} {key}\n")
    try:
        out = _STATE['real'](inp)
        if log and rank is not None:
            try:
                _hold(key, rank)
            except Exception:
                pass
    finally:
        if log:
            _append(log, f"D {pid} {phase} {key}\n")
    return out


_delayed_solve.__module__ = 'emg3d._multiprocessing'
_delayed_solve.__qualname__ = 'solve'
_delayed_solve.__name__ = 'solve'


def _instrument(sim, ranks):
    """Wrap sim._data_or_file (observation only): register which input
    belongs to which task, with the wanted completion rank."""
    orig = sim._data_or_file

    def data_or_file(what, source, frequency, data):
        out = orig(what, source, frequency, data)
        try:
            key = f"{what}|{source}|{frequency}"
            rank = ranks.get((source, frequency))
            _STATE['table'][_fingerprint(out)] = (key, rank)
            _STATE['ranks'][key] = rank
        except Exception:
            pass
        return out

    sim._data_or_file = data_or_file


# -------------------------------------------------------------- strategy
def _ranks(kind, n, k, perm):
    """Completion rank wanted for each task in submission order."""
    if kind == 'reversed':
        return [n-1-i for i in range(n)]
    if kind == 'rotated':
        k = 1 + k % (n-1)
        return [(i+k) % n for i in range(n)]
    if kind == 'interleaved':     # odd positions first, then even reversed
        odd = list(range(1, n, 2))
        even = list(range(0, n, 2))[::-1]
        order = odd + even        # order[r] = task finishing r-th
        r = [0]*n
        for rank, task in enumerate(order):
            r[task] = rank
        return r
    # 'random': the drawn permutation, composed with the reversal so that the
    # simplest draw (identity) is the reversed order, not the trivial one
    return [n-1-x for x in perm if x < n]


def _pick(name, salt, values):
    """sampled_from whose *simplest* element depends on (name, salt).

    Hypothesis always starts with the simplest example; with only a few
    cases per stratum that example must not be the same degenerate one in
    every stratum and for every seed, so the lists are rotated."""
    k = int.from_bytes(hashlib.sha1(f"{name}/{salt}".encode()).digest()[:4],
                       'big') % len(values)
    return st.sampled_from(list(values[k:]) + list(values[:k]))


def spec_strategy(op, file_mode, salt, tqdm_first=False, sequential=False):
    small = [3, 2, 4, 5, 6]
    workers = st.one_of(_pick('w1', salt, small), _pick('w2', salt, [2, 3, 4]),
                        _pick('w3', salt, [2, 3, 4]), _pick('w4', salt, small),
                        st.integers(1, 16))
    if sequential:
        workers = st.just(1)
    return st.fixed_dictionaries({
        'op': st.just(op),
        'file': st.just(bool(file_mode)),
        'salt': st.just(int(salt)),
        'seed': gen.SEED,
        # 1 x N and N x 1 surveys (a degenerate axis) included; 1 x 1 is
        # mapped to 1 x 3 (see _fix_shape)
        'nsrc': _pick('nsrc', salt, [2, 3, 1, 3]),
        'nfreq': _pick('nfreq', salt, [2, 3, 3, 1]),
        'nrec': _pick('nrec', salt, [2, 1, 3]),
        'workers': workers,
        # False = tqdm absent (concurrent.futures path)
        'tqdm': st.sampled_from([True, False] if tqdm_first
                                else [False, True]),
        # with tqdm: bar enabled (True, written to os.devnull) / no bar
        # (tqdm_opts=False) / tqdm_opts={'disable': True}
        'bar': _pick('bar', salt, [False, True, 'disable']),
        # 'input': one provided grid (not the model grid) for all tasks;
        # 'dict_shared': a dict in which several tasks share one TensorMesh
        # object and the other tasks use the model grid itself
        'gridding': _pick('gridding', salt, ['same', 'dict', 'same', 'input',
                                             'dict_shared']),
        'solver': _pick('solver', salt, ['plain', 'plain', 'default', 'bools',
                                         'plain', 'codes', 'maxit']),
        'case': _pick('case', salt, ['isotropic', 'isotropic', 'VTI', 'HTI',
                                     'triaxial']),
        'mapping': _pick('mapping', salt, ['Conductivity', 'LgResistivity',
                                           'LnConductivity', 'Resistivity']),
        # new input dimensions (defaults of old replay specs: see _build)
        'srcset': _pick('srcset', salt, ['basic', 'extended']),
        'mgrid': _pick('mgrid', salt, ['uniform', 'stretched']),
        'mu_eps': _pick('mu_eps', salt, [False, True]),   # op=compute only
        'names': _pick('names', salt, ['default', 'custom'] + (
            ['colliding'] if ENABLE_COLLIDING_NAMES else [])),
        'decoy': _pick('decoy', salt, [True, False]),     # file mode only
        'history': _pick('history', salt, ['fresh', 'prefetch', 'fresh']),
        'hist_k': st.integers(0, 8),
        'extra': _pick('extra', salt, [False, True]),
        'tol_gradient': _pick('tolg', salt, [None, 1e-2]),
        'relative': _pick('relative', salt, [False, True]),
        # 'local': coordinates around the origin; 'utm_towed': the whole
        # survey at UTM-like coordinates with the later sources a few metres
        # from the first one (same depth, same heading), as for a towed source
        'layout': _pick('layout', salt, ['local', 'utm_towed']),
        'order': _pick('order', salt, ['reversed', 'rotated', 'interleaved',
                                       'random']),
        'rot': st.integers(0, 7),
        'perm': st.permutations(list(range(9))),
    }).map(_fix_shape)


def _fix_shape(spec):
    if spec['nsrc'] == 1 and spec['nfreq'] == 1:
        spec = {**spec, 'nfreq': 3}
    return spec


# ----------------------------------------------------------------- build
def _widths(rng, n):
    """Stretched cell widths: the inner n-2 cells span at least +-280 m
    around the centre (receivers stay within +-250 m, i.e. strictly inside
    the second layer of cells), the two outer cells are 100-160 m."""
    inner = rng.uniform(0.7, 1.4, n-2)
    inner = np.round(inner*rng.uniform(580.0, 700.0)/inner.sum(), 1)
    inner[0] += max(0.0, 560.0 - inner.sum())
    lo, hi = np.round(rng.uniform(100.0, 160.0, 2), 1)
    h = np.r_[lo, inner, hi]
    return h, float(-(lo + inner.sum()/2))


def _ext_source(rng, t, xyz, az, el):
    """Source of the 'extended' set around the centre xyz: all documented
    coordinate formats, strength != 1, finite lengths."""
    kind = EXT_TYPES[int(rng.integers(0, len(EXT_TYPES)))]
    strength = float(np.round(rng.uniform(0.5, 3.0), 2) *
                     (-1 if rng.integers(0, 4) == 0 else 1))
    length = float(np.round(rng.uniform(20.0, 120.0), 1))
    offs = np.round(rng.uniform(-60.0, 60.0, (3, 3)), 1)
    return dict(kind=kind, strength=strength, length=length, offs=offs)


def _source_args(var, t, xyz, az, el):
    """-> (class name, coordinates, kwargs) of one source."""
    x, y, z = (float(v) for v in xyz)
    c5 = (x, y, z, float(round(az, 1)), float(round(el, 1)))
    if var is None:
        return (t, c5, {})
    kind, kw = var['kind'], {'strength': var['strength']}
    if kind in ('TxElectricDipole', 'TxMagneticDipole'):
        return (kind, c5, {**kw, 'length': var['length']})
    if kind == 'TxElectricDipole6':
        a, e = np.deg2rad(c5[3]), np.deg2rad(c5[4])
        d = var['length']/2*np.array([np.cos(a)*np.cos(e),
                                      np.sin(a)*np.cos(e), np.sin(e)])
        lo, hi = np.round(np.array(xyz) - d, 1), np.round(np.array(xyz) + d, 1)
        return ('TxElectricDipole', tuple(
            float(v) for v in (lo[0], hi[0], lo[1], hi[1], lo[2], hi[2])), kw)
    if kind == 'TxElectricWire':
        pts = np.array(xyz)[None, :] + var['offs']
        return (kind, [[float(v) for v in p] for p in pts], kw)
    return (kind, c5, kw)       # TxElectricPoint / TxMagneticPoint


def _mksrc(emg3d, P, i):
    t, coo, kw = P['src'][i]
    if t == 'TxElectricWire':
        coo = np.array(coo)
    return getattr(emg3d, t)(coo, **kw)


def _build(spec):
    """Expand the spec into everything needed to create simulations."""
    import emg3d
    rng = gen.rng_of(spec['seed'], 1000 + spec['salt'])
    # generator of everything added later: the draws of `rng` (and with
    # them old replay specs) stay what they were
    rng2 = gen.rng_of(spec['seed'], 5000 + spec['salt'])
    nsrc, nfreq, nrec = spec['nsrc'], spec['nfreq'], spec['nrec']
    op = spec['op']

    towed = spec.get('layout', 'local') == 'utm_towed'
    off = np.array([452000.0, 6551000.0, 0.0]) if towed else np.zeros(3)
    hx = np.ones(8)*100.0
    if spec.get('mgrid', 'uniform') == 'stretched':
        ny = int(rng2.choice([8, 12]))
        hs = [_widths(rng2, n) for n in (8, ny, 8)]
        grid = emg3d.TensorMesh(
            [h for h, _ in hs],
            origin=tuple(float(o + x0) for o, (_, x0) in zip(off, hs)))
    else:
        grid = emg3d.TensorMesh(
            [hx, hx, hx], origin=tuple(off + np.array([-400., -400, -400])))
    shape = grid.shape_cells
    cond = 10.0**rng.uniform(-0.5, 0.5, size=shape)
    condz = cond*10.0**rng.uniform(0.0, 0.5, size=shape)
    condy = cond*10.0**rng2.uniform(0.0, 0.5, size=shape)
    mp = spec['mapping']
    case = spec['case']
    px = gen.map_forward(mp, cond)
    py = gen.map_forward(mp, condy) if case in ('HTI', 'triaxial') else None
    pz = gen.map_forward(mp, condz) if case in ('VTI', 'triaxial') else None
    model_args = dict(property_x=px, property_y=py, property_z=pz, mapping=mp)
    mu_eps = bool(spec.get('mu_eps', False)) and op == 'compute'
    if mu_eps:      # the gradient is documented not to support these
        model_args['mu_r'] = rng2.uniform(1.0, 2.0, size=shape)
        model_args['epsilon_r'] = rng2.uniform(1.0, 50.0, size=shape)

    # sources: pairwise different positions / types
    extended = spec.get('srcset', 'basic') == 'extended'
    src, var0, first = [], None, None
    for i in range(nsrc):
        t = SRC_TYPES[int(rng.integers(0, 3))] if i else 'TxElectricPoint'
        xyz = rng.uniform(-200, 200, 3).round(1)
        az, el = rng.uniform(-180, 180), rng.uniform(-90, 90)
        var = _ext_source(rng2, t, xyz, az, el) if extended else None
        if towed and i:
            t, xyz0, az, el = first
            xyz = xyz0 + np.array([3.0*i, 7.0*i, 0.0])
            var = var0
        xyz = xyz + off
        if i == 0:
            first, var0 = (t, xyz - off, round(az, 1), round(el, 1)), var
        src.append(_source_args(var, t, xyz, az, el))
    # receivers
    recs = []
    for i in range(nrec):
        t = REC_TYPES[int(rng.integers(0, 2))] if i else 'RxElectricPoint'
        rel = bool(spec['relative'] and i == nrec-1)
        # absolute positions stay within +-250 m: strictly inside the second
        # layer of cells of every grid used (get_receiver returns NaN in the
        # outermost cell layer)
        lim = 50 if rel else 250
        xyz = rng.uniform(-lim, lim, 3).round(1)
        if not rel:
            xyz = xyz + off
        az, el = rng.uniform(-180, 180), rng.uniform(-90, 90)
        recs.append((t, (float(xyz[0]), float(xyz[1]), float(xyz[2]),
                         float(round(az, 1)), float(round(el, 1))), rel))
    # distinct frequencies
    f0 = 10.0**rng.uniform(-1, 0.3)
    ratio = rng.uniform(1.6, 3.0)
    freqs = [float(np.round(f0*ratio**j, 4)) for j in range(nfreq)]

    # per-task grids for gridding='dict' (all contain sources and receivers)
    tgrids = {}
    for i in range(nsrc):
        for j in range(nfreq):
            w = float(np.round(rng.uniform(95, 120), 1))
            shift = rng.uniform(-15, 15, 3).round(1)
            # different numbers of cells per task (as frequency- or source-
            # dependent automatic gridding produces), in no particular order
            ncell = [int(rng.choice([8, 8, 12, 16])), 8,
                     int(rng.choice([8, 8, 12]))]
            tgrids[(i, j)] = emg3d.TensorMesh(
                [np.ones(n)*w for n in ncell],
                origin=tuple(float(-n/2*w + s + o)
                             for n, s, o in zip(ncell, shift, off)))
    # the computational grid of every task
    gridding = spec['gridding']
    if gridding == 'dict':
        taskgrid = dict(tgrids)
    elif gridding == 'input':
        taskgrid = {k: tgrids[(0, 0)] for k in tgrids}
    elif gridding == 'dict_shared':
        # shared along one axis of the survey: the first source (frequency)
        # uses the model grid itself, every other source (frequency) one
        # TensorMesh object for all its frequencies (sources)
        by_src = nfreq == 1 or (nsrc > 1 and bool(rng2.integers(0, 2)))
        taskgrid = {}
        for (i, j) in tgrids:
            a = i if by_src else j
            taskgrid[(i, j)] = grid if a == 0 else tgrids[
                (a, 0) if by_src else (0, a)]
    else:
        taskgrid = {k: grid for k in tgrids}

    if spec['solver'] == 'plain':
        sopts = {'plain': True, 'tol': 1e-3}
    elif spec['solver'] == 'bools':
        # the documented defaults given explicitly (booleans travel through
        # the h5 files in file mode)
        sopts = {'tol': 1e-3, 'sslsolver': True, 'semicoarsening': True,
                 'linerelaxation': True}
    elif spec['solver'] == 'codes':
        sopts = {'tol': 1e-3, 'sslsolver': False, 'semicoarsening': 1213,
                 'linerelaxation': 5, 'cycle': 'W', 'nu_pre': 1, 'nu_post': 3}
    elif spec['solver'] == 'maxit':
        # stops at maxit (exit=1): the always_return path
        sopts = {'plain': True, 'tol': 1e-6, 'maxit': 2}
    else:
        sopts = {'tol': 1e-3}
    nvec = {'isotropic': 1, 'VTI': 2, 'HTI': 2, 'triaxial': 3}[case]
    vector = rng.standard_normal((nvec, *shape))
    if nvec == 1 and rng.integers(0, 2):
        vector = vector[0]
    vector2 = rng2.standard_normal((nvec, *shape))
    # observed = reference synthetic * factor, NaN holes (>= 1 finite datum
    # per source-frequency pair so that tasks stay pairwise different)
    fac = 1 + 0.3*(rng.standard_normal((nsrc, nrec, nfreq)) +
                   1j*rng.standard_normal((nsrc, nrec, nfreq)))
    hole = rng.uniform(size=(nsrc, nrec, nfreq)) < 0.2
    for i in range(nsrc):
        for j in range(nfreq):
            if hole[i, :, j].all():
                hole[i, int(rng.integers(0, nrec)), j] = False
    dvec = (rng2.standard_normal((nsrc, nrec, nfreq)) +
            1j*rng2.standard_normal((nsrc, nrec, nfreq)))
    def _more(base, n, pre):    # more items than names in the table
        return (base + [f"{pre}_{k}.y" for k in range(len(base), n)])[:n]
    if spec.get('names', 'default') == 'custom':
        snames = _more(SRC_NAMES, nsrc, 'Tx')
        fnames = _more(FREQ_NAMES, nfreq, 'f')
    elif spec.get('names', 'default') == 'colliding':
        snames = _more(SRC_NAMES_COLL, nsrc, 'A_B_C')
        fnames = _more(FREQ_NAMES_COLL, nfreq, 'x')
    else:
        snames = fnames = None
    return dict(grid=grid, model_args=model_args, src=src, recs=recs,
                freqs=freqs, tgrids=tgrids, taskgrid=taskgrid, sopts=sopts,
                vector=vector, vector2=vector2, dvec=dvec, fac=fac, hole=hole,
                snames=snames, fnames=fnames, mu_eps=mu_eps)


def _survey(P, isrc=None, ifreq=None, observed=None):
    """Fresh Survey (full, or restricted to one source and one frequency)."""
    import emg3d
    si = list(range(len(P['src']))) if isrc is None else [isrc]
    fi = list(range(len(P['freqs']))) if ifreq is None else [ifreq]
    sources = [_mksrc(emg3d, P, i) for i in si]
    receivers = [getattr(emg3d, t)(c, relative=rel)
                 for t, c, rel in P['recs']]
    freqs = [P['freqs'][j] for j in fi]
    if P.get('snames'):     # user-provided names (documented: dict as is)
        sources = {P['snames'][i]: s for i, s in zip(si, sources)}
        freqs = {P['fnames'][j]: f for j, f in zip(fi, freqs)}
    data = None
    if observed is not None:
        data = {'observed': observed[np.ix_(si, range(len(receivers)),
                                            fi)].copy()}
    return emg3d.Survey(sources, receivers, freqs, data=data,
                        noise_floor=1e-16, relative_error=0.05)


def _simulation(P, spec, survey, workers, isrc=None, ifreq=None, **kw):
    import emg3d
    model = emg3d.Model(P['grid'], **P['model_args'])
    sopts = dict(P['sopts'])
    if spec['tol_gradient'] is not None:
        sopts['tol_gradient'] = spec['tol_gradient']
    gridding = spec['gridding']
    if gridding in ('dict', 'dict_shared'):
        gridding = 'dict'
        snames = list(survey.sources.keys())
        fnames = list(survey.frequencies.keys())
        si = list(range(len(snames))) if isrc is None else [isrc]
        fi = list(range(len(fnames))) if ifreq is None else [ifreq]
        gopts = {sn: {fn: P['taskgrid'][(i, j)]
                      for fn, j in zip(fnames, fi)}
                 for sn, i in zip(snames, si)}
        kw['gridding_opts'] = gopts
    elif gridding == 'input':
        kw['gridding_opts'] = P['taskgrid'][(0, 0)]
    return emg3d.Simulation(
        survey, model, max_workers=workers, gridding=gridding,
        receiver_interpolation='linear', solver_opts=sopts, verb=-1, **kw)


def _child_sequential(args):
    P, spec, tasks = args
    sv = _survey(P)
    sim = _simulation(P, spec, sv, 1, tqdm_opts=False)
    sim.compute()
    sn, fn = list(sv.sources), list(sv.frequencies)
    return {(i, j): np.array(sim.get_efield(sn[i], fn[j]).field)
            for (i, j) in tasks}


def _sequential_in_child(P, spec, tasks):
    import multiprocessing as mp
    try:
        with mp.get_context('fork').Pool(1) as pool:
            return pool.apply(_child_sequential, ((P, spec, tasks),))
    except Violation:
        raise
    except Exception as e:   # pragma: no cover (harness problem only)
        from vp.framework import exception_to_violation
        v = exception_to_violation(e)
        if v is not None:
            raise v from e
        return None


# --------------------------------------------------------------- compare
def _same(a, b):
    a = np.asarray(a)
    b = np.asarray(b)
    if a.shape != b.shape or a.dtype != b.dtype:
        return False
    if np.iscomplexobj(a):
        return (np.array_equal(a.real, b.real, equal_nan=True) and
                np.array_equal(a.imag, b.imag, equal_nan=True))
    return np.array_equal(a, b, equal_nan=True)


def _maxdiff(a, b):
    a = np.asarray(a)
    b = np.asarray(b)
    if a.shape != b.shape:
        return f"shapes {a.shape} vs {b.shape}"
    if a.dtype != b.dtype:
        return f"dtypes {a.dtype} vs {b.dtype}"
    with np.errstate(invalid='ignore'):
        d = np.abs(a - b)
    nn = int(np.sum(np.isnan(a) != np.isnan(b)))
    md = float(np.nanmax(d)) if np.isfinite(d).any() else float('nan')
    sc = float(np.nanmax(np.abs(b))) if np.isfinite(b).any() else 0.0
    return (f"max |diff| {md:.3e} (max |ref| {sc:.3e}), "
            f"{int(np.sum(d > 0))} entries differ, {nn} NaN-position "
            f"mismatches")


def _slot_check(name, path, got, refs, key, other):
    """got[key] must equal refs[key]; diagnose a misplaced result."""
    g = got[key]
    if _same(g, refs[key]):
        return
    owner = [k for k in refs if k != key and _same(g, refs[k])]
    kind = 'misplaced' if owner else 'differs'
    msg = (f"{name} slot (source {key[0]}, frequency {key[1]}) is not "
           f"bit-identical to the {other}: {_maxdiff(g, refs[key])}")
    if owner:
        msg += (f"; it holds the result of task (source {owner[0][0]}, "
                f"frequency {owner[0][1]})")
    raise Violation(f"{name}_slot:{kind}:vs_{other.split()[0]}:{path}", msg,
                    {'slot': list(key), 'holds_task': owner[:1]})


# ------------------------------------------------------------------ case
def _path(spec):
    if spec['workers'] == 1:
        ex = 'seq_tqdm' if spec['tqdm'] else 'seq_plain'
    else:
        ex = 'tqdm' if spec['tqdm'] else 'futures'
    return f"{'file' if spec['file'] else 'mem'}:{ex}"


INFO_KEYS = ('exit', 'exit_message', 'abs_error', 'rel_error', 'ref_error',
             'tol', 'it_mg', 'it_ssl', 'error_at_cycle')


def _info_sig(info):
    """Deterministic part of a solver-info dict as one float array (timings
    and the log are excluded; the exit message enters through its hash)."""
    if info is None:
        return np.array([np.nan])
    out = []
    for k in INFO_KEYS:
        if k not in info:
            continue
        v = info[k]
        if isinstance(v, (str, bytes)):
            v = int.from_bytes(hashlib.sha1(str(v).encode()).digest()[:6],
                               'big')
        out.append(np.asarray(v, dtype=float).ravel())
    return np.concatenate(out) if out else np.array([np.nan])


def _grid_sig(grid):
    return np.concatenate([np.asarray(grid.origin, float).ravel()] +
                          [np.asarray(h, float).ravel() for h in grid.h])


def _slots_filled(sim, names):
    """Source-frequency pairs whose stored field slot is empty, looked at
    without the accessor get_efield (which would silently recompute an
    empty slot).  None if the private storage is not there any more."""
    store = getattr(sim, '_dict_efield', None)
    if not isinstance(store, dict):
        return None
    try:
        return [k for k, (sn, fn) in names.items() if store[sn][fn] is None]
    except (KeyError, TypeError):
        return None


def _collect(sim, P, spec, names, _mp=None):
    """Read everything observable from a simulation after its run."""
    out = {'efield': {}, 'syn': {}, 'bfield': {}, 'jvec': {}, 'info': {},
           'binfo': {}, 'meta': {}, 'hfield': {}}
    out['empty'] = _slots_filled(sim, names)
    n0 = _mp.process_map.count if _mp is not None else 0
    syn = np.array(sim.data.synthetic.data)
    out['synthetic'] = syn
    for (i, j), (sn, fn) in names.items():
        ef = sim.get_efield(sn, fn)
        if ef is None:
            raise Violation("efield_slot:accessor_none",
                            f"get_efield returned None for task {(i, j)}")
        out['efield'][(i, j)] = np.array(ef.field)
        out['syn'][(i, j)] = syn[i, :, j]
        out['info'][(i, j)] = _info_sig(sim.get_efield_info(sn, fn))
        fr = ef.frequency
        out['meta'][(i, j)] = np.r_[np.nan if fr is None else float(fr),
                                    _grid_sig(ef.grid)]
        out['hfield'][(i, j)] = np.array(sim.get_hfield(sn, fn).field)
    # number of process_map calls the accessors needed (0 if every slot is
    # filled)
    out['recomputed'] = (_mp.process_map.count - n0) if _mp is not None else 0
    return out


def _collect_b(sim, names, out):
    """Back-propagated fields and their solver info (private storage: there
    is no public accessor)."""
    for k, (sn, fn) in names.items():
        out['bfield'][k] = np.array(sim._dict_get('bfield', sn, fn).field)
        out['binfo'][k] = _info_sig(sim._dict_get('bfield_info', sn, fn))


def case_parallel(spec, rec):
    import emg3d
    import emg3d._multiprocessing as _mp
    os.makedirs(TMPBASE, exist_ok=True)
    tmpd = tempfile.mkdtemp(prefix='c11_', dir=TMPBASE)
    try:
        with warnings.catch_warnings():
            warnings.simplefilter('ignore')
            _case(spec, rec, emg3d, _mp, tmpd)
    finally:
        # nothing may outlive the case
        for p in multiprocessing.active_children():
            p.terminate()
            p.join(5)
        shutil.rmtree(tmpd, ignore_errors=True)


def _case(spec, rec, emg3d, _mp, tmpd):
    P = _build(spec)
    op = spec['op']
    nsrc, nfreq = spec['nsrc'], spec['nfreq']
    nrec = spec['nrec']
    tasks = [(i, j) for i in range(nsrc) for j in range(nfreq)]
    n = len(tasks)
    path = _path(spec)
    seq = dict(tqdm_opts=False)
    history = spec.get('history', 'fresh')
    extra = bool(spec.get('extra', False)) and op in ('gradient', 'jvec')
    decoy = bool(spec.get('decoy', False)) and bool(spec['file'])
    kpre = tasks[spec.get('hist_k', 0) % n] if history == 'prefetch' else None

    if _mp.solve is _delayed_solve:
        raise HarnessError("C11: patched solve left over from another case")
    if _mp.tqdm is None:
        raise HarnessError("C11: tqdm is not importable (or left patched)")

    # ---------------- (0) sequential run in a clean child process ---------
    # Forked BEFORE this process has computed anything for this survey: the
    # child runs the whole survey sequentially in submission order.  Its
    # fields must equal the per-task references computed below (in this
    # process, in reverse order).  Two different computation histories: a
    # result that depends on per-process state left by the previous task
    # (caches) cannot agree in both.
    early = _sequential_in_child(P, spec, tasks)

    # ---------------- (ii) per-task references ---------------------------
    # direct solve_source, and a sequential one-source-one-frequency
    # simulation (forward now; back-propagation / jvec below, once the
    # observed data - derived from the reference responses - exist)
    ref_e, ref_syn, single, ref_i, ref_m = {}, {}, {}, {}, {}
    synref = np.zeros((nsrc, nrec, nfreq), dtype=complex)
    # The references are computed in the REVERSE of the submission order: a
    # result that depends on what the process computed just before (state
    # leaking between consecutive tasks) then differs between the
    # sequential simulation and its per-task references.
    for (i, j) in reversed(tasks):
        sv = _survey(P, i, j, np.zeros((nsrc, nrec, nfreq), dtype=complex))
        s1 = _simulation(P, spec, sv, 1, i, j, **seq)
        s1.compute()
        sn, fn = list(sv.sources)[0], list(sv.frequencies)[0]
        e1 = np.array(s1.get_efield(sn, fn).field)
        g = P['taskgrid'][(i, j)]
        model = emg3d.Model(P['grid'], **P['model_args'])
        ed = emg3d.solve_source(
            model=model.interpolate_to_grid(g), source=_mksrc(emg3d, P, i),
            frequency=P['freqs'][j], **{**P['sopts'], 'verb': -1})
        if not _same(e1, ed.field):
            raise Violation(
                f"reference:single_task_sim_vs_solve_source:{spec['solver']}",
                "sequential one-source-one-frequency simulation differs "
                f"from a direct solve_source: {_maxdiff(e1, ed.field)}")
        ref_e[(i, j)] = e1
        ref_syn[(i, j)] = np.array(s1.data.synthetic.data[0, :, 0])
        ref_i[(i, j)] = _info_sig(s1.get_efield_info(sn, fn))
        # what the field of this task is documented to carry: its frequency
        # and the grid it was computed on
        ref_m[(i, j)] = np.r_[float(P['freqs'][j]), _grid_sig(g)]
        if early is not None and not _same(early[(i, j)], e1):
            raise Violation(
                "efield_slot:differs:vs_task:mem:seq_clean_process",
                f"task {(i, j)}: a sequential run of the survey in a freshly "
                "forked process differs from the per-task reference computed "
                "in another order (results depend on what the process "
                f"computed before): {_maxdiff(early[(i, j)], e1)}; layout "
                f"{spec.get('layout')}, gridding {spec['gridding']}")
        synref[i, :, j] = ref_syn[(i, j)]
        single[(i, j)] = (s1, sn, fn)
    for a in range(n):
        for b in range(a+1, n):
            if (_same(ref_e[tasks[a]], ref_e[tasks[b]]) or
                    _same(ref_syn[tasks[a]], ref_syn[tasks[b]])):
                raise Inconclusive("tasks not pairwise different")
    if not np.all(np.isfinite(synref)):
        raise Inconclusive("non-finite reference responses")
    # the solver info of two tasks can only be told apart if it differs
    info_distinct = all(not _same(ref_i[tasks[a]], ref_i[tasks[b]])
                        for a in range(n) for b in range(a+1, n))

    observed = synref*P['fac']
    observed[P['hole']] = np.nan + 1j*np.nan

    ref_b, ref_j, ref_g, ref_bi = {}, {}, {}, {}
    if op in ('gradient', 'jvec'):
        for (i, j) in tasks:
            s1, sn, fn = single[(i, j)]
            # the survey data are documented to be modified in place
            s1.data['observed'].data[...] = observed[i:i+1, :, j:j+1]
            if op == 'gradient':
                ref_g[(i, j)] = np.array(s1.gradient)
                ref_b[(i, j)] = np.array(
                    s1._dict_get('bfield', sn, fn).field)
                ref_bi[(i, j)] = _info_sig(
                    s1._dict_get('bfield_info', sn, fn))
            else:
                ref_j[(i, j)] = np.array(s1.jvec(P['vector'])[0, :, 0])
    del single

    # ---------------- (i) sequential in-memory simulation ----------------
    full = _survey(P, observed=observed)
    snames, fnames = list(full.sources), list(full.frequencies)
    names = {(i, j): (snames[i], fnames[j]) for (i, j) in tasks}

    def run_ops(sim, hook=None):
        """The call sequence whose results must not depend on the setting."""
        res = {}
        if kpre is not None:
            # one field requested before the survey is computed (documented
            # accessor; computes this source-frequency pair only), then the
            # survey: one task starts from its solution, the others from zero
            sn, fn = names[kpre]
            ef = sim.get_efield(sn, fn)
            if ef is None:
                raise Violation(
                    "efield_slot:prefetch_none:"
                    f"{path if hook else 'mem:seq_reference'}",
                    f"get_efield for task {kpre} before compute() returned "
                    "None (the computed field was not stored in the slot "
                    "that was asked for)")
            res['pre_efield'] = np.array(ef.field)
            if hook:
                hook('prefetch')
            res['pre_synthetic'] = np.array(sim.data.synthetic.data)
            res['pre_empty'] = _slots_filled(sim, names)
        sim.compute()
        if hook:
            hook('forward')
        res['misfit'] = np.array(sim.misfit)
        res['obs'] = None
        if op == 'gradient':
            res['gradient'] = np.array(sim.gradient)
            if hook:
                hook('back')
            if extra:
                # J^H w for another data vector; documented to return the
                # gradient for that vector - it must not depend on the
                # setting, and gradient / misfit / residual of the
                # simulation are what they were
                res['obs'] = _collect(sim, P, spec, names, _mp)
                _collect_b(sim, names, res['obs'])
                res['residual'] = np.array(sim.data.residual.data)
                res['jtvec'] = np.array(sim.jtvec(P['dvec']))
                if hook:
                    hook('jtvec')
                res['gradient_after'] = np.array(sim.gradient)
                res['misfit_after'] = np.array(sim.misfit)
                res['residual_after'] = np.array(sim.data.residual.data)
        elif op == 'jvec':
            res['jvec'] = np.array(sim.jvec(P['vector']))
            if hook:
                hook('jvec')
            if extra:
                # a second J v with another vector
                res['jvec2'] = np.array(sim.jvec(P['vector2']))
                if hook:
                    hook('jvec2')
        if res['obs'] is None:
            res['obs'] = _collect(sim, P, spec, names, _mp)
            if op == 'gradient':
                _collect_b(sim, names, res['obs'])
        return res

    sim0 = _simulation(P, spec, full, 1, **seq)
    res0 = run_ops(sim0)
    obs0 = res0['obs']

    # ---------------- simulation under test ------------------------------
    ranks = _ranks(spec['order'], n, spec['rot'], spec['perm'])
    want = {names[t]: int(ranks[k]) for k, t in enumerate(tasks)}
    kw = {}
    fh = None
    if spec['file']:
        kw['file_dir'] = os.path.join(tmpd, 'files')
    if spec['tqdm'] and spec['bar'] == 'disable':
        kw['tqdm_opts'] = {'disable': True}
    elif spec['tqdm'] and spec['bar']:
        fh = open(os.devnull, 'w')
        kw['tqdm_opts'] = {'file': fh}
    else:
        kw['tqdm_opts'] = False
    if decoy:
        # file_dir still holds the files of an earlier simulation of the same
        # survey (same names) with another model ("files will remain there")
        margs = dict(P['model_args'])
        margs['property_x'] = gen.map_forward(spec['mapping'], 3.0*gen.
                                              map_backward(spec['mapping'],
                                                           margs['property_x']
                                                           ))
        dsim = emg3d.Simulation(
            _survey(P, observed=observed),
            emg3d.Model(P['grid'], **margs), max_workers=1,
            file_dir=kw['file_dir'], tqdm_opts=False, verb=-1,
            receiver_interpolation='linear',
            solver_opts={'plain': True, 'maxit': 1, 'tol': 1e-3},
            **_gridding_kw(P, spec, full))
        dsim.compute()
        if op == 'gradient':
            dsim.gradient
        elif op == 'jvec':
            dsim.jvec(P['vector2'])
        del dsim
    log = os.path.join(tmpd, 'order.log')
    open(log, 'w').close()
    phases = {}

    def hook(phase):
        _, lines = _read_phase(log, _STATE['phase'])
        phases[phase] = lines
        _STATE['phase'] += 1
        _STATE['ranks'] = {}
        if not lines and phase != 'repeat':
            raise HarnessError(
                f"C11: no task of phase '{phase}' went through the delay "
                "wrapper (workers not forked, or the simulation does not "
                "call emg3d._multiprocessing.solve any more)")

    real_solve, real_tqdm = _mp.solve, _mp.tqdm
    _STATE.update(table={}, ranks={}, phase=0, workers=spec['workers'],
                  log=log, real=real_solve)
    try:
        _mp.solve = _delayed_solve
        if not spec['tqdm']:
            _mp.tqdm = None
        sim = _simulation(P, spec, _survey(P, observed=observed),
                          spec['workers'], **kw)
        _instrument(sim, want)
        res = run_ops(sim, hook)
        obs = res['obs']
        converged = all(int(round(obs['info'][k][0])) == 0 for k in tasks)
        if op == 'compute':
            # repeating the computation changes nothing (a converged field
            # is its own fixed point; a run that stopped at maxit would
            # legitimately continue from the provided field)
            sim.compute()
            hook('repeat')
            res2 = {'misfit': np.array(sim.misfit)}
            obs2 = _collect(sim, P, spec, names)
    finally:
        _mp.solve = real_solve
        _mp.tqdm = real_tqdm
        _STATE.update(table={}, ranks={}, phase=0, workers=1, log=None,
                      real=None)
        if fh:
            fh.close()

    # ---------------- classification -------------------------------------
    subm = [f"{names[t][0]}|{names[t][1]}" for t in tasks]
    main = {'compute': 'forward', 'gradient': 'back', 'jvec': 'jvec'}[op]
    ntkey = None
    for ph, lines in phases.items():
        order = [ln[1].split('|', 1)[1] if '|' in ln[1] else ln[1]
                 for ln in lines]
        pids = {ln[0] for ln in lines}
        if ph == 'prefetch':
            rec.cls(f"prefetch:tasks={len(lines)}")
            continue
        complete = sorted(order) == sorted(subm)
        reordered = complete and order != subm
        rec.cls(f"{ph}:{'reordered' if reordered else 'in_order'}"
                f"{'' if complete else ':log_incomplete'}",
                f"{ph}:pids={'1' if len(pids) < 2 else '2+'}")
        if ph == main and reordered and len(pids) >= 2:
            ntkey = [subm.index(o) for o in order]
            want = [int(x) for x in np.argsort(ranks, kind='stable')]
            rec.cls("forced_order_achieved" if ntkey == want
                    else "forced_order_partly")
    w = spec['workers']
    rec.cls(f"op={op}", f"path={path}", f"gridding={spec['gridding']}",
            f"layout={spec.get('layout', 'local')}",
            f"solver={spec['solver']}", f"order={spec['order']}",
            f"workers={'1' if w == 1 else '2-4' if w < 5 else '5-8' if w < 9 else '9-16'}",
            f"workers{'<' if w < n else '>='}tasks", f"tasks={nsrc}x{nfreq}",
            f"bar={'off' if not (spec['tqdm'] and spec['bar']) else 'disable' if spec['bar'] == 'disable' else 'on'}",
            f"case={spec['case']}", f"relative_rx={spec['relative']}",
            f"mapping={spec['mapping']}",
            f"srcset={spec.get('srcset', 'basic')}",
            f"mgrid={spec.get('mgrid', 'uniform')}"
            f"{'' if P['grid'].shape_cells[1] == 8 else ':noncubic'}",
            f"mu_eps={P['mu_eps']}", f"names={spec.get('names', 'default')}",
            f"history={history}", f"extra={extra}",
            f"decoy_files={decoy}" if spec['file'] else "decoy_files=n/a",
            f"converged={converged}",
            f"info_pairwise_distinct={info_distinct}")
    rec.cls(*{f"src_type={t}{'' if kw_.get('strength', 1.0) == 1.0 else ':strength'}"
              f"{':6coords' if t == 'TxElectricDipole' and len(c) == 6 else ''}"
              for t, c, kw_ in P['src']})
    if ntkey is not None:
        rec.nt([op, path, spec['gridding'], spec['solver'], w, nsrc, nfreq,
                ntkey])
    rec.note({'path': path, 'op': op, 'workers': w, 'tasks': n,
              'completion_order': {ph: [ln[1] for ln in lines]
                                   for ph, lines in phases.items()},
              'pids': {ph: len({ln[0] for ln in lines})
                       for ph, lines in phases.items()}})

    # ---------------- oracle ----------------------------------------------
    # every slot is filled when compute() returns: looked at before any
    # accessor could recompute it
    for nm, o in (('mem:seq_reference', obs0), (path, obs)):
        if o['empty']:
            raise Violation(
                f"efield_slot:empty:{nm}",
                f"after compute() the field slots of tasks {o['empty']} are "
                "empty (get_efield would recompute them silently)",
                {'slots': [list(k) for k in o['empty']]})
    if obs['empty'] is None:
        rec.cls('slot_storage:not_inspectable')
    if obs['recomputed'] != obs0['recomputed']:
        raise Violation(
            f"efield_slot:recomputed_by_accessor:{path}",
            "reading the results (get_efield / get_efield_info / get_hfield)"
            f" after the run started {obs['recomputed']} process_map call(s),"
            f" the sequential simulation {obs0['recomputed']}")
    if kpre is not None:
        # the field requested first is the result of its own task; nothing
        # else was computed or stored
        for nm, r in (('mem:seq_reference', res0), (path, res)):
            if not _same(r['pre_efield'], ref_e[kpre]):
                owner = [k for k in tasks if k != kpre and
                         _same(r['pre_efield'], ref_e[k])]
                raise Violation(
                    f"efield_slot:{'misplaced' if owner else 'differs'}:"
                    f"vs_task:prefetch:{nm}",
                    f"get_efield for task {kpre} before compute() is not "
                    "bit-identical to the task reference: "
                    f"{_maxdiff(r['pre_efield'], ref_e[kpre])}" +
                    (f"; it is the field of task {owner[0]}" if owner else ""))
            ps = r['pre_synthetic']
            rest = np.ones(ps.shape, bool)
            rest[kpre[0], :, kpre[1]] = False
            if ps.shape != synref.shape or not _same(
                    ps[kpre[0], :, kpre[1]], ref_syn[kpre]) or np.any(
                    np.isfinite(ps.real[rest]) & np.isfinite(ps.imag[rest])):
                raise Violation(
                    f"synthetic:prefetch:{nm}",
                    f"after get_efield for task {kpre} only, data.synthetic "
                    "is not (reference responses in that slot, no data "
                    "elsewhere): slot " +
                    _maxdiff(ps[kpre[0], :, kpre[1]], ref_syn[kpre]) +
                    f"; {int(np.isfinite(ps[rest]).sum())} finite entries in "
                    "other slots")
            if r['pre_empty'] is not None and sorted(r['pre_empty']) != \
                    sorted(k for k in tasks if k != kpre):
                raise Violation(
                    f"efield_slot:prefetch_filled_wrong_slots:{nm}",
                    f"after get_efield for task {kpre} only, the empty field "
                    f"slots are {r['pre_empty']}")
    # a slot that started from its own solution equals the task reference
    # only if that solution was converged
    fresh = [k for k in tasks if k != kpre or converged]
    # sequential in-memory simulation against the per-task references
    for k in fresh:
        _slot_check('efield', 'mem:seq_reference', obs0['efield'], ref_e, k,
                    'task reference')
        _slot_check('synthetic', 'mem:seq_reference', obs0['syn'], ref_syn,
                    k, 'task reference')
        if op == 'gradient':
            _slot_check('bfield', 'mem:seq_reference', obs0['bfield'], ref_b,
                        k, 'task reference')
        if op == 'jvec':
            _slot_check('jvec', 'mem:seq_reference',
                        {t: res0['jvec'][t[0], :, t[1]] for t in tasks},
                        ref_j, k, 'task reference')
    # simulation under test: per-task references first (root cause), then
    # the sequential simulation
    for k in fresh:
        _slot_check('efield', path, obs['efield'], ref_e, k,
                    'task reference')
    for k in fresh:
        _slot_check('synthetic', path, obs['syn'], ref_syn, k,
                    'task reference')
    if op == 'gradient':
        for k in fresh:
            _slot_check('bfield', path, obs['bfield'], ref_b, k,
                        'task reference')
    if op == 'jvec':
        got = {t: res['jvec'][t[0], :, t[1]] for t in tasks}
        for k in fresh:
            _slot_check('jvec', path, got, ref_j, k, 'task reference')
    for k in tasks:
        _slot_check('efield', path, obs['efield'], obs0['efield'], k,
                    'sequential run')
    for what in ('synthetic',):
        if not _same(obs[what], obs0[what]):
            raise Violation(f"{what}:vs_sequential:{path}",
                            f"data.{what} differs from the sequential run: "
                            f"{_maxdiff(obs[what], obs0[what])}")
    for what in ('misfit', 'gradient', 'jvec', 'jtvec', 'jvec2'):
        if what in res0 and not _same(res[what], res0[what]):
            raise Violation(f"{what}:vs_sequential:{path}",
                            f"{what} is not bit-identical to the sequential "
                            f"run: {_maxdiff(res[what], res0[what])}")
    if op == 'gradient':
        for k in tasks:
            _slot_check('bfield', path, obs['bfield'], obs0['bfield'], k,
                        'sequential run')
        # the survey gradient is the sum of the task gradients (rounding)
        if kpre is None or converged:
            gsum = sum(ref_g[k] for k in tasks)
            gabs = sum(np.abs(ref_g[k]) for k in tasks)
            if res['gradient'].shape != gsum.shape or np.any(
                    np.abs(res['gradient'] - gsum) >
                    1e-9*(gabs + gabs.max())):
                raise Violation(f"gradient:vs_task_sum:{path}",
                                "gradient differs from the sum of the single-"
                                "task gradients beyond rounding: "
                                f"{_maxdiff(res['gradient'], gsum)}")
    # solver information, field metadata and magnetic fields are stored /
    # derived by position like the fields: per slot against the sequential
    # run and (info, metadata) the task reference
    for k in tasks:
        for what, ref in (('info', ref_i), ('meta', ref_m)):
            if what == 'info' and k not in fresh:
                continue
            if what == 'info' and kpre == k:
                continue   # second solve of that slot: other iteration count
            _slot_check(f'efield_{what}', 'mem:seq_reference', obs0[what],
                        ref, k, 'task reference')
            _slot_check(f'efield_{what}', path, obs[what], ref, k,
                        'task reference')
        for what in ('info', 'meta', 'hfield'):
            _slot_check(f'efield_{what}' if what != 'hfield' else what, path,
                        obs[what], obs0[what], k, 'sequential run')
        if op == 'gradient':
            if kpre is None or converged:
                _slot_check('bfield_info', 'mem:seq_reference', obs0['binfo'],
                            ref_bi, k, 'task reference')
                _slot_check('bfield_info', path, obs['binfo'], ref_bi, k,
                            'task reference')
            _slot_check('bfield_info', path, obs['binfo'], obs0['binfo'], k,
                        'sequential run')
    if extra and op == 'gradient':
        for nm, r in (('mem:seq_reference', res0), (path, res)):
            for what, a, b in (
                    ('gradient', r['gradient_after'], r['gradient']),
                    ('misfit', r['misfit_after'], r['misfit']),
                    ('residual', r['residual_after'], r['residual'])):
                if not _same(a, b):
                    raise Violation(
                        f"jtvec_changed:{what}:{nm}",
                        f"jtvec(w) changed the {what} of the simulation: "
                        f"{_maxdiff(a, b)}")
    # misfit against the checker's own sum over the reference slots
    if kpre is None or converged:
        std = np.sqrt(1e-16**2 + (0.05*np.abs(observed))**2)
        r = synref - observed
        fin = np.isfinite(observed)
        mref = 0.5*float(np.sum((np.abs(r[fin])/std[fin])**2))
        if not abs(float(res['misfit']) - mref) <= 1e-9*mref:
            raise Violation(f"misfit:vs_task_reference:{path}",
                            f"misfit {float(res['misfit'])!r} differs from "
                            "the weighted sum over the reference slots "
                            f"{mref!r}")
    if op == 'compute' and not converged:
        rec.cls('repeat:skipped_not_converged')
    if op == 'compute' and converged:
        for k in tasks:
            if not _same(obs2['efield'][k], obs['efield'][k]):
                raise Violation(
                    f"repeat_changed:efield:{spec['solver']}:{path}",
                    f"second compute() changed the field of task {k}: "
                    f"{_maxdiff(obs2['efield'][k], obs['efield'][k])}")
        if not _same(obs2['synthetic'], obs['synthetic']):
            raise Violation(f"repeat_changed:synthetic:{path}",
                            "second compute() changed data.synthetic: " +
                            _maxdiff(obs2['synthetic'], obs['synthetic']))
        if not _same(res2['misfit'], res['misfit']):
            raise Violation(f"repeat_changed:misfit:{path}",
                            "second compute() changed the misfit")


def _gridding_kw(P, spec, survey):
    """gridding / gridding_opts of the spec for a full-survey simulation."""
    gridding = spec['gridding']
    if gridding in ('dict', 'dict_shared'):
        sn, fn = list(survey.sources), list(survey.frequencies)
        return {'gridding': 'dict', 'gridding_opts': {
            s: {f: P['taskgrid'][(i, j)] for j, f in enumerate(fn)}
            for i, s in enumerate(sn)}}
    if gridding == 'input':
        return {'gridding': 'input', 'gridding_opts': P['taskgrid'][(0, 0)]}
    return {'gridding': gridding}


# ---------------------------------------------------------------- layered
def _delayed_layered(inp):
    """Stand-in for emg3d._multiprocessing.layered (one task per SOURCE):
    same logging and holding as _delayed_solve."""
    try:
        src = inp['src']
        fp = 'lay:' + repr((type(src).__name__,
                            np.asarray(src.coordinates, float).tolist()))
        key, rank = _STATE['table'].get(fp, ('?', None))
    except Exception:
        key, rank = '?', None
    log, phase, pid = _STATE['log'], _STATE['phase'], os.getpid()
    if log:
        _append(log, f"S {pid} {phase} {key}\n")
    try:
        out = _STATE['real'](inp)
        if log and rank is not None:
            try:
                _hold(key, rank)
            except Exception:
                pass
    finally:
        if log:
            _append(log, f"D {pid} {phase} {key}\n")
    return out


_delayed_layered.__module__ = 'emg3d._multiprocessing'
_delayed_layered.__qualname__ = 'layered'
_delayed_layered.__name__ = 'layered'

LAYERED_METHODS = [None, 'midpoint', 'source', 'receiver', 'cylinder',
                   'prism']


def layered_strategy(salt, tqdm_first=False):
    return st.fixed_dictionaries({
        'op': _pick('lop', salt, ['gradient', 'compute']),
        'file': _pick('lfile', salt, [False, True]),
        'salt': st.just(int(salt)),
        'seed': gen.SEED,
        'nsrc': _pick('lnsrc', salt, [3, 2, 4]),
        'nfreq': _pick('lnfreq', salt, [2, 1]),
        'nrec': _pick('lnrec', salt, [2, 1]),
        'workers': st.one_of(_pick('lw', salt, [2, 3, 4, 2]),
                             st.integers(2, 8)),
        'tqdm': st.sampled_from([True, False] if tqdm_first
                                else [False, True]),
        'bar': _pick('bar', salt, [False, True, 'disable']),
        'case': _pick('lcase', salt, ['isotropic', 'VTI']),
        'mapping': _pick('mapping', salt, ['Conductivity', 'LgResistivity',
                                           'LnConductivity', 'Resistivity']),
        'method': _pick('lmethod', salt, LAYERED_METHODS),
        'relative': _pick('relative', salt, [False, True]),
        'names': _pick('names', salt, ['default', 'custom']),
        'order': _pick('order', salt, ['reversed', 'rotated', 'interleaved',
                                       'random']),
        'rot': st.integers(0, 7),
        'perm': st.permutations(list(range(9))),
    })


def case_layered(spec, rec):
    import emg3d
    import emg3d._multiprocessing as _mp
    os.makedirs(TMPBASE, exist_ok=True)
    tmpd = tempfile.mkdtemp(prefix='c11l_', dir=TMPBASE)
    try:
        with warnings.catch_warnings():
            warnings.simplefilter('ignore')
            _case_layered(spec, rec, emg3d, _mp, tmpd)
    finally:
        for p in multiprocessing.active_children():
            p.terminate()
            p.join(5)
        shutil.rmtree(tmpd, ignore_errors=True)


def _case_layered(spec, rec, emg3d, _mp, tmpd):
    """layered=True: one task per source (all frequencies at once), results
    stored by position into data.synthetic, the gradient is the ordered sum
    over the tasks."""
    try:
        import empymod  # noqa: F401
    except ImportError:
        raise Inconclusive("empymod is not installed (layered mode)")
    full_spec = {'layout': 'local', 'gridding': 'same', 'solver': 'plain',
                 'tol_gradient': None, 'srcset': 'basic', 'mgrid': 'uniform',
                 **spec}
    P = _build(full_spec)
    op = spec['op']
    nsrc, nfreq, nrec = spec['nsrc'], spec['nfreq'], spec['nrec']
    path = _path(spec)
    lopts = {} if spec['method'] is None else {'method': spec['method']}

    def simulation(survey, workers, **kw):
        model = emg3d.Model(P['grid'], **P['model_args'])
        return emg3d.Simulation(survey, model, max_workers=workers,
                                layered=True, layered_opts=dict(lopts),
                                verb=-1, **kw)

    if _mp.layered is _delayed_layered:
        raise HarnessError("C11: patched layered left over from another case")
    if _mp.tqdm is None:
        raise HarnessError("C11: tqdm is not importable (or left patched)")

    # per-source references (one-source surveys, sequential, reverse order):
    # first without observed data (they define the observed data), then with
    synref = np.zeros((nsrc, nrec, nfreq), dtype=complex)
    for i in reversed(range(nsrc)):
        sv = _survey(P, isrc=i)
        s1 = simulation(sv, 1, tqdm_opts=False)
        s1.compute()
        synref[i] = np.array(s1.data.synthetic.data[0])
    if not np.all(np.isfinite(synref)):
        raise Inconclusive("non-finite reference responses")
    observed = synref*P['fac']
    observed[P['hole']] = np.nan + 1j*np.nan
    ref_syn, ref_g = {}, {}
    for i in reversed(range(nsrc)):
        sv = _survey(P, isrc=i, observed=observed)
        s1 = simulation(sv, 1, tqdm_opts=False)
        s1.compute()
        ref_syn[i] = np.array(s1.data.synthetic.data[0])
        if op == 'gradient':
            ref_g[i] = np.array(s1.gradient)
    for a in range(nsrc):
        for b in range(a+1, nsrc):
            if _same(ref_syn[a], ref_syn[b]):
                raise Inconclusive("tasks not pairwise different")

    def run_ops(sim, hook=None):
        res = {}
        sim.compute()
        if hook:
            hook('forward')
        res['synthetic'] = np.array(sim.data.synthetic.data)
        res['misfit'] = np.array(sim.misfit)
        if op == 'gradient':
            res['gradient'] = np.array(sim.gradient)
            if hook:
                hook('back')
            res['synthetic_after'] = np.array(sim.data.synthetic.data)
        return res

    full = _survey(P, observed=observed)
    snames = list(full.sources)
    res0 = run_ops(simulation(full, 1, tqdm_opts=False))

    ranks = _ranks(spec['order'], nsrc, spec['rot'],
                   [x for x in spec['perm'] if x < nsrc])
    kw, fh = {}, None
    if spec['file']:        # documented to have no effect in layered mode
        kw['file_dir'] = os.path.join(tmpd, 'files')
    if spec['tqdm'] and spec['bar'] == 'disable':
        kw['tqdm_opts'] = {'disable': True}
    elif spec['tqdm'] and spec['bar']:
        fh = open(os.devnull, 'w')
        kw['tqdm_opts'] = {'file': fh}
    else:
        kw['tqdm_opts'] = False
    log = os.path.join(tmpd, 'order.log')
    open(log, 'w').close()
    phases = {}

    def hook(phase):
        _, lines = _read_phase(log, _STATE['phase'])
        phases[phase] = lines
        _STATE['phase'] += 1
        if not lines:
            raise HarnessError(
                f"C11: no task of layered phase '{phase}' went through the "
                "delay wrapper (workers not forked, or the simulation does "
                "not call emg3d._multiprocessing.layered any more)")

    under = _survey(P, observed=observed)
    table, rk = {}, {}
    for i, (sn, src) in enumerate(under.sources.items()):
        fp = 'lay:' + repr((type(src).__name__,
                            np.asarray(src.coordinates, float).tolist()))
        table[fp] = (sn, int(ranks[i]))
        rk[sn] = int(ranks[i])
    real_layered, real_tqdm = _mp.layered, _mp.tqdm
    _STATE.update(table=table, ranks=rk, phase=0, workers=spec['workers'],
                  log=log, real=real_layered)
    try:
        _mp.layered = _delayed_layered
        if not spec['tqdm']:
            _mp.tqdm = None
        res = run_ops(simulation(under, spec['workers'], **kw), hook)
    finally:
        _mp.layered = real_layered
        _mp.tqdm = real_tqdm
        _STATE.update(table={}, ranks={}, phase=0, workers=1, log=None,
                      real=None)
        if fh:
            fh.close()

    main = 'back' if op == 'gradient' else 'forward'
    ntkey = None
    for ph, lines in phases.items():
        order = [ln[1] for ln in lines]
        pids = {ln[0] for ln in lines}
        complete = sorted(order) == sorted(snames)
        reordered = complete and order != snames
        rec.cls(f"{ph}:{'reordered' if reordered else 'in_order'}"
                f"{'' if complete else ':log_incomplete'}",
                f"{ph}:pids={'1' if len(pids) < 2 else '2+'}")
        if ph == main and reordered and len(pids) >= 2:
            ntkey = [snames.index(o) for o in order]
    w = spec['workers']
    rec.cls(f"op={op}", f"path={path}", f"method={spec['method']}",
            f"case={spec['case']}", f"tasks={nsrc}",
            f"workers{'<' if w < nsrc else '>='}tasks",
            f"names={spec['names']}", f"order={spec['order']}")
    if ntkey is not None:
        rec.nt(['layered', op, path, w, nsrc, nfreq, ntkey])
    rec.note({'path': path, 'op': op, 'workers': w, 'tasks': nsrc,
              'completion_order': {ph: [ln[1] for ln in lines]
                                   for ph, lines in phases.items()}})

    # oracle: the rows of data.synthetic are the results of their own
    # source, in the sequential and in the parallel simulation
    for nm, r in (('mem:seq_reference', res0), (f"layered:{path}", res)):
        if r['synthetic'].shape != synref.shape:
            raise Violation(f"synthetic:shape:{nm}",
                            f"data.synthetic has shape {r['synthetic'].shape}")
        got = {i: r['synthetic'][i] for i in range(nsrc)}
        for i in range(nsrc):
            if _same(got[i], ref_syn[i]):
                continue
            owner = [k for k in range(nsrc)
                     if k != i and _same(got[i], ref_syn[k])]
            raise Violation(
                f"synthetic_slot:{'misplaced' if owner else 'differs'}:"
                f"vs_task:{nm}",
                f"layered: data.synthetic of source {i} is not bit-identical "
                f"to the one-source reference: {_maxdiff(got[i], ref_syn[i])}"
                + (f"; it holds the result of source {owner[0]}"
                   if owner else ""))
    for what in ('synthetic', 'misfit', 'gradient', 'synthetic_after'):
        if what in res0 and not _same(res[what], res0[what]):
            raise Violation(f"{what}:vs_sequential:layered:{path}",
                            f"layered: {what} is not bit-identical to the "
                            "sequential run: "
                            f"{_maxdiff(res[what], res0[what])}")
    if op == 'gradient':
        gsum = sum(ref_g[i] for i in range(nsrc))
        gabs = sum(np.abs(ref_g[i]) for i in range(nsrc))
        if res['gradient'].shape != gsum.shape or np.any(
                np.abs(res['gradient'] - gsum) > 1e-9*(gabs + gabs.max())):
            raise Violation(f"gradient:vs_task_sum:layered:{path}",
                            "layered: gradient differs from the sum of the "
                            "one-source gradients beyond rounding: "
                            f"{_maxdiff(res['gradient'], gsum)}")


# ------------------------------------------------------- bounded reduction
_REDUCED = set()     # signatures already reduced in this process


def _reductions(spec):
    red = [('nsrc', 2), ('nfreq', 2), ('solver', 'plain'),
           ('gridding', 'same'), ('workers', min(spec['workers'], 3))]
    # new dimensions: only where the spec has them switched on
    red += [(k, v) for k, v in (('history', 'fresh'), ('decoy', False),
                                ('names', 'default'), ('srcset', 'basic'))
            if spec.get(k, v) != v]
    return red


_OUTCOME = {}        # spec -> Violation observed for it in this process


def explore_case(spec, rec):
    """case_parallel for the Hypothesis driver.

    * A violation observed for a spec is remembered and re-raised when
      Hypothesis executes the same spec again (it re-runs a failing example
      to confirm it).  A defect in this property's domain is typically a
      race: its manifestation need not repeat, and a violation that was
      really observed must not be turned into a "flaky test" harness error.
    * Bounded hand-written reduction (at most two signatures per process):
      the reduced spec goes into the details, the replay spec stays the
      original one."""
    import json
    from vp.framework import Rec, exception_to_violation
    okey = json.dumps(spec, sort_keys=True, default=repr)
    if okey in _OUTCOME:
        raise _OUTCOME[okey]
    try:
        case_parallel(spec, rec)
    except (Inconclusive, HarnessError):
        raise
    except Violation as v:
        _OUTCOME[okey] = v
        cur = spec
        if v.signature in _REDUCED or len(_REDUCED) >= 2:
            raise
        _REDUCED.add(v.signature)
        for key, val in _reductions(spec):
            if cur.get(key, val) == val:
                continue
            cand = {**cur, key: val}
            try:
                case_parallel(cand, Rec())
            except Violation as v2:
                if v2.signature == v.signature:
                    cur = cand
            except Exception:
                pass
        if cur != spec:
            v.details = dict(v.details or {})
            v.details['reduced_spec'] = cur
        raise v
    except Exception as e:
        if type(e).__module__.startswith('hypothesis'):
            raise
        v = exception_to_violation(e)
        if v is None:
            raise
        _OUTCOME[okey] = v
        raise v from e


def explore_layered(spec, rec):
    """case_layered for the Hypothesis driver (a violation observed for a
    spec is remembered and re-raised when the same spec is executed again;
    see explore_case)."""
    import json
    from vp.framework import exception_to_violation
    okey = 'layered/' + json.dumps(spec, sort_keys=True, default=repr)
    if okey in _OUTCOME:
        raise _OUTCOME[okey]
    try:
        case_layered(spec, rec)
    except (Inconclusive, HarnessError):
        raise
    except Violation as v:
        _OUTCOME[okey] = v
        raise
    except Exception as e:
        if type(e).__module__.startswith('hypothesis'):
            raise
        v = exception_to_violation(e)
        if v is None:
            raise
        _OUTCOME[okey] = v
        raise v from e


SUBS = {'parallel': case_parallel, 'layered': case_layered}

STRATA = [(op, fm) for op in ('compute', 'gradient', 'jvec')
          for fm in (False, True)]


def run(ctx):
    ctx.regression(SUBS)
    # Stratified over operation x file mode; per stratum Hypothesis' first
    # (simplest) example is a designed one that depends on seed and stratum
    # (see _pick), alternating tqdm present/absent; the rest is random.
    if multiprocessing.get_start_method() != 'fork':
        raise HarnessError("C11 needs the 'fork' start method (the delay "
                           "wrapper is inherited by forked workers)")
    per = ctx.n(2, 8)
    for k, (op, fm) in enumerate(STRATA):
        salt = 1000*(ctx.seed % 100000) + 10*ctx.shard[0] + k
        tq = (k + k//2 + ctx.seed + ctx.shard[0]) % 2 == 0
        ctx.explore('parallel', spec_strategy(op, fm, salt, tq),
                    explore_case, per, shrink=False, max_rounds=2, salt=k)
    # max_workers=1 (sequential map with/without tqdm, mostly file-based):
    # cheap, never non-trivial by the rule, but part of the quantifier
    for k in range(ctx.n(1, 3)):
        op = ('compute', 'gradient', 'jvec')[(ctx.seed + ctx.shard[0] + k) % 3]
        fm = k != 2
        salt = 1000*(ctx.seed % 100000) + 10*ctx.shard[0] + 6 + k
        ctx.explore('parallel',
                    spec_strategy(op, fm, salt, (ctx.seed + k) % 2 == 0,
                                  sequential=True),
                    explore_case, 1, shrink=False, max_rounds=2, salt=6+k)
    # layered mode (tasks = sources): few cases, the pool is the same
    salt = 1000*(ctx.seed % 100000) + 10*ctx.shard[0] + 9
    ctx.explore('layered',
                layered_strategy(salt, (ctx.seed + ctx.shard[0]) % 2 == 0),
                explore_layered, ctx.n(1, 4), shrink=False, max_rounds=2,
                salt=9)

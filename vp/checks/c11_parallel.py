"""C11 - survey results do not depend on worker count, scheduling, file mode.

Sub-check
---------
parallel  One generated survey (2-3 sources x 2-3 frequencies, 1-3 receivers,
          tiny 8x8x8 problem) is computed by a Simulation with a drawn
          max_workers (1..16), in memory or through `file_dir`, with tqdm
          present or absent, for one operation (compute + repeated compute,
          gradient = forward + back-propagation, jvec).  While the simulation
          under test runs, `emg3d._multiprocessing.solve` is replaced in the
          parent by a wrapper with the same module/qualname; the forked
          workers therefore execute the wrapper, which logs the start of the
          task, calls the real function, holds the result back until it is
          the task's turn in a drawn completion order (a permutation; a task
          waits until no lower-ranked task is in flight and all lower-ranked
          tasks are done or cannot start because all workers are occupied;
          bounded by 1.5 s) and logs (pid, task) on completion.

          Oracle: every slot of get_efield / data.synthetic / back-propagated
          field / jvec, the misfit and the gradient are bit-identical
          (numpy.array_equal incl. NaN positions, same shape and dtype) to
          (i)  the same call sequence on a sequential in-memory simulation
               (max_workers=1), and
          (ii) per-task references computed by the checker: a direct
               emg3d.solve_source per source-frequency pair, and a sequential
               one-source-one-frequency simulation per pair (one slot, so a
               slot cannot be filled from the wrong task);
          repeating compute() changes nothing.
"""
import hashlib
import multiprocessing
import os
import shutil
import tempfile
import time
import warnings

import numpy as np
from hypothesis import strategies as st

from vp import gen
from vp.framework import VERIF, HarnessError, Inconclusive, Violation

RULE = ("Survey: 2-3 sources (electric point / finite dipole / magnetic "
        "point, random position and orientation) x 2-3 distinct frequencies "
        "x 1-3 receivers (electric/magnetic, absolute/relative), random "
        "heterogeneous model on an 8x8x8 grid (isotropic/VTI, two mappings), "
        "gridding 'same' or 'dict' (a different provided grid per task), "
        "plain multigrid or the default solver, tol 1e-3, observed data = "
        "reference responses x random factors with NaN holes.  Execution "
        "setting: max_workers 1..16, in-memory / file_dir, tqdm present "
        "(bar on/off) / absent, operation compute(+repeat) / gradient / "
        "jvec; stratified over operation x file mode (plus a few "
        "max_workers=1 cases).  Completion order: a drawn permutation "
        "(reversed / rotated / interleaved / random) enforced inside the "
        "forked workers by holding finished tasks back until their turn "
        "(exactly the drawn order if max_workers >= tasks, else the closest "
        "order the pool can produce; every hold is bounded by 1.5 s).  "
        "Non-trivial = in the phase that belongs to the operation (forward / "
        "back-propagation / jvec) the logged completion order differs from "
        "the submission order and >= 2 worker pids took part; distinct by "
        "(setting, survey shape, observed completion order).  A hold that "
        "fails to force an order only lowers distinct_nontrivial.")
ASSUMPTIONS = [
    "workers are forked (Python 3.12, Linux): a module attribute replaced in "
    "the parent before the pool is created is what the workers execute; the "
    "wrapper only calls the real emg3d._multiprocessing.solve, waits for "
    "its turn by polling the log file (monotonic clock used for the 1.5 s "
    "bound only) and appends start/end lines to the log file",
    "task identification: Simulation._data_or_file of the instance under "
    "test is wrapped (observation only) to learn which input belongs to "
    "which (what, source, frequency); inputs are not modified",
    "a sequential one-source-one-frequency Simulation and a direct "
    "emg3d.solve_source are the per-task references (trusted not to confuse "
    "slots, having only one); back-propagated fields are read through the "
    "private Simulation._dict_get('bfield', ...) (no public accessor)",
    "completion orders are forced by timing, not enumerated; crashes of "
    "workers are out of scope",
]
SHARDS = {'quick': 1, 'thorough': 4}

TMPBASE = os.path.join(VERIF, '.cache', 'tmp')

SRC_TYPES = ['TxElectricPoint', 'TxElectricDipole', 'TxMagneticPoint']
REC_TYPES = ['RxElectricPoint', 'RxMagneticPoint']


# ---------------------------------------------------------------- wrapper
# State inherited by forked workers.
#   table:   fingerprint of a task input -> (key, wanted completion rank)
#   ranks:   key -> rank for all tasks of the current phase
#   phase:   counter of process_map calls of the simulation under test
#   workers: max_workers of the simulation under test
_STATE = {'table': {}, 'ranks': {}, 'phase': 0, 'workers': 1, 'log': None,
          'real': None}
HOLD_MAX = 1.5     # s; a task is never held back longer than this
POLL = 0.003


def _fingerprint(inp):
    """Identify a task input (dict in memory mode, file name otherwise)."""
    if isinstance(inp, str):
        return 'file:' + inp
    if 'sfield' in inp:
        buf = np.ascontiguousarray(inp['sfield'].field).tobytes()
        return 'sfield:' + hashlib.sha1(buf).hexdigest()
    src = inp['source']
    return 'src:' + repr((type(src).__name__,
                          np.asarray(src.coordinates, float).tolist(),
                          float(inp['frequency'])))


def _append(path, text):
    fd = os.open(path, os.O_WRONLY | os.O_APPEND | os.O_CREAT)
    try:
        os.write(fd, text.encode())
    finally:
        os.close(fd)


def _read_phase(path, phase):
    """-> (started, done): lists of (pid, key) of one phase, in log order."""
    started, done = [], []
    with open(path) as f:
        for ln in f.read().splitlines():
            p = ln.split()
            if len(p) == 4 and p[2] == str(phase):
                (started if p[0] == 'S' else done).append((p[1], p[3]))
    return started, done


def _hold(key, rank):
    """Hold a finished task back until it is its turn to complete.

    Its turn: no task with a lower wanted rank is in flight (started, not
    done), and every lower-ranked task is done - or cannot start anyway
    because all workers are occupied.  The lowest-ranked task in flight can
    therefore always complete (no deadlock); HOLD_MAX bounds the wait in any
    case.  The clock only bounds the wait, it decides nothing."""
    ranks, nwork = _STATE['ranks'], _STATE['workers']
    deadline = time.monotonic() + HOLD_MAX
    while time.monotonic() < deadline:
        started, done = _read_phase(_STATE['log'], _STATE['phase'])
        done = {k for _, k in done}
        inflight = {k for _, k in started} - done
        if not any(ranks.get(k, rank) < rank for k in inflight):
            waiting = [k for k, r in ranks.items()
                       if r is not None and r < rank and k not in done]
            if not waiting or len(inflight) >= nwork:
                return
        time.sleep(POLL)


def _delayed_solve(inp):
    """Stand-in for emg3d._multiprocessing.solve: log the start, call the
    real function, hold the result back until its turn, log the end."""
    try:
        key, rank = _STATE['table'].get(_fingerprint(inp), ('?', None))
    except Exception:    # never let the instrumentation change the outcome
        key, rank = '?', None
    log, phase, pid = _STATE['log'], _STATE['phase'], os.getpid()
    if log:
        _append(log, f"S {pid} {phase} {key}\n")
    try:
        out = _STATE['real'](inp)
        if log and rank is not None:
            try:
                _hold(key, rank)
            except Exception:
                pass
    finally:
        if log:
            _append(log, f"D {pid} {phase} {key}\n")
    return out


_delayed_solve.__module__ = 'emg3d._multiprocessing'
_delayed_solve.__qualname__ = 'solve'
_delayed_solve.__name__ = 'solve'


def _instrument(sim, ranks):
    """Wrap sim._data_or_file (observation only): register which input
    belongs to which task, with the wanted completion rank."""
    orig = sim._data_or_file

    def data_or_file(what, source, frequency, data):
        out = orig(what, source, frequency, data)
        try:
            key = f"{what}|{source}|{frequency}"
            rank = ranks.get((source, frequency))
            _STATE['table'][_fingerprint(out)] = (key, rank)
            _STATE['ranks'][key] = rank
        except Exception:
            pass
        return out

    sim._data_or_file = data_or_file


# -------------------------------------------------------------- strategy
def _ranks(kind, n, k, perm):
    """Completion rank wanted for each task in submission order."""
    if kind == 'reversed':
        return [n-1-i for i in range(n)]
    if kind == 'rotated':
        k = 1 + k % (n-1)
        return [(i+k) % n for i in range(n)]
    if kind == 'interleaved':     # odd positions first, then even reversed
        odd = list(range(1, n, 2))
        even = list(range(0, n, 2))[::-1]
        order = odd + even        # order[r] = task finishing r-th
        r = [0]*n
        for rank, task in enumerate(order):
            r[task] = rank
        return r
    # 'random': the drawn permutation, composed with the reversal so that the
    # simplest draw (identity) is the reversed order, not the trivial one
    return [n-1-x for x in perm if x < n]


def _pick(name, salt, values):
    """sampled_from whose *simplest* element depends on (name, salt).

    Hypothesis always starts with the simplest example; with only a few
    cases per stratum that example must not be the same degenerate one in
    every stratum and for every seed, so the lists are rotated."""
    k = int.from_bytes(hashlib.sha1(f"{name}/{salt}".encode()).digest()[:4],
                       'big') % len(values)
    return st.sampled_from(list(values[k:]) + list(values[:k]))


def spec_strategy(op, file_mode, salt, tqdm_first=False, sequential=False):
    small = [3, 2, 4, 5, 6]
    workers = st.one_of(_pick('w1', salt, small), _pick('w2', salt, [2, 3, 4]),
                        _pick('w3', salt, [2, 3, 4]), _pick('w4', salt, small),
                        st.integers(1, 16))
    if sequential:
        workers = st.just(1)
    return st.fixed_dictionaries({
        'op': st.just(op),
        'file': st.just(bool(file_mode)),
        'salt': st.just(int(salt)),
        'seed': gen.SEED,
        'nsrc': _pick('nsrc', salt, [2, 3]),
        'nfreq': _pick('nfreq', salt, [2, 3]),
        'nrec': _pick('nrec', salt, [2, 1, 3]),
        'workers': workers,
        # False = tqdm absent (concurrent.futures path)
        'tqdm': st.sampled_from([True, False] if tqdm_first
                                else [False, True]),
        'bar': _pick('bar', salt, [False, True]),  # with tqdm: bar enabled
        'gridding': _pick('gridding', salt, ['same', 'dict', 'same']),
        'solver': _pick('solver', salt, ['plain', 'plain', 'plain',
                                         'default']),
        'case': _pick('case', salt, ['isotropic', 'isotropic', 'VTI']),
        'mapping': _pick('mapping', salt, ['Conductivity', 'LgResistivity']),
        'tol_gradient': _pick('tolg', salt, [None, 1e-2]),
        'relative': _pick('relative', salt, [False, True]),
        # 'local': coordinates around the origin; 'utm_towed': the whole
        # survey at UTM-like coordinates with the later sources a few metres
        # from the first one (same depth, same heading), as for a towed source
        'layout': _pick('layout', salt, ['local', 'utm_towed']),
        'order': _pick('order', salt, ['reversed', 'rotated', 'interleaved',
                                       'random']),
        'rot': st.integers(0, 7),
        'perm': st.permutations(list(range(9))),
    })


# ----------------------------------------------------------------- build
def _build(spec):
    """Expand the spec into everything needed to create simulations."""
    import emg3d
    rng = gen.rng_of(spec['seed'], 1000 + spec['salt'])
    nsrc, nfreq, nrec = spec['nsrc'], spec['nfreq'], spec['nrec']

    towed = spec.get('layout', 'local') == 'utm_towed'
    off = np.array([452000.0, 6551000.0, 0.0]) if towed else np.zeros(3)
    hx = np.ones(8)*100.0
    grid = emg3d.TensorMesh([hx, hx, hx],
                            origin=tuple(off + np.array([-400., -400, -400])))
    shape = grid.shape_cells
    cond = 10.0**rng.uniform(-0.5, 0.5, size=shape)
    condz = cond*10.0**rng.uniform(0.0, 0.5, size=shape)
    mp = spec['mapping']
    px = gen.map_forward(mp, cond)
    pz = gen.map_forward(mp, condz) if spec['case'] == 'VTI' else None
    model_args = dict(property_x=px, property_z=pz, mapping=mp)

    # sources: pairwise different positions / types
    src = []
    for i in range(nsrc):
        t = SRC_TYPES[int(rng.integers(0, 3))] if i else 'TxElectricPoint'
        xyz = rng.uniform(-200, 200, 3).round(1)
        az, el = rng.uniform(-180, 180), rng.uniform(-90, 90)
        if towed and i:
            t = src[0][0]
            xyz = np.array(src[0][1][:3]) - off + np.array(
                [3.0*i, 7.0*i, 0.0])
            az, el = src[0][1][3], src[0][1][4]
        xyz = xyz + off
        src.append((t, (float(xyz[0]), float(xyz[1]), float(xyz[2]),
                        float(round(az, 1)), float(round(el, 1)))))
    # receivers
    recs = []
    for i in range(nrec):
        t = REC_TYPES[int(rng.integers(0, 2))] if i else 'RxElectricPoint'
        rel = bool(spec['relative'] and i == nrec-1)
        # absolute positions stay within +-250 m: strictly inside the second
        # layer of cells of every grid used (get_receiver returns NaN in the
        # outermost cell layer)
        lim = 50 if rel else 250
        xyz = rng.uniform(-lim, lim, 3).round(1)
        if not rel:
            xyz = xyz + off
        az, el = rng.uniform(-180, 180), rng.uniform(-90, 90)
        recs.append((t, (float(xyz[0]), float(xyz[1]), float(xyz[2]),
                         float(round(az, 1)), float(round(el, 1))), rel))
    # distinct frequencies
    f0 = 10.0**rng.uniform(-1, 0.3)
    ratio = rng.uniform(1.6, 3.0)
    freqs = [float(np.round(f0*ratio**j, 4)) for j in range(nfreq)]

    # per-task grids for gridding='dict' (all contain sources and receivers)
    tgrids = {}
    for i in range(nsrc):
        for j in range(nfreq):
            w = float(np.round(rng.uniform(95, 120), 1))
            shift = rng.uniform(-15, 15, 3).round(1)
            # different numbers of cells per task (as frequency- or source-
            # dependent automatic gridding produces), in no particular order
            ncell = [int(rng.choice([8, 8, 12, 16])), 8,
                     int(rng.choice([8, 8, 12]))]
            tgrids[(i, j)] = emg3d.TensorMesh(
                [np.ones(n)*w for n in ncell],
                origin=tuple(float(-n/2*w + s + o)
                             for n, s, o in zip(ncell, shift, off)))

    if spec['solver'] == 'plain':
        sopts = {'plain': True, 'tol': 1e-3}
    else:
        sopts = {'tol': 1e-3}
    nvec = 2 if spec['case'] == 'VTI' else 1
    vector = rng.standard_normal((nvec, *shape))
    if nvec == 1 and rng.integers(0, 2):
        vector = vector[0]
    # observed = reference synthetic * factor, NaN holes (>= 1 finite datum
    # per source-frequency pair so that tasks stay pairwise different)
    fac = 1 + 0.3*(rng.standard_normal((nsrc, nrec, nfreq)) +
                   1j*rng.standard_normal((nsrc, nrec, nfreq)))
    hole = rng.uniform(size=(nsrc, nrec, nfreq)) < 0.2
    for i in range(nsrc):
        for j in range(nfreq):
            if hole[i, :, j].all():
                hole[i, int(rng.integers(0, nrec)), j] = False
    return dict(grid=grid, model_args=model_args, src=src, recs=recs,
                freqs=freqs, tgrids=tgrids, sopts=sopts, vector=vector,
                fac=fac, hole=hole)


def _survey(P, isrc=None, ifreq=None, observed=None):
    """Fresh Survey (full, or restricted to one source and one frequency)."""
    import emg3d
    si = list(range(len(P['src']))) if isrc is None else [isrc]
    fi = list(range(len(P['freqs']))) if ifreq is None else [ifreq]
    sources = [getattr(emg3d, P['src'][i][0])(P['src'][i][1]) for i in si]
    receivers = [getattr(emg3d, t)(c, relative=rel)
                 for t, c, rel in P['recs']]
    freqs = [P['freqs'][j] for j in fi]
    data = None
    if observed is not None:
        data = {'observed': observed[np.ix_(si, range(len(receivers)),
                                            fi)].copy()}
    return emg3d.Survey(sources, receivers, freqs, data=data,
                        noise_floor=1e-16, relative_error=0.05)


def _simulation(P, spec, survey, workers, isrc=None, ifreq=None, **kw):
    import emg3d
    model = emg3d.Model(P['grid'], **P['model_args'])
    sopts = dict(P['sopts'])
    if spec['tol_gradient'] is not None:
        sopts['tol_gradient'] = spec['tol_gradient']
    if spec['gridding'] == 'dict':
        snames = list(survey.sources.keys())
        fnames = list(survey.frequencies.keys())
        si = list(range(len(snames))) if isrc is None else [isrc]
        fi = list(range(len(fnames))) if ifreq is None else [ifreq]
        gopts = {sn: {fn: P['tgrids'][(i, j)]
                      for fn, j in zip(fnames, fi)}
                 for sn, i in zip(snames, si)}
        kw['gridding_opts'] = gopts
    return emg3d.Simulation(
        survey, model, max_workers=workers, gridding=spec['gridding'],
        receiver_interpolation='linear', solver_opts=sopts, verb=-1, **kw)


def _child_sequential(args):
    P, spec, tasks = args
    sv = _survey(P)
    sim = _simulation(P, spec, sv, 1, tqdm_opts=False)
    sim.compute()
    sn, fn = list(sv.sources), list(sv.frequencies)
    return {(i, j): np.array(sim.get_efield(sn[i], fn[j]).field)
            for (i, j) in tasks}


def _sequential_in_child(P, spec, tasks):
    import multiprocessing as mp
    try:
        with mp.get_context('fork').Pool(1) as pool:
            return pool.apply(_child_sequential, ((P, spec, tasks),))
    except Violation:
        raise
    except Exception as e:   # pragma: no cover (harness problem only)
        from vp.framework import exception_to_violation
        v = exception_to_violation(e)
        if v is not None:
            raise v from e
        return None


# --------------------------------------------------------------- compare
def _same(a, b):
    a = np.asarray(a)
    b = np.asarray(b)
    if a.shape != b.shape or a.dtype != b.dtype:
        return False
    if np.iscomplexobj(a):
        return (np.array_equal(a.real, b.real, equal_nan=True) and
                np.array_equal(a.imag, b.imag, equal_nan=True))
    return np.array_equal(a, b, equal_nan=True)


def _maxdiff(a, b):
    a = np.asarray(a)
    b = np.asarray(b)
    if a.shape != b.shape:
        return f"shapes {a.shape} vs {b.shape}"
    if a.dtype != b.dtype:
        return f"dtypes {a.dtype} vs {b.dtype}"
    with np.errstate(invalid='ignore'):
        d = np.abs(a - b)
    nn = int(np.sum(np.isnan(a) != np.isnan(b)))
    md = float(np.nanmax(d)) if np.isfinite(d).any() else float('nan')
    sc = float(np.nanmax(np.abs(b))) if np.isfinite(b).any() else 0.0
    return (f"max |diff| {md:.3e} (max |ref| {sc:.3e}), "
            f"{int(np.sum(d > 0))} entries differ, {nn} NaN-position "
            f"mismatches")


def _slot_check(name, path, got, refs, key, other):
    """got[key] must equal refs[key]; diagnose a misplaced result."""
    g = got[key]
    if _same(g, refs[key]):
        return
    owner = [k for k in refs if k != key and _same(g, refs[k])]
    kind = 'misplaced' if owner else 'differs'
    msg = (f"{name} slot (source {key[0]}, frequency {key[1]}) is not "
           f"bit-identical to the {other}: {_maxdiff(g, refs[key])}")
    if owner:
        msg += (f"; it holds the result of task (source {owner[0][0]}, "
                f"frequency {owner[0][1]})")
    raise Violation(f"{name}_slot:{kind}:vs_{other.split()[0]}:{path}", msg,
                    {'slot': list(key), 'holds_task': owner[:1]})


# ------------------------------------------------------------------ case
def _path(spec):
    if spec['workers'] == 1:
        ex = 'seq_tqdm' if spec['tqdm'] else 'seq_plain'
    else:
        ex = 'tqdm' if spec['tqdm'] else 'futures'
    return f"{'file' if spec['file'] else 'mem'}:{ex}"


def _collect(sim, P, spec, names):
    """Read everything observable from a simulation after its run."""
    out = {'efield': {}, 'syn': {}, 'bfield': {}, 'jvec': {}}
    syn = np.array(sim.data.synthetic.data)
    out['synthetic'] = syn
    for (i, j), (sn, fn) in names.items():
        out['efield'][(i, j)] = np.array(sim.get_efield(sn, fn).field)
        out['syn'][(i, j)] = syn[i, :, j]
    return out


def case_parallel(spec, rec):
    import emg3d
    import emg3d._multiprocessing as _mp
    os.makedirs(TMPBASE, exist_ok=True)
    tmpd = tempfile.mkdtemp(prefix='c11_', dir=TMPBASE)
    try:
        with warnings.catch_warnings():
            warnings.simplefilter('ignore')
            _case(spec, rec, emg3d, _mp, tmpd)
    finally:
        # nothing may outlive the case
        for p in multiprocessing.active_children():
            p.terminate()
            p.join(5)
        shutil.rmtree(tmpd, ignore_errors=True)


def _case(spec, rec, emg3d, _mp, tmpd):
    P = _build(spec)
    op = spec['op']
    nsrc, nfreq = spec['nsrc'], spec['nfreq']
    nrec = spec['nrec']
    tasks = [(i, j) for i in range(nsrc) for j in range(nfreq)]
    n = len(tasks)
    path = _path(spec)
    seq = dict(tqdm_opts=False)

    if _mp.solve is _delayed_solve:
        raise HarnessError("C11: patched solve left over from another case")
    if _mp.tqdm is None:
        raise HarnessError("C11: tqdm is not importable (or left patched)")

    # ---------------- (0) sequential run in a clean child process ---------
    # Forked BEFORE this process has computed anything for this survey: the
    # child runs the whole survey sequentially in submission order.  Its
    # fields must equal the per-task references computed below (in this
    # process, in reverse order).  Two different computation histories: a
    # result that depends on per-process state left by the previous task
    # (caches) cannot agree in both.
    early = _sequential_in_child(P, spec, tasks)

    # ---------------- (ii) per-task references ---------------------------
    # direct solve_source, and a sequential one-source-one-frequency
    # simulation (forward now; back-propagation / jvec below, once the
    # observed data - derived from the reference responses - exist)
    ref_e, ref_syn, single = {}, {}, {}
    synref = np.zeros((nsrc, nrec, nfreq), dtype=complex)
    # The references are computed in the REVERSE of the submission order: a
    # result that depends on what the process computed just before (state
    # leaking between consecutive tasks) then differs between the
    # sequential simulation and its per-task references.
    for (i, j) in reversed(tasks):
        sv = _survey(P, i, j, np.zeros((nsrc, nrec, nfreq), dtype=complex))
        s1 = _simulation(P, spec, sv, 1, i, j, **seq)
        s1.compute()
        sn, fn = list(sv.sources)[0], list(sv.frequencies)[0]
        e1 = np.array(s1.get_efield(sn, fn).field)
        g = P['tgrids'][(i, j)] if spec['gridding'] == 'dict' else P['grid']
        model = emg3d.Model(P['grid'], **P['model_args'])
        ed = emg3d.solve_source(
            model=model.interpolate_to_grid(g),
            source=getattr(emg3d, P['src'][i][0])(P['src'][i][1]),
            frequency=P['freqs'][j], **P['sopts'])
        if not _same(e1, ed.field):
            raise Violation(
                f"reference:single_task_sim_vs_solve_source:{spec['solver']}",
                "sequential one-source-one-frequency simulation differs "
                f"from a direct solve_source: {_maxdiff(e1, ed.field)}")
        ref_e[(i, j)] = e1
        ref_syn[(i, j)] = np.array(s1.data.synthetic.data[0, :, 0])
        if early is not None and not _same(early[(i, j)], e1):
            raise Violation(
                "efield_slot:differs:vs_task:mem:seq_clean_process",
                f"task {(i, j)}: a sequential run of the survey in a freshly "
                "forked process differs from the per-task reference computed "
                "in another order (results depend on what the process "
                f"computed before): {_maxdiff(early[(i, j)], e1)}; layout "
                f"{spec.get('layout')}, gridding {spec['gridding']}")
        synref[i, :, j] = ref_syn[(i, j)]
        single[(i, j)] = (s1, sn, fn)
    for a in range(n):
        for b in range(a+1, n):
            if (_same(ref_e[tasks[a]], ref_e[tasks[b]]) or
                    _same(ref_syn[tasks[a]], ref_syn[tasks[b]])):
                raise Inconclusive("tasks not pairwise different")
    if not np.all(np.isfinite(synref)):
        raise Inconclusive("non-finite reference responses")

    observed = synref*P['fac']
    observed[P['hole']] = np.nan + 1j*np.nan

    ref_b, ref_j, ref_g = {}, {}, {}
    if op in ('gradient', 'jvec'):
        for (i, j) in tasks:
            s1, sn, fn = single[(i, j)]
            # the survey data are documented to be modified in place
            s1.data['observed'].data[...] = observed[i:i+1, :, j:j+1]
            if op == 'gradient':
                ref_g[(i, j)] = np.array(s1.gradient)
                ref_b[(i, j)] = np.array(
                    s1._dict_get('bfield', sn, fn).field)
            else:
                ref_j[(i, j)] = np.array(s1.jvec(P['vector'])[0, :, 0])
    del single

    # ---------------- (i) sequential in-memory simulation ----------------
    def run_ops(sim, hook=None):
        """The call sequence whose results must not depend on the setting."""
        res = {}
        sim.compute()
        if hook:
            hook('forward')
        res['misfit'] = np.array(sim.misfit)
        if op == 'gradient':
            res['gradient'] = np.array(sim.gradient)
            if hook:
                hook('back')
        elif op == 'jvec':
            res['jvec'] = np.array(sim.jvec(P['vector']))
            if hook:
                hook('jvec')
        return res

    full = _survey(P, observed=observed)
    snames, fnames = list(full.sources), list(full.frequencies)
    names = {(i, j): (snames[i], fnames[j]) for (i, j) in tasks}
    sim0 = _simulation(P, spec, full, 1, **seq)
    res0 = run_ops(sim0)
    obs0 = _collect(sim0, P, spec, names)
    if op == 'gradient':
        obs0['bfield'] = {k: np.array(sim0._dict_get('bfield', *names[k]
                                                     ).field) for k in tasks}

    # ---------------- simulation under test ------------------------------
    ranks = _ranks(spec['order'], n, spec['rot'], spec['perm'])
    want = {names[t]: int(ranks[k]) for k, t in enumerate(tasks)}
    kw = {}
    fh = None
    if spec['file']:
        kw['file_dir'] = os.path.join(tmpd, 'files')
    if spec['tqdm'] and spec['bar']:
        fh = open(os.devnull, 'w')
        kw['tqdm_opts'] = {'file': fh}
    else:
        kw['tqdm_opts'] = False
    log = os.path.join(tmpd, 'order.log')
    open(log, 'w').close()
    phases = {}

    def hook(phase):
        _, lines = _read_phase(log, _STATE['phase'])
        phases[phase] = lines
        _STATE['phase'] += 1
        _STATE['ranks'] = {}
        if not lines:
            raise HarnessError(
                f"C11: no task of phase '{phase}' went through the delay "
                "wrapper (workers not forked, or the simulation does not "
                "call emg3d._multiprocessing.solve any more)")

    real_solve, real_tqdm = _mp.solve, _mp.tqdm
    _STATE.update(table={}, ranks={}, phase=0, workers=spec['workers'],
                  log=log, real=real_solve)
    try:
        _mp.solve = _delayed_solve
        if not spec['tqdm']:
            _mp.tqdm = None
        sim = _simulation(P, spec, _survey(P, observed=observed),
                          spec['workers'], **kw)
        _instrument(sim, want)
        res = run_ops(sim, hook)
        obs = _collect(sim, P, spec, names)
        if op == 'gradient':
            obs['bfield'] = {k: np.array(sim._dict_get('bfield', *names[k]
                                                       ).field)
                             for k in tasks}
        converged = all(
            int(sim.get_efield_info(*names[k])['exit']) == 0 for k in tasks)
        if op == 'compute':
            # repeating the computation changes nothing (a converged field
            # is its own fixed point; a run that stopped at maxit would
            # legitimately continue from the provided field)
            sim.compute()
            hook('repeat')
            res2 = {'misfit': np.array(sim.misfit)}
            obs2 = _collect(sim, P, spec, names)
    finally:
        _mp.solve = real_solve
        _mp.tqdm = real_tqdm
        _STATE.update(table={}, ranks={}, phase=0, workers=1, log=None,
                      real=None)
        if fh:
            fh.close()

    # ---------------- classification -------------------------------------
    subm = [f"{names[t][0]}|{names[t][1]}" for t in tasks]
    main = {'compute': 'forward', 'gradient': 'back', 'jvec': 'jvec'}[op]
    ntkey = None
    for ph, lines in phases.items():
        order = [ln[1].split('|', 1)[1] if '|' in ln[1] else ln[1]
                 for ln in lines]
        pids = {ln[0] for ln in lines}
        complete = sorted(order) == sorted(subm)
        reordered = complete and order != subm
        rec.cls(f"{ph}:{'reordered' if reordered else 'in_order'}"
                f"{'' if complete else ':log_incomplete'}",
                f"{ph}:pids={'1' if len(pids) < 2 else '2+'}")
        if ph == main and reordered and len(pids) >= 2:
            ntkey = [subm.index(o) for o in order]
            want = [int(x) for x in np.argsort(ranks, kind='stable')]
            rec.cls("forced_order_achieved" if ntkey == want
                    else "forced_order_partly")
    w = spec['workers']
    rec.cls(f"op={op}", f"path={path}", f"gridding={spec['gridding']}",
            f"layout={spec.get('layout', 'local')}",
            f"solver={spec['solver']}", f"order={spec['order']}",
            f"workers={'1' if w == 1 else '2-4' if w < 5 else '5-8' if w < 9 else '9-16'}",
            f"workers{'<' if w < n else '>='}tasks", f"tasks={nsrc}x{nfreq}",
            f"bar={'on' if spec['tqdm'] and spec['bar'] else 'off'}",
            f"case={spec['case']}", f"relative_rx={spec['relative']}")
    if ntkey is not None:
        rec.nt([op, path, spec['gridding'], spec['solver'], w, nsrc, nfreq,
                ntkey])
    rec.note({'path': path, 'op': op, 'workers': w, 'tasks': n,
              'completion_order': {ph: [ln[1] for ln in lines]
                                   for ph, lines in phases.items()},
              'pids': {ph: len({ln[0] for ln in lines})
                       for ph, lines in phases.items()}})

    # ---------------- oracle ----------------------------------------------
    # sequential in-memory simulation against the per-task references
    for k in tasks:
        _slot_check('efield', 'mem:seq_reference', obs0['efield'], ref_e, k,
                    'task reference')
        _slot_check('synthetic', 'mem:seq_reference', obs0['syn'], ref_syn,
                    k, 'task reference')
        if op == 'gradient':
            _slot_check('bfield', 'mem:seq_reference', obs0['bfield'], ref_b,
                        k, 'task reference')
        if op == 'jvec':
            _slot_check('jvec', 'mem:seq_reference',
                        {t: res0['jvec'][t[0], :, t[1]] for t in tasks},
                        ref_j, k, 'task reference')
    # simulation under test: per-task references first (root cause), then
    # the sequential simulation
    for k in tasks:
        _slot_check('efield', path, obs['efield'], ref_e, k,
                    'task reference')
    for k in tasks:
        _slot_check('synthetic', path, obs['syn'], ref_syn, k,
                    'task reference')
    if op == 'gradient':
        for k in tasks:
            _slot_check('bfield', path, obs['bfield'], ref_b, k,
                        'task reference')
    if op == 'jvec':
        got = {t: res['jvec'][t[0], :, t[1]] for t in tasks}
        for k in tasks:
            _slot_check('jvec', path, got, ref_j, k, 'task reference')
    for k in tasks:
        _slot_check('efield', path, obs['efield'], obs0['efield'], k,
                    'sequential run')
    for what in ('synthetic',):
        if not _same(obs[what], obs0[what]):
            raise Violation(f"{what}:vs_sequential:{path}",
                            f"data.{what} differs from the sequential run: "
                            f"{_maxdiff(obs[what], obs0[what])}")
    for what in ('misfit', 'gradient', 'jvec'):
        if what in res0 and not _same(res[what], res0[what]):
            raise Violation(f"{what}:vs_sequential:{path}",
                            f"{what} is not bit-identical to the sequential "
                            f"run: {_maxdiff(res[what], res0[what])}")
    if op == 'gradient':
        for k in tasks:
            _slot_check('bfield', path, obs['bfield'], obs0['bfield'], k,
                        'sequential run')
        # the survey gradient is the sum of the task gradients (rounding)
        gsum = sum(ref_g[k] for k in tasks)
        gabs = sum(np.abs(ref_g[k]) for k in tasks)
        if res['gradient'].shape != gsum.shape or np.any(
                np.abs(res['gradient'] - gsum) > 1e-9*(gabs + gabs.max())):
            raise Violation(f"gradient:vs_task_sum:{path}",
                            "gradient differs from the sum of the single-"
                            "task gradients beyond rounding: "
                            f"{_maxdiff(res['gradient'], gsum)}")
    # misfit against the checker's own sum over the reference slots
    std = np.sqrt(1e-16**2 + (0.05*np.abs(observed))**2)
    r = synref - observed
    fin = np.isfinite(observed)
    mref = 0.5*float(np.sum((np.abs(r[fin])/std[fin])**2))
    if not abs(float(res['misfit']) - mref) <= 1e-9*mref:
        raise Violation(f"misfit:vs_task_reference:{path}",
                        f"misfit {float(res['misfit'])!r} differs from the "
                        f"weighted sum over the reference slots {mref!r}")
    if op == 'compute' and not converged:
        rec.cls('repeat:skipped_not_converged')
    if op == 'compute' and converged:
        for k in tasks:
            if not _same(obs2['efield'][k], obs['efield'][k]):
                raise Violation(
                    f"repeat_changed:efield:{spec['solver']}:{path}",
                    f"second compute() changed the field of task {k}: "
                    f"{_maxdiff(obs2['efield'][k], obs['efield'][k])}")
        if not _same(obs2['synthetic'], obs['synthetic']):
            raise Violation(f"repeat_changed:synthetic:{path}",
                            "second compute() changed data.synthetic: " +
                            _maxdiff(obs2['synthetic'], obs['synthetic']))
        if not _same(res2['misfit'], res['misfit']):
            raise Violation(f"repeat_changed:misfit:{path}",
                            "second compute() changed the misfit")


# ------------------------------------------------------- bounded reduction
_REDUCED = set()     # signatures already reduced in this process


def _reductions(spec):
    return [('nsrc', 2), ('nfreq', 2), ('solver', 'plain'),
            ('gridding', 'same'), ('workers', min(spec['workers'], 3))]


_OUTCOME = {}        # spec -> Violation observed for it in this process


def explore_case(spec, rec):
    """case_parallel for the Hypothesis driver.

    * A violation observed for a spec is remembered and re-raised when
      Hypothesis executes the same spec again (it re-runs a failing example
      to confirm it).  A defect in this property's domain is typically a
      race: its manifestation need not repeat, and a violation that was
      really observed must not be turned into a "flaky test" harness error.
    * Bounded hand-written reduction (at most two signatures per process):
      the reduced spec goes into the details, the replay spec stays the
      original one."""
    import json
    from vp.framework import Rec, exception_to_violation
    okey = json.dumps(spec, sort_keys=True, default=repr)
    if okey in _OUTCOME:
        raise _OUTCOME[okey]
    try:
        case_parallel(spec, rec)
    except (Inconclusive, HarnessError):
        raise
    except Violation as v:
        _OUTCOME[okey] = v
        cur = spec
        if v.signature in _REDUCED or len(_REDUCED) >= 2:
            raise
        _REDUCED.add(v.signature)
        for key, val in _reductions(spec):
            if cur[key] == val:
                continue
            cand = {**cur, key: val}
            try:
                case_parallel(cand, Rec())
            except Violation as v2:
                if v2.signature == v.signature:
                    cur = cand
            except Exception:
                pass
        if cur != spec:
            v.details = dict(v.details or {})
            v.details['reduced_spec'] = cur
        raise v
    except Exception as e:
        if type(e).__module__.startswith('hypothesis'):
            raise
        v = exception_to_violation(e)
        if v is None:
            raise
        _OUTCOME[okey] = v
        raise v from e


SUBS = {'parallel': case_parallel}

STRATA = [(op, fm) for op in ('compute', 'gradient', 'jvec')
          for fm in (False, True)]


def run(ctx):
    ctx.regression(SUBS)
    # Stratified over operation x file mode; per stratum Hypothesis' first
    # (simplest) example is a designed one that depends on seed and stratum
    # (see _pick), alternating tqdm present/absent; the rest is random.
    if multiprocessing.get_start_method() != 'fork':
        raise HarnessError("C11 needs the 'fork' start method (the delay "
                           "wrapper is inherited by forked workers)")
    per = ctx.n(2, 8)
    for k, (op, fm) in enumerate(STRATA):
        salt = 1000*(ctx.seed % 100000) + 10*ctx.shard[0] + k
        tq = (k + k//2 + ctx.seed + ctx.shard[0]) % 2 == 0
        ctx.explore('parallel', spec_strategy(op, fm, salt, tq),
                    explore_case, per, shrink=False, max_rounds=2, salt=k)
    # max_workers=1 (sequential map with/without tqdm, mostly file-based):
    # cheap, never non-trivial by the rule, but part of the quantifier
    for k in range(ctx.n(1, 3)):
        op = ('compute', 'gradient', 'jvec')[(ctx.seed + ctx.shard[0] + k) % 3]
        fm = k != 2
        salt = 1000*(ctx.seed % 100000) + 10*ctx.shard[0] + 6 + k
        ctx.explore('parallel',
                    spec_strategy(op, fm, salt, (ctx.seed + k) % 2 == 0,
                                  sequential=True),
                    explore_case, 1, shrink=False, max_rounds=2, salt=6+k)

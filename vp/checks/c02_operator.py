"""C02 - matrix-free operator == assembled finite-integration operator."""
import itertools
from unittest import mock

import numpy as np
from hypothesis import strategies as st

from vp import gen, refop
from vp.framework import Violation

RULE = ("Per grid shape in {2..5}^3 (every shape enumerated, coefficients "
        "drawn by Hypothesis: widths uniform/stretched/random - one kind or "
        "one per axis, stretching up to 2 -, four anisotropy cases, "
        "mu_r/epsilon_r on/off, frequency or Laplace s given as float / "
        "np.float64 / int / 0-d array, induction-number regime, model built "
        "from full / flat-F / broadcast (1,1,nz),(nx,1,1) / scalar / shared "
        "F-ordered / integer input) the whole interior edge basis (half of "
        "the columns at a drawn amplitude 1e-25..1e5) is pushed through "
        "emg3d.core.amat_x (VolumeModel coefficients) and compared entrywise "
        "with C^T M_f C + s mu0 M_e assembled by the checker; plus symmetry, "
        "gradient null space (every interior node, complex potential), "
        "solver.residual on fields of drawn amplitudes (inputs and "
        "coefficients unchanged, repeatable also after a smoother call), the "
        "LinearOperator that solver.krylov hands to scipy (captured by "
        "stubbing the scipy solver; matvec on contiguous and strided "
        "vectors), VolumeModels of a re-used model modified per property "
        "through setter / in place / on a slab with persistent source "
        "fields of different provenance, and jit-vs-py_func. Non-trivial = "
        "non-uniform widths and heterogeneous model; distinct by (shape, "
        "case, seeds).")
ASSUMPTIONS = [
    "reference operator refop.assemble is the documented discretisation "
    "(two-cell face average of V/mu_r, four-cell edge average of "
    "V(sigma+s eps)); it shares no code with emg3d.core",
    "comparison tolerance 1e4*eps relative to the sum of absolute terms "
    "(all oracles are relative to |A||e| + |s|, so field amplitudes "
    "1e-25..1e5 need no absolute floor)",
    "the Krylov operator is observed by replacing scipy.sparse.linalg.<name> "
    "(bicgstab/cgs/gcrotmk: the names solve() accepts) with a stub that "
    "records `A` and returns x0; solver.krylov looks the solver up by name "
    "at call time.  If a future tree does not reach the stub the case is "
    "labelled krylov=NOT_CAPTURED instead of judged",
    "Model input variants are the ones the Model docstring allows ('must be "
    "broadcastable', array_like); frequency types are float-likes that "
    "Field accepts (0-d arrays come from surveys loaded from npz files)",
    "kernels and wrappers are deterministic: two calls with identical "
    "inputs in one process must give identical arrays",
]
SHARDS = {'quick': 1, 'thorough': 16}

C_EPS = 1e4*np.finfo(float).eps

KINDS = ['uniform', 'stretch', 'random']
LAYOUTS = ['full', 'flatF', 'layered_z', 'column_x', 'scalar',
           'fortran_shared', 'int']
FTYPES = ['float', 'npfloat', 'int', 'array0d']
KSOLVERS = ['bicgstab', 'cgs', 'gcrotmk']
PROPS = ['property_x', 'property_y', 'property_z', 'mu_r', 'epsilon_r']
MODES = ['keep', 'setter', 'setter_scalar', 'inplace', 'slab0', 'slabz']
PROVS = ['new', 'copy', 'dict', 'data', 'source']


def _amp():
    """log10 of a field amplitude: 1 (as before) or 1e-25..1e5."""
    return st.one_of(st.just(0.0), st.floats(-25.0, 5.0))


def _rare():
    # (not k == 0: Hypothesis over-samples the ends of an integer range)
    return st.integers(0, 15).map(lambda k: k == 11)


def spec_strategy(shape):
    return st.fixed_dictionaries({
        'grid': gen.grid_spec([[shape[0]], [shape[1]], [shape[2]]]),
        'model': gen.model_spec(),
        'freq': gen.freq_spec(),
        'pyfunc': st.integers(0, 9).map(lambda k: k == 0),
        'fseed': gen.SEED,
        # --- added (all read with spec.get: old replay files lack them) ---
        'lgeamp': _amp(), 'lgsamp': _amp(),
        'ezero': _rare(), 'szero': _rare(),
        'ftype': st.sampled_from(['float'] + FTYPES),
        'layout': st.sampled_from(['full', 'full'] + LAYOUTS),
        'kinds3': st.one_of(st.none(), st.lists(
            st.sampled_from(KINDS), min_size=3, max_size=3)),
        'fac2': st.one_of(st.none(), st.none(), st.floats(1.5, 2.0)),
        'krylov': st.one_of(st.none(), st.fixed_dictionaries({
            'solver': st.sampled_from(KSOLVERS),
            'cycle': st.sampled_from([None, 'F']),
            'strided': st.booleans(),
            'efield': st.booleans()})),
        'reuse': st.fixed_dictionaries({
            'prov': st.lists(st.sampled_from(PROVS), min_size=2, max_size=2),
            'touch': st.booleans(),
            'rounds': st.lists(st.fixed_dictionaries(
                {p: st.sampled_from(MODES) for p in PROPS}),
                min_size=2, max_size=2)}),
    })


# ------------------------------------------------------------- builders
def _build_widths(gs, kinds3, fac2):
    """gen.build_widths with one kind per axis / another stretching factor
    (same consumption of the random stream)."""
    if kinds3 is None and fac2 is None:
        return gen.build_widths(gs)
    rng = gen.rng_of(gs['seed'], 1)
    fac = gs['fac'] if fac2 is None else fac2
    out = []
    for ax, n in enumerate(gs['n']):
        kind = gs['kind'] if kinds3 is None else kinds3[ax]
        if kind == 'uniform':
            h = np.ones(n)*rng.uniform(0.5, 2)
        elif kind == 'stretch':
            c = rng.uniform(0, n-1)
            h = fac**np.abs(np.arange(n)-c)*rng.uniform(0.5, 2)
        else:
            h = rng.uniform(0.5, 2, size=n)
        out.append(h*gs['scale'])
    origin = rng.uniform(-1, 1, 3)*gs['scale']*np.array(gs['n'])
    return out, origin


def _build_model(emg3d, grid, mspec, bg, layout):
    """Model built from the input variant `layout`; returns the model, the
    reference conductivities / mu_r / epsilon_r as full arrays and, for
    'fortran_shared', the arrays shared with the model and a second model
    built from the same arrays."""
    if layout == 'full':
        model, ref = gen.build_model(grid, mspec, bg)
        return model, ref, None
    shape = tuple(grid.shape_cells)
    mp = mspec['mapping']
    cond = gen.build_cond(mspec, shape, bg)       # sx, sy, sz, mur, epsr
    isprop = [True, True, True, False, False]
    fwd = [(lambda a: gen.map_forward(mp, a)) if p else (lambda a: a)
           for p in isprop]
    bwd = [(lambda a: gen.map_backward(mp, a)) if p else
           (lambda a: np.asarray(a, float)) for p in isprop]
    inputs, refs = [], []
    for a, f, b, p in zip(cond, fwd, bwd, isprop):
        if a is None:
            inputs.append(None); refs.append(None)
            continue
        if layout == 'flatF':
            inp = f(a).ravel('F')
            ref = a
        elif layout == 'layered_z':
            inp = f(a[:1, :1, :])
            ref = np.broadcast_to(a[:1, :1, :], shape).copy()
        elif layout == 'column_x':
            inp = f(a[:, :1, :1])
            ref = np.broadcast_to(a[:, :1, :1], shape).copy()
        elif layout == 'scalar':
            inp = float(f(a[0, 0, 0]))
            ref = np.full(shape, a[0, 0, 0])
        elif layout == 'fortran_shared':
            inp = np.asfortranarray(f(a), dtype=np.float64)
            ref = a
        elif layout == 'int':
            inp = np.rint(f(a)).astype(np.int64)
            if not p or mp in ('Conductivity', 'Resistivity'):
                inp = np.maximum(inp, 1)
            ref = b(inp.astype(float))
        else:
            raise ValueError(layout)
        inputs.append(inp); refs.append(ref)
    model = emg3d.Model(grid, inputs[0], inputs[1], inputs[2],
                        mu_r=inputs[3], epsilon_r=inputs[4], mapping=mp)
    extra = None
    if layout == 'fortran_shared':
        extra = {
            'arrays': inputs,
            'snap': [None if a is None else a.copy() for a in inputs],
            'modelB': emg3d.Model(grid, inputs[0], inputs[1], inputs[2],
                                  mu_r=inputs[3], epsilon_r=inputs[4],
                                  mapping=mp)}
    return model, tuple(refs), extra


def _conv_freq(ftype):
    return {'float': float, 'npfloat': np.float64, 'array0d': np.array,
            'int': lambda v: int(v) if float(v).is_integer() else float(v)
            }[ftype]


def _apply(kernel, arrs, e, shapes):
    """-> A e for flat e (kernel computes r -= A e ... i.e. r = -A e)."""
    n1 = int(np.prod(shapes[0])); n2 = n1 + int(np.prod(shapes[1]))
    dt = np.result_type(e.dtype, arrs[0].dtype)
    ex = np.asfortranarray(e[:n1].reshape(shapes[0], order='F').astype(dt))
    ey = np.asfortranarray(e[n1:n2].reshape(shapes[1], order='F').astype(dt))
    ez = np.asfortranarray(e[n2:].reshape(shapes[2], order='F').astype(dt))
    e0 = (ex.copy(), ey.copy(), ez.copy())
    rx = np.zeros(shapes[0], dt, order='F')
    ry = np.zeros(shapes[1], dt, order='F')
    rz = np.zeros(shapes[2], dt, order='F')
    kernel(rx, ry, rz, ex, ey, ez, *arrs)
    for a, b, c in zip((ex, ey, ez), e0, 'xyz'):
        if not np.array_equal(a, b):
            raise Violation(f"kernel_modifies_input:e{c}",
                            f"amat_x wrote into its input field e{c}")
    return -np.concatenate([rx.ravel('F'), ry.ravel('F'), rz.ravel('F')])


def _snapshot(arrs):
    return [np.array(a, copy=True) for a in arrs]


def _same(arrs, snap):
    return all(np.array_equal(a, b) and np.shape(a) == np.shape(b)
               for a, b in zip(arrs, snap))


def _check_vm(vm, vol, sval, sx, sy, sz, mur, epsr, sig, msg):
    """VolumeModel coefficients vs the closed formulas."""
    ee = 0 if epsr is None else sval*refop.epsilon_0*epsr
    for name, cond in (('eta_x', sx), ('eta_y', sy), ('eta_z', sz)):
        ref = -sval*refop.mu_0*vol*(cond + ee)
        got = getattr(vm, name)
        if np.shape(got) != ref.shape or not np.allclose(
                got, ref, rtol=1e-12, atol=0):
            err = (np.max(abs(got-ref)/abs(ref))
                   if np.shape(got) == ref.shape else np.nan)
            raise Violation(sig.format(name=name),
                            f"{name} differs from -s mu0 V (sigma + s eps)"
                            f"{msg}: max rel {err:.2e}")
    zref = vol/(1.0 if mur is None else mur)
    if np.shape(vm.zeta) != zref.shape or not np.allclose(
            vm.zeta, zref, rtol=1e-12, atol=0):
        raise Violation(sig.format(name='zeta'),
                        f"zeta differs from V/mu_r{msg}")


def _bucket(lg):
    if lg == 0:
        return '1'
    return '<1e-10' if lg < -10 else ('1e-10..1' if lg < 0 else '>1')


def case_operator(spec, rec):
    import emg3d
    from emg3d import core
    new = 'lgeamp' in spec          # False for replay files of older specs
    kinds3 = spec.get('kinds3')
    fac2 = spec.get('fac2')
    h, origin = _build_widths(spec['grid'], kinds3, fac2)
    grid = emg3d.TensorMesh(h, origin=origin)
    ftype = spec.get('ftype', 'float')
    fs = dict(spec['freq'])
    if ftype == 'int':              # integer-valued frequency 1..1000
        fs['f'] = float(max(1, round(fs['f'])))
    conv = _conv_freq(ftype)
    fval = gen.freq_of(fs)
    freq = conv(fval)
    s = gen.sval_of(fs)
    bg = gen.bg_cond(fs, spec['grid']['scale'])
    layout = spec.get('layout', 'full')
    model, (sx, sy, sz, mur, epsr), shared = _build_model(
        emg3d, grid, spec['model'], bg, layout)
    case = spec['model']['case']
    nx, ny, nz = grid.shape_cells
    sfield = emg3d.Field(grid, frequency=freq)
    vm = emg3d.models.VolumeModel(model, sfield)

    # --- reference -----------------------------------------------------
    rsy = sy if case in ('HTI', 'triaxial') else sx
    rsz = sz if case in ('VTI', 'triaxial') else sx
    A, interior, C, Mf, Me = refop.assemble(*h, sx, rsy, rsz, mur, epsr, s)
    import scipy.sparse as sp
    Acc = (C.T @ sp.diags(Mf) @ C).tocsr()
    S = (abs(C).T @ sp.diags(Mf) @ abs(C) +
         abs(s)*refop.mu_0*sp.diags(np.abs(Me))).toarray()
    Ad = A.toarray()
    absA = refop.absmat(A)

    # --- VolumeModel coefficients vs closed formulas --------------------
    vol = h[0][:, None, None]*h[1][None, :, None]*h[2][None, None, :]
    _check_vm(vm, vol, s, sx, rsy, rsz, mur, epsr,
              "volume_model:{name}:" + case, '')
    if np.isrealobj(sfield.field) != (freq < 0):
        raise Violation("dtype", "Laplace <-> real field broken")
    if spec.get('reuse') is None:
        _reuse_model(emg3d, spec, grid, model, vol, s, case, sx, rsy, rsz,
                     mur, epsr, freq)
    else:
        _reuse_model2(emg3d, spec, rec, grid, model, vol, s, case,
                      (sx, sy, sz, mur, epsr), freq, conv)

    arrs = (vm.eta_x, vm.eta_y, vm.eta_z, vm.zeta, h[0], h[1], h[2])
    arrs_snap = _snapshot(arrs)
    shapes = ((nx, ny+1, nz+1), (nx+1, ny, nz+1), (nx+1, ny+1, nz))
    ne = A.shape[0]
    dt = sfield.field.dtype
    iint = np.flatnonzero(interior)
    lgeamp = float(spec.get('lgeamp', 0.0))
    lgsamp = float(spec.get('lgsamp', 0.0))
    eamp, samp = 10.0**lgeamp, 10.0**lgsamp

    # --- full interior basis through the compiled kernel ----------------
    # every second column at the drawn field amplitude (linear map: the
    # column divided by the amplitude must be the same matrix column)
    camp = np.ones(iint.size)
    camp[1::2] = eamp
    Aimpl = np.zeros((ne, iint.size), dtype=dt)
    for k, j in enumerate(iint):
        e = np.zeros(ne, dtype=dt)
        e[j] = camp[k]
        Aimpl[:, k] = _apply(core.amat_x, arrs, e, shapes)/camp[k]
    if not _same(arrs, arrs_snap):
        raise Violation("kernel_modifies_coefficients",
                        "amat_x changed eta/zeta/h arrays it was given")
    Aref = Ad[:, iint]
    rowmax = S.max(axis=1, keepdims=True)
    tol = C_EPS*(S[:, iint] + 1e-3*rowmax)
    # interior rows
    D = np.abs(Aimpl - Aref)
    D[~interior, :] = 0
    bad = D > tol
    if bad.any():
        i, k = np.unravel_index(np.argmax(D/np.maximum(tol, 1e-300)), D.shape)
        comp = 'xyz'[int(i >= np.prod(shapes[0])) +
                     int(i >= np.prod(shapes[0])+np.prod(shapes[1]))]
        kind = 'diag' if i == iint[k] else 'offdiag'
        raise Violation(
            f"operator_mismatch:row_{comp}:{kind}",
            f"A_impl[{i},{iint[k]}]={Aimpl[i, k]:.6e} vs ref "
            f"{Aref[i, k]:.6e} (scale {S[i, iint[k]]:.3e}, basis amplitude "
            f"{camp[k]:.1e}); "
            f"{int(bad.sum())} entries differ; shape {grid.shape_cells}")
    # boundary rows untouched
    if np.any(Aimpl[~interior, :] != 0):
        raise Violation("boundary_rows_nonzero",
                        "operator writes tangential boundary rows for an "
                        "interior basis vector")
    # symmetry
    Aii = Aimpl[iint, :]
    if np.any(np.abs(Aii - Aii.T) > 2*tol[iint, :]):
        raise Violation("not_symmetric", "A_impl != A_impl^T on interior")

    # --- gradient null space of the curl-curl part ----------------------
    z = np.zeros_like(vm.eta_x)
    arrs0 = (z, z, z, vm.zeta, h[0], h[1], h[2])
    G = refop.gradient(*h)
    nn = refop.idx((nx+1, ny+1, nz+1))
    inodes = nn[1:-1, 1:-1, 1:-1].ravel()
    rng = gen.rng_of(spec['fseed'], 7)
    phis = []
    if inodes.size:
        for j in (inodes if new else inodes[:40]):
            p = np.zeros(nn.size); p[j] = 1.0
            phis.append(p)
        p = np.zeros(nn.size); p[inodes] = rng.standard_normal(inodes.size)
        phis.append(p)
        if new and np.issubdtype(dt, np.complexfloating):
            p = np.zeros(nn.size, dtype=dt)
            p[inodes] = (rng.standard_normal(inodes.size) +
                         1j*rng.standard_normal(inodes.size))*eamp
            phis.append(p)
    absAcc = refop.absmat(Acc)
    for p in phis:
        g = G @ p
        out = _apply(core.amat_x, arrs0, g.astype(dt), shapes)
        sc = absAcc @ np.abs(g)
        if np.any(np.abs(out[interior]) > C_EPS*(sc[interior] +
                                                 1e-3*sc.max())):
            raise Violation("curlcurl_gradient_not_annihilated",
                            f"max |CC G phi| = {np.abs(out[interior]).max()}")

    # --- solver.residual = s - A e on random fields ----------------------
    ef = gen.random_field(grid, spec['fseed'], freq, salt=11, scale=eamp)
    sf = gen.random_field(grid, spec['fseed'], freq, salt=12, scale=samp)
    if spec.get('ezero', False):
        ef.field[:] = 0
    if spec.get('szero', False):
        sf.field[:] = 0
    hvm = list(vm.grid.h)
    watched = [sf.field, ef.field, vm.eta_x, vm.eta_y, vm.eta_z, vm.zeta,
               hvm[0], hvm[1], hvm[2]]
    wnames = ['sfield', 'efield', 'eta_x', 'eta_y', 'eta_z', 'zeta',
              'hx', 'hy', 'hz']
    wsnap = _snapshot(watched)

    def unchanged(after):
        for a, b, n in zip(watched, wsnap, wnames):
            if not np.array_equal(a, b):
                raise Violation(f"{after}_modifies:{n}",
                                f"{after} changed its input {n}")
    r = emg3d.solver.residual(vm, sf, ef)
    unchanged('residual')
    ref = sf.field - A @ ef.field
    sc = np.abs(sf.field) + absA @ np.abs(ef.field)
    d = np.abs(r.field - ref)
    lim = C_EPS*(sc[interior] + 1e-3*sc.max())
    if np.any(d[interior] > lim):
        raise Violation("residual_mismatch",
                        "solver.residual != s - A_ref e; max "
                        f"{np.max(d[interior]/np.maximum(lim, 1e-300)):.2e}"
                        f" x tolerance (|e| ~ {eamp:.1e}, |s| ~ {samp:.1e})")
    nrm = emg3d.solver.residual(vm, sf, ef, norm=True)
    unchanged('residual')
    if abs(nrm - np.linalg.norm(r.field)) > 1e-12*nrm:
        raise Violation("residual_norm", "norm=True differs from ||r||")
    if r.field.dtype != dt:
        raise Violation("residual_dtype", f"{r.field.dtype} vs {dt}")
    # repeatable: same inputs, same VolumeModel -> same residual; also
    # after another kernel (a smoother sweep on a copy of e) used the model
    r2 = emg3d.solver.residual(vm, sf, ef)
    if not np.array_equal(r2.field, r.field):
        raise Violation("residual_not_repeatable:second_call",
                        "second residual() call with the same arguments "
                        "returns another field")
    e2 = ef.copy()
    core.gauss_seidel(e2.fx, e2.fy, e2.fz, sf.fx, sf.fy, sf.fz, vm.eta_x,
                      vm.eta_y, vm.eta_z, vm.zeta, hvm[0], hvm[1], hvm[2], 1)
    unchanged('gauss_seidel')
    r3 = emg3d.solver.residual(vm, sf, ef)
    unchanged('residual')
    if not np.array_equal(r3.field, r.field):
        raise Violation("residual_not_repeatable:after_smoother",
                        "residual() differs after the VolumeModel was used "
                        "by gauss_seidel")

    # --- the operator the Krylov solvers get ------------------------------
    if spec.get('krylov') is not None:
        _krylov(emg3d, spec, rec, grid, model, freq, A, absA, interior, iint,
                ef, eamp, samp, dt)

    # --- py_func vs compiled ---------------------------------------------
    if spec['pyfunc']:
        rec.cls('pyfunc')
        vecs = [ef.field]
        if new:
            rngp = gen.rng_of(spec['fseed'], 23)
            vecs.append(gen.random_field(grid, spec['fseed'], freq, salt=14,
                                         scale=eamp).field)
            cols = rngp.choice(iint, min(6, iint.size), replace=False)
            amps = [1.0, eamp]*3
        else:
            cols = iint[:6]
            amps = [1.0]*6
        for j, a in zip(cols, amps):
            e = np.zeros(ne, dtype=dt); e[j] = a
            vecs.append(e)
        for e in vecs:
            a = _apply(core.amat_x, arrs, e, shapes)
            b = _apply(core.amat_x.py_func, arrs, e, shapes)
            sc = absA @ np.abs(e)
            if np.any(np.abs(a-b) > C_EPS*(sc + 1e-3*sc.max())):
                raise Violation("jit_vs_pyfunc",
                                "compiled amat_x differs from its Python "
                                f"source: max {np.abs(a-b).max():.3e}")
            # py_func must also agree with the reference (stale cache guard)
            d = np.abs(b - A @ e)
            if np.any(d[interior] > C_EPS*(sc[interior] + 1e-3*sc.max())):
                raise Violation("pyfunc_mismatch",
                                "amat_x.py_func differs from the reference")

    # --- arrays shared between caller and model(s) -------------------------
    if shared is not None:
        for a, b, n in zip(shared['arrays'], shared['snap'], PROPS):
            if a is not None and not np.array_equal(a, b):
                raise Violation(f"shared_input_modified:{n}",
                                f"the F-ordered array given to Model as {n} "
                                "was changed by VolumeModel/residual/solve")
        vmB = emg3d.models.VolumeModel(shared['modelB'], sfield)
        _check_vm(vmB, vol, s, sx, rsy, rsz, mur, epsr,
                  "volume_model_shared:{name}",
                  " for a second model built from the same arrays")

    # --- classification ---------------------------------------------------
    kind = spec['grid']['kind']
    if kinds3 is not None:
        kind = kinds3[0] if len(set(kinds3)) == 1 else 'mixed'
    het = spec['model']['hetero'] != 'homog' and spec['model']['decades'] > .1
    rec.cls(f"case={case}", f"widths={kind}", f"mur={mur is not None}",
            f"epsr={epsr is not None}", f"laplace={fs['laplace']}",
            gen.regime(fs), f"shape={nx}x{ny}x{nz}")
    if new:
        rec.cls(f"layout={layout}", f"ftype={ftype}",
                f"eamp={_bucket(lgeamp)}", f"samp={_bucket(lgsamp)}",
                f"ezero={bool(spec.get('ezero'))}",
                f"szero={bool(spec.get('szero'))}")
        if fac2 is not None and 'stretch' in (kinds3 or
                                              [spec['grid']['kind']]):
            rec.cls("stretch_factor>1.5")
        het = het and float(sx.max()) > 1.05*float(sx.min())
    if kind != 'uniform' and het:
        rec.nt([grid.shape_cells, case, spec['grid']['seed'],
                spec['model']['seed']])
    rec.note({'shape': list(grid.shape_cells), 'case': case,
              'interior_edges': int(iint.size), 'sval': str(s)})


def _krylov(emg3d, spec, rec, grid, model, freq, A, absA, interior, iint,
            ef, eamp, samp, dt):
    """Capture the LinearOperator solver.krylov passes to scipy and compare
    its matvec with the assembled operator."""
    import scipy.sparse.linalg as ssl
    ks = spec['krylov']
    name = ks['solver']
    cap = {}

    def stub(A, b, x0=None, **kw):
        cap['A'] = A
        return x0, 0
    sfk = gen.random_field(grid, spec['fseed'], freq, salt=13, scale=samp)
    kw = {}
    if ks.get('efield'):
        kw['efield'] = ef.copy()
    with mock.patch.object(ssl, name, stub):
        emg3d.solve(model, sfk, sslsolver=name, cycle=ks['cycle'],
                    semicoarsening=False, linerelaxation=False, verb=-1,
                    **kw)
    if 'A' not in cap:
        rec.cls('krylov=NOT_CAPTURED')
        return
    rec.cls(f"krylov={name}", f"krylov_cycle={ks['cycle']}",
            f"krylov_strided={bool(ks.get('strided'))}")
    op = cap['A']
    ne = A.shape[0]
    if tuple(op.shape) != (ne, ne):
        raise Violation("krylov_operator:shape",
                        f"LinearOperator shape {op.shape}, {ne} edges")
    if np.dtype(op.dtype) != dt:
        raise Violation("krylov_operator:dtype",
                        f"LinearOperator dtype {op.dtype}, fields are {dt}")
    rng = gen.rng_of(spec['fseed'], 29)
    vecs = [np.array(ef.field),
            gen.random_field(grid, spec['fseed'], freq, salt=15,
                             scale=eamp).field]
    cols = rng.choice(iint, min(6, iint.size), replace=False)
    for j, a in zip(cols, [1.0, eamp]*3):
        e = np.zeros(ne, dtype=dt); e[j] = a
        vecs.append(e)
    outs = []
    for e in vecs:
        e = np.ascontiguousarray(e, dtype=dt)
        x = e
        if ks.get('strided'):
            big = np.zeros(2*ne, dtype=dt)
            big[::2] = e
            x = big[::2]
        y = op.matvec(x)
        if not np.array_equal(x, e):
            raise Violation("krylov_matvec:modifies_input",
                            "matvec changed the vector it was given")
        if y.shape != (ne,) or y.dtype != dt:
            raise Violation("krylov_matvec:dtype",
                            f"matvec returns {y.dtype}{y.shape} for "
                            f"{dt}({ne},)")
        sc = absA @ np.abs(e)
        d = np.abs(y - A @ e)
        lim = C_EPS*(sc[interior] + 1e-3*sc.max())
        if np.any(d[interior] > lim):
            i = np.flatnonzero(interior)[np.argmax(
                d[interior]/np.maximum(lim, 1e-300))]
            raise Violation(
                "krylov_matvec:mismatch",
                f"A.matvec(e) of the operator given to scipy.{name} differs "
                f"from A_ref e on interior edge {i}: {y[i]:.6e} vs "
                f"{(A @ e)[i]:.6e} (scale {sc[i]:.3e}); "
                f"{int(np.sum(d[interior] > lim))} rows differ "
                f"(cycle {ks['cycle']}, strided {bool(ks.get('strided'))}, "
                f"laplace {freq < 0})")
        outs.append(y)
    # the operator is stateless: the first vector again
    y = op.matvec(np.ascontiguousarray(vecs[0], dtype=dt))
    if not np.array_equal(y, outs[0]):
        raise Violation("krylov_matvec:not_repeatable",
                        "matvec of the same vector differs on a second call")


def _make_sfield(emg3d, grid, fr, prov, rng):
    """Source fields as they reach VolumeModel in practice."""
    if prov == 'new':
        return emg3d.Field(grid, frequency=fr)
    if prov == 'copy':
        return emg3d.Field(grid, frequency=fr).copy()
    if prov == 'dict':
        return emg3d.Field.from_dict(
            emg3d.Field(grid, frequency=fr).to_dict())
    if prov == 'data':
        dtp = np.float64 if fr < 0 else np.complex128
        data = rng.standard_normal(grid.n_edges).astype(dtp)
        return emg3d.Field(grid, data, frequency=fr)
    if prov == 'source':
        n = grid.nodes_x, grid.nodes_y, grid.nodes_z
        # finite dipole (x0, x1, y0, y1, z0, z1) with both ends well inside
        # (a point dipole is a 1 m dipole: it can stick out of a small grid)
        src = []
        for v in n:
            a, b = rng.uniform(0.2, 0.8, 2)
            src += [float(v[0] + (v[-1]-v[0])*a), float(v[0] + (v[-1]-v[0])*b)]
        return emg3d.get_source_field(grid, src, frequency=fr)
    raise ValueError(prov)


def _reuse_model2(emg3d, spec, rec, grid, model, vol, s, case, cond, freq,
                  conv):
    """The coefficients belong to the model as it is NOW and to the source
    field's frequency: two persistent source fields (this frequency / another
    domain) are re-used for every build; between the builds every defined
    property is left alone, replaced through its setter (array or scalar),
    or overwritten in place (whole array or one slab), as drawn."""
    ru = spec['reuse']
    rng = gen.rng_of(spec['fseed'], 17)
    m2 = model.copy()
    mapping = spec['model']['mapping']
    shape = vol.shape
    cur = {p: (None if c is None else np.array(c, dtype=float))
           for p, c in zip(PROPS, cond)}
    f2raw = -float(freq)*1.7
    f2 = conv(f2raw)
    lap = {'f1': bool(freq < 0), 'f2': f2raw < 0}
    s2 = (-f2raw) if f2raw < 0 else 2j*np.pi*f2raw
    sfs = {'f1': (_make_sfield(emg3d, grid, freq, ru['prov'][0], rng), s),
           'f2': (_make_sfield(emg3d, grid, f2, ru['prov'][1], rng), s2)}
    snaps = {k: v[0].field.copy() for k, v in sfs.items()}
    rec.cls(*[f"reuse_sfield={p}" for p in ru['prov']])
    if ru['touch']:
        for sf, _ in sfs.values():
            sf.sval, sf.smu0
    log = []

    def check(tag, which):
        sf, sval = sfs[which]
        vm = emg3d.models.VolumeModel(m2, sf)
        x = cur['property_x']
        y = cur['property_y'] if case in ('HTI', 'triaxial') else x
        zz = cur['property_z'] if case in ('VTI', 'triaxial') else x
        _check_vm(vm, vol, sval, x, y, zz, cur['mu_r'], cur['epsilon_r'],
                  "volume_model_reuse:{name}:" + tag,
                  f" for a re-used/modified model (mapping {mapping}, case "
                  f"{case}, laplace {lap[which]}, "
                  f"sfields {ru['prov']}, touched {ru['touch']}, "
                  f"modifications so far {log})")
        if not np.array_equal(sf.field, snaps[which]):
            raise Violation("volume_model_modifies_sfield",
                            "building a VolumeModel changed the source field")
    before = {p: None if getattr(m2, p) is None else
              np.array(getattr(m2, p)).copy() for p in PROPS}
    check('second_domain', 'f2')
    check('repeat', 'f1')
    for p, v in before.items():
        if v is not None and not np.array_equal(v, getattr(m2, p)):
            raise Violation(f"volume_model_modifies_model:{p}",
                            f"building a VolumeModel changed model.{p} "
                            f"(mapping {mapping}, laplace {freq < 0} / "
                            f"{f2raw < 0}, epsilon_r "
                            f"{cur['epsilon_r'] is not None})")
    for rnd, modes in enumerate(ru['rounds']):
        for p in PROPS:
            if cur[p] is None:
                continue
            mode = modes[p]
            isprop = p.startswith('property')
            if isprop:
                fac = 10**rng.uniform(-0.5, 0.5, size=shape)
            else:
                fac = rng.uniform(0.5, 2, size=shape)
            fwd = ((lambda a: gen.map_forward(mapping, a)) if isprop
                   else (lambda a: np.asarray(a, float)))
            newc = cur[p]*fac
            if mode == 'keep':
                continue
            rec.cls(f"reuse_mod={mode}")
            log.append(f"{p}:{mode}")
            if mode == 'setter':
                setattr(m2, p, fwd(newc))
                cur[p] = newc
            elif mode == 'setter_scalar':
                val = float(newc[0, 0, 0])
                setattr(m2, p, float(fwd(val)))
                cur[p] = np.full(shape, val)
            elif mode == 'inplace':
                getattr(m2, p)[...] = fwd(newc)
                cur[p] = newc
            elif mode == 'slab0':
                getattr(m2, p)[0] = fwd(newc)[0]
                c = cur[p].copy(); c[0] = newc[0]
                cur[p] = c
            elif mode == 'slabz':
                getattr(m2, p)[:, :, -1] = fwd(newc)[:, :, -1]
                c = cur[p].copy(); c[:, :, -1] = newc[:, :, -1]
                cur[p] = c
            else:
                raise ValueError(mode)
        check(f'round{rnd+1}', 'f1')
        check(f'round{rnd+1}_other_domain', 'f2')
    check('final_repeat', 'f1')


def _reuse_model(emg3d, spec, grid, model, vol, s, case, sx, rsy, rsz, mur,
                 epsr, freq):
    """(Specs recorded before the 'reuse' key existed.)  The coefficients
    belong to the model as it is NOW: build VolumeModels
    repeatedly (other frequency in between), change the model through its
    setters / in place, and compare with the closed formulas again.  The
    model itself must not be modified by building a VolumeModel."""
    rng = gen.rng_of(spec['fseed'], 17)
    m2 = model.copy()
    mapping = spec['model']['mapping']

    def check(tag, sx, sy, sz, mur, epsr, sval, fr):
        sf = emg3d.Field(grid, frequency=fr)
        vm = emg3d.models.VolumeModel(m2, sf)
        ee = 0 if epsr is None else sval*refop.epsilon_0*epsr
        for name, sig in (('eta_x', sx), ('eta_y', sy), ('eta_z', sz)):
            ref = -sval*refop.mu_0*vol*(sig + ee)
            got = getattr(vm, name)
            if not np.allclose(got, ref, rtol=1e-12, atol=0):
                raise Violation(
                    f"volume_model_reuse:{name}:{tag}",
                    f"{name} of a re-used/modified model differs from the "
                    f"closed formula (mapping {mapping}, case {case}, "
                    f"epsilon_r {epsr is not None}, mu_r {mur is not None}, "
                    f"laplace {fr < 0}): max rel "
                    f"{np.max(abs(got-ref)/abs(ref)):.2e}")
        zref = vol/(1.0 if mur is None else mur)
        if not np.allclose(vm.zeta, zref, rtol=1e-12, atol=0):
            raise Violation(f"volume_model_reuse:zeta:{tag}",
                            "zeta of a re-used/modified model differs from "
                            "V/mu_r")
    # other frequency/domain in between, then the original one again
    f2 = -freq*1.7
    s2 = (-f2) if f2 < 0 else 2j*np.pi*f2
    before = {k: None if getattr(m2, k) is None else
              np.array(getattr(m2, k)).copy()
              for k in ('property_x', 'property_y', 'property_z', 'mu_r',
                        'epsilon_r')}
    check('second_domain', sx, rsy, rsz, mur, epsr, s2, f2)
    check('repeat', sx, rsy, rsz, mur, epsr, s, freq)
    for k, v in before.items():
        if v is not None and not np.array_equal(v, getattr(m2, k)):
            raise Violation(f"volume_model_modifies_model:{k}",
                            f"building a VolumeModel changed model.{k} "
                            f"(mapping {mapping}, laplace {freq < 0} / "
                            f"{f2 < 0}, epsilon_r {epsr is not None})")
    # modify through the setters
    fac = 10**rng.uniform(-0.5, 0.5, size=vol.shape)
    nsx = sx*fac
    m2.property_x = gen.map_forward(mapping, nsx)
    nsy = nsx if case in ('isotropic', 'VTI') else rsy
    nsz = nsx if case in ('isotropic', 'HTI') else rsz
    nmur, nepsr = mur, epsr
    if mur is not None:
        nmur = mur*rng.uniform(0.5, 2, size=vol.shape)
        m2.mu_r = nmur
    if epsr is not None:
        nepsr = epsr*rng.uniform(0.5, 2, size=vol.shape)
        m2.epsilon_r = nepsr
    check('after_setters', nsx, nsy, nsz, nmur, nepsr, s, freq)
    # modify in place (views handed out by the model)
    if nmur is not None:
        m2.mu_r[...] *= 1.5
        nmur = nmur*1.5
    if case in ('VTI', 'triaxial'):
        nsz = nsz*fac
        m2.property_z[...] = gen.map_forward(mapping, nsz)
    check('after_inplace', nsx, nsy, nsz, nmur, nepsr, s, freq)


SUBS = {'operator': case_operator}


def run(ctx):
    ctx.regression(SUBS)
    if ctx.quick:
        shapes = [s for s in itertools.product([2, 3, 4], repeat=3)]
        shapes += [(5, 2, 3), (2, 5, 4), (3, 4, 5), (5, 5, 2), (2, 3, 5),
                   (5, 4, 3), (4, 5, 5), (5, 5, 5)]
        per = ctx.n(10, 10)
    else:
        shapes = list(itertools.product([2, 3, 4, 5], repeat=3))
        per = ctx.n(6, 6)
    # On a tree that violates the property every shape finds (and shrinks)
    # the same signatures again; a replay file is written only for the first
    # occurrence of a signature.  After three shapes whose violations were
    # all seen before, later shapes are explored without the shrink phase
    # (a signature first met there keeps its unshrunk replay spec).
    wasted = 0
    for k, shape in enumerate(shapes):
        n0 = len(ctx.violations) + len(ctx.known_hits)
        e0 = ctx.evaluations
        ctx.explore('operator', spec_strategy(shape), case_operator, per,
                    salt=k, shrink=wasted < 3)
        if (ctx.evaluations - e0 > per and
                len(ctx.violations) + len(ctx.known_hits) == n0):
            wasted += 1
    ctx.exhaustive['shapes'] = True
    ctx.notes['shapes_enumerated'] = len(shapes)

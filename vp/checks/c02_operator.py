"""C02 - matrix-free operator == assembled finite-integration operator."""
import itertools

import numpy as np
from hypothesis import strategies as st

from vp import gen, refop
from vp.framework import Violation

RULE = ("Per grid shape in {2..5}^3 (every shape enumerated, coefficients "
        "drawn by Hypothesis: widths uniform/stretched/random, four "
        "anisotropy cases, mu_r/epsilon_r on/off, frequency or Laplace s, "
        "induction-number regime) the whole interior edge basis is pushed "
        "through emg3d.core.amat_x (VolumeModel coefficients) and compared "
        "entrywise with C^T M_f C + s mu0 M_e assembled by the checker; plus "
        "symmetry, gradient null space, solver.residual and jit-vs-py_func. "
        "Non-trivial = non-uniform widths and heterogeneous model; distinct "
        "by (shape, case, seeds).")
ASSUMPTIONS = [
    "reference operator refop.assemble is the documented discretisation "
    "(two-cell face average of V/mu_r, four-cell edge average of "
    "V(sigma+s eps)); it shares no code with emg3d.core",
    "comparison tolerance 1e4*eps relative to the sum of absolute terms",
]
SHARDS = {'quick': 1, 'thorough': 16}

C_EPS = 1e4*np.finfo(float).eps


def spec_strategy(shape):
    return st.fixed_dictionaries({
        'grid': gen.grid_spec([[shape[0]], [shape[1]], [shape[2]]]),
        'model': gen.model_spec(),
        'freq': gen.freq_spec(),
        'pyfunc': st.integers(0, 9).map(lambda k: k == 0),
        'fseed': gen.SEED,
    })


def _apply(kernel, arrs, e, shapes):
    """-> A e for flat e (kernel computes r -= A e ... i.e. r = -A e)."""
    n1 = int(np.prod(shapes[0])); n2 = n1 + int(np.prod(shapes[1]))
    dt = np.result_type(e.dtype, arrs[0].dtype)
    ex = np.asfortranarray(e[:n1].reshape(shapes[0], order='F').astype(dt))
    ey = np.asfortranarray(e[n1:n2].reshape(shapes[1], order='F').astype(dt))
    ez = np.asfortranarray(e[n2:].reshape(shapes[2], order='F').astype(dt))
    rx = np.zeros(shapes[0], dt, order='F')
    ry = np.zeros(shapes[1], dt, order='F')
    rz = np.zeros(shapes[2], dt, order='F')
    kernel(rx, ry, rz, ex, ey, ez, *arrs)
    return -np.concatenate([rx.ravel('F'), ry.ravel('F'), rz.ravel('F')])


def case_operator(spec, rec):
    import emg3d
    from emg3d import core
    h, origin = gen.build_widths(spec['grid'])
    grid = emg3d.TensorMesh(h, origin=origin)
    fs = spec['freq']
    freq = gen.freq_of(fs)
    s = gen.sval_of(fs)
    bg = gen.bg_cond(fs, spec['grid']['scale'])
    model, (sx, sy, sz, mur, epsr) = gen.build_model(grid, spec['model'], bg)
    case = spec['model']['case']
    nx, ny, nz = grid.shape_cells
    sfield = emg3d.Field(grid, frequency=freq)
    vm = emg3d.models.VolumeModel(model, sfield)

    # --- reference -----------------------------------------------------
    rsy = sy if case in ('HTI', 'triaxial') else sx
    rsz = sz if case in ('VTI', 'triaxial') else sx
    A, interior, C, Mf, Me = refop.assemble(*h, sx, rsy, rsz, mur, epsr, s)
    import scipy.sparse as sp
    Acc = (C.T @ sp.diags(Mf) @ C).tocsr()
    S = (abs(C).T @ sp.diags(Mf) @ abs(C) +
         abs(s)*refop.mu_0*sp.diags(np.abs(Me))).toarray()
    Ad = A.toarray()

    # --- VolumeModel coefficients vs closed formulas --------------------
    vol = h[0][:, None, None]*h[1][None, :, None]*h[2][None, None, :]
    ee = 0 if epsr is None else s*refop.epsilon_0*epsr
    for name, sig in (('eta_x', sx), ('eta_y', rsy), ('eta_z', rsz)):
        ref = -s*refop.mu_0*vol*(sig + ee)
        got = getattr(vm, name)
        if got.shape != ref.shape or not np.allclose(
                got, ref, rtol=1e-12, atol=0):
            raise Violation(f"volume_model:{name}:{case}",
                            f"{name} differs from -s mu0 V (sigma + s eps): "
                            f"max rel {np.max(abs(got-ref)/abs(ref)):.2e}")
    zref = vol/(1.0 if mur is None else mur)
    if not np.allclose(vm.zeta, zref, rtol=1e-12, atol=0):
        raise Violation("volume_model:zeta", "zeta differs from V/mu_r")
    if np.isrealobj(sfield.field) != (freq < 0):
        raise Violation("dtype", "Laplace <-> real field broken")
    _reuse_model(emg3d, spec, grid, model, vol, s, case, sx, rsy, rsz, mur,
                 epsr, freq)

    arrs = (vm.eta_x, vm.eta_y, vm.eta_z, vm.zeta, h[0], h[1], h[2])
    shapes = ((nx, ny+1, nz+1), (nx+1, ny, nz+1), (nx+1, ny+1, nz))
    ne = A.shape[0]
    dt = sfield.field.dtype
    iint = np.flatnonzero(interior)

    # --- full interior basis through the compiled kernel ----------------
    Aimpl = np.zeros((ne, iint.size), dtype=dt)
    for k, j in enumerate(iint):
        e = np.zeros(ne, dtype=dt)
        e[j] = 1.0
        Aimpl[:, k] = _apply(core.amat_x, arrs, e, shapes)
    Aref = Ad[:, iint]
    rowmax = S.max(axis=1, keepdims=True)
    tol = C_EPS*(S[:, iint] + 1e-3*rowmax)
    # interior rows
    D = np.abs(Aimpl - Aref)
    D[~interior, :] = 0
    bad = D > tol
    if bad.any():
        i, k = np.unravel_index(np.argmax(D/np.maximum(tol, 1e-300)), D.shape)
        comp = 'xyz'[int(i >= np.prod(shapes[0])) +
                     int(i >= np.prod(shapes[0])+np.prod(shapes[1]))]
        kind = 'diag' if i == iint[k] else 'offdiag'
        raise Violation(
            f"operator_mismatch:row_{comp}:{kind}",
            f"A_impl[{i},{iint[k]}]={Aimpl[i, k]:.6e} vs ref "
            f"{Aref[i, k]:.6e} (scale {S[i, iint[k]]:.3e}); "
            f"{int(bad.sum())} entries differ; shape {grid.shape_cells}")
    # boundary rows untouched
    if np.any(Aimpl[~interior, :] != 0):
        raise Violation("boundary_rows_nonzero",
                        "operator writes tangential boundary rows for an "
                        "interior basis vector")
    # symmetry
    Aii = Aimpl[iint, :]
    if np.any(np.abs(Aii - Aii.T) > 2*tol[iint, :]):
        raise Violation("not_symmetric", "A_impl != A_impl^T on interior")

    # --- gradient null space of the curl-curl part ----------------------
    z = np.zeros_like(vm.eta_x)
    arrs0 = (z, z, z, vm.zeta, h[0], h[1], h[2])
    G = refop.gradient(*h)
    nn = refop.idx((nx+1, ny+1, nz+1))
    inodes = nn[1:-1, 1:-1, 1:-1].ravel()
    rng = gen.rng_of(spec['fseed'], 7)
    phis = []
    if inodes.size:
        for j in inodes[:40]:
            p = np.zeros(nn.size); p[j] = 1.0
            phis.append(p)
        p = np.zeros(nn.size); p[inodes] = rng.standard_normal(inodes.size)
        phis.append(p)
    for p in phis:
        g = G @ p
        out = _apply(core.amat_x, arrs0, g.astype(dt), shapes)
        sc = refop.absmat(Acc) @ np.abs(g)
        if np.any(np.abs(out[interior]) > C_EPS*(sc[interior] +
                                                 1e-3*sc.max())):
            raise Violation("curlcurl_gradient_not_annihilated",
                            f"max |CC G phi| = {np.abs(out[interior]).max()}")

    # --- solver.residual = s - A e on random fields ----------------------
    ef = gen.random_field(grid, spec['fseed'], freq, salt=11)
    sf = gen.random_field(grid, spec['fseed'], freq, salt=12)
    r = emg3d.solver.residual(vm, sf, ef)
    ref = sf.field - A @ ef.field
    sc = np.abs(sf.field) + refop.absmat(A) @ np.abs(ef.field)
    d = np.abs(r.field - ref)
    if np.any(d[interior] > C_EPS*(sc[interior] + 1e-3*sc.max())):
        raise Violation("residual_mismatch",
                        f"solver.residual != s - A_ref e; max "
                        f"{np.max(d[interior]/sc[interior]):.2e} rel")
    nrm = emg3d.solver.residual(vm, sf, ef, norm=True)
    if abs(nrm - np.linalg.norm(r.field)) > 1e-12*nrm:
        raise Violation("residual_norm", "norm=True differs from ||r||")
    if r.field.dtype != dt:
        raise Violation("residual_dtype", f"{r.field.dtype} vs {dt}")

    # --- py_func vs compiled ---------------------------------------------
    if spec['pyfunc']:
        rec.cls('pyfunc')
        vecs = [ef.field]
        for j in iint[:6]:
            e = np.zeros(ne, dtype=dt); e[j] = 1
            vecs.append(e)
        for e in vecs:
            a = _apply(core.amat_x, arrs, e, shapes)
            b = _apply(core.amat_x.py_func, arrs, e, shapes)
            sc = refop.absmat(A) @ np.abs(e)
            if np.any(np.abs(a-b) > C_EPS*(sc + 1e-3*sc.max())):
                raise Violation("jit_vs_pyfunc",
                                "compiled amat_x differs from its Python "
                                f"source: max {np.abs(a-b).max():.3e}")
            # py_func must also agree with the reference (stale cache guard)
            d = np.abs(b - A @ e)
            if np.any(d[interior] > C_EPS*(sc[interior] + 1e-3*sc.max())):
                raise Violation("pyfunc_mismatch",
                                "amat_x.py_func differs from the reference")

    # --- classification ---------------------------------------------------
    kind = spec['grid']['kind']
    het = spec['model']['hetero'] != 'homog' and spec['model']['decades'] > .1
    rec.cls(f"case={case}", f"widths={kind}", f"mur={mur is not None}",
            f"epsr={epsr is not None}", f"laplace={fs['laplace']}",
            gen.regime(fs), f"shape={nx}x{ny}x{nz}")
    if kind != 'uniform' and het:
        rec.nt([grid.shape_cells, case, spec['grid']['seed'],
                spec['model']['seed']])
    rec.note({'shape': list(grid.shape_cells), 'case': case,
              'interior_edges': int(iint.size), 'sval': str(s)})


def _reuse_model(emg3d, spec, grid, model, vol, s, case, sx, rsy, rsz, mur,
                 epsr, freq):
    """The coefficients belong to the model as it is NOW: build VolumeModels
    repeatedly (other frequency in between), change the model through its
    setters / in place, and compare with the closed formulas again.  The
    model itself must not be modified by building a VolumeModel."""
    rng = gen.rng_of(spec['fseed'], 17)
    m2 = model.copy()
    mapping = spec['model']['mapping']

    def check(tag, sx, sy, sz, mur, epsr, sval, fr):
        sf = emg3d.Field(grid, frequency=fr)
        vm = emg3d.models.VolumeModel(m2, sf)
        ee = 0 if epsr is None else sval*refop.epsilon_0*epsr
        for name, sig in (('eta_x', sx), ('eta_y', sy), ('eta_z', sz)):
            ref = -sval*refop.mu_0*vol*(sig + ee)
            got = getattr(vm, name)
            if not np.allclose(got, ref, rtol=1e-12, atol=0):
                raise Violation(
                    f"volume_model_reuse:{name}:{tag}",
                    f"{name} of a re-used/modified model differs from the "
                    f"closed formula (mapping {mapping}, case {case}, "
                    f"epsilon_r {epsr is not None}, mu_r {mur is not None}, "
                    f"laplace {fr < 0}): max rel "
                    f"{np.max(abs(got-ref)/abs(ref)):.2e}")
        zref = vol/(1.0 if mur is None else mur)
        if not np.allclose(vm.zeta, zref, rtol=1e-12, atol=0):
            raise Violation(f"volume_model_reuse:zeta:{tag}",
                            "zeta of a re-used/modified model differs from "
                            "V/mu_r")
    # other frequency/domain in between, then the original one again
    f2 = -freq*1.7
    s2 = (-f2) if f2 < 0 else 2j*np.pi*f2
    before = {k: None if getattr(m2, k) is None else
              np.array(getattr(m2, k)).copy()
              for k in ('property_x', 'property_y', 'property_z', 'mu_r',
                        'epsilon_r')}
    check('second_domain', sx, rsy, rsz, mur, epsr, s2, f2)
    check('repeat', sx, rsy, rsz, mur, epsr, s, freq)
    for k, v in before.items():
        if v is not None and not np.array_equal(v, getattr(m2, k)):
            raise Violation(f"volume_model_modifies_model:{k}",
                            f"building a VolumeModel changed model.{k} "
                            f"(mapping {mapping}, laplace {freq < 0} / "
                            f"{f2 < 0}, epsilon_r {epsr is not None})")
    # modify through the setters
    fac = 10**rng.uniform(-0.5, 0.5, size=vol.shape)
    nsx = sx*fac
    m2.property_x = gen.map_forward(mapping, nsx)
    nsy = nsx if case in ('isotropic', 'VTI') else rsy
    nsz = nsx if case in ('isotropic', 'HTI') else rsz
    nmur, nepsr = mur, epsr
    if mur is not None:
        nmur = mur*rng.uniform(0.5, 2, size=vol.shape)
        m2.mu_r = nmur
    if epsr is not None:
        nepsr = epsr*rng.uniform(0.5, 2, size=vol.shape)
        m2.epsilon_r = nepsr
    check('after_setters', nsx, nsy, nsz, nmur, nepsr, s, freq)
    # modify in place (views handed out by the model)
    if nmur is not None:
        m2.mu_r[...] *= 1.5
        nmur = nmur*1.5
    if case in ('VTI', 'triaxial'):
        nsz = nsz*fac
        m2.property_z[...] = gen.map_forward(mapping, nsz)
    check('after_inplace', nsx, nsy, nsz, nmur, nepsr, s, freq)


SUBS = {'operator': case_operator}


def run(ctx):
    ctx.regression(SUBS)
    if ctx.quick:
        shapes = [s for s in itertools.product([2, 3, 4], repeat=3)]
        shapes += [(5, 2, 3), (2, 5, 4), (3, 4, 5), (5, 5, 2), (2, 3, 5),
                   (5, 4, 3), (4, 5, 5), (5, 5, 5)]
        per = ctx.n(10, 10)
    else:
        shapes = list(itertools.product([2, 3, 4, 5], repeat=3))
        per = ctx.n(6, 6)
    for k, shape in enumerate(shapes):
        ctx.explore('operator', spec_strategy(shape), case_operator, per,
                    salt=k)
    ctx.exhaustive['shapes'] = True
    ctx.notes['shapes_enumerated'] = len(shapes)

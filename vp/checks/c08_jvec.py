"""C08 - J v is the data derivative, J^T its exact adjoint."""
import contextlib
import os
import shutil
import tempfile
import warnings

import numpy as np
from hypothesis import strategies as st

from vp import gen, simgen
from vp.framework import Violation, Inconclusive, HarnessError, VERIF

RULE = ("(a) 'same': generated problems as C07 (mixed sources/receivers, "
        "six mappings x four anisotropy cases, NaN-masked data, all noise "
        "shapes), computational grid = model grid through gridding='same' "
        "or gridding='input' with the model grid, in memory or file based, "
        "on a simulation with a generated HISTORY (fresh; jtvec first; an "
        "earlier jvec/jtvec pair with other vectors; after gradient; after "
        "compute+clean('keepresults'); copy(); to_file/from_file): jvec(v) "
        "equals the central difference, along v, of forward data obtained "
        "by DIRECT solves of the checker-assembled operator (steps 2e-2, "
        "1e-2, Richardson), in the aggregate norm AND per block (source x "
        "receiver type); Re<w,Jv> = <J^T w,v> for real v (dense / one "
        "cell incl. boundary cells / one component; 3-D, (1,nx,ny,nz), "
        "Fortran-ordered or strided view) and complex w (dense / scaled by "
        "1/|Jv| so that every datum counts / a single datum = one row of "
        "J^T; ndarray or DataArray); v, w and data.synthetic are left unchanged; afterwards, "
        "on the same simulation, jtvec(residual*weights) = gradient = "
        "gradient of a fresh simulation, and misfit = fresh misfit.  (b) "
        "'gridding': a 16x8x8 model grid (uniform, stretched or random "
        "widths) with generated heterogeneous anisotropic model; fixed or "
        "generated survey (all source kinds incl. wire and magnetic, "
        "absolute/relative electric/magnetic receivers, frequencies, noise "
        "shapes); gridding in {same, single, frequency, source, both} with "
        "generated gridding options and {input, dict} with checker-built "
        "stretched non-aligned meshes of 8/16 cells (finer and coarser than "
        "the model grid, inside and beyond it; dict: per source, per "
        "frequency or per pair); tol_forward in {1e-10, 1e-4} with "
        "tol_gradient=1e-10: adjoint identity for every mode, also for a "
        "second pair of vectors, and jtvec(residual*weights) = gradient of "
        "a fresh simulation.  Preconditions are evaluated on a separate "
        "fresh simulation BEFORE jvec/jtvec; every solve is recorded "
        "(wrapper of emg3d.solver.solve); more than 30 % inconclusive cases "
        "of a sub-check is a harness error.  Non-trivial = all solves "
        "converged and |Jv|, |J^T w| > 0; distinct by the spec.")
ASSUMPTIONS = [
    "solver tolerance 1e-11 ('same') / 1e-10 (other gridding; tol_gradient "
    "always 1e-10 there); adjoint identity tolerance 1e-6 relative + 1e-7 "
    "||w|| ||Jv|| (dense, single) or 1e-7 sum|w_i||Jv_i| (w scaled by "
    "1/|Jv|) (measured 1e-9..1e-12), FD tolerance 1e-4 ||Jv|| after "
    "Richardson extrapolation of direct-solve data (measured: median 1e-8, "
    "max 7e-6 - the accuracy of emg3d's own iterative J v solve on "
    "ill-conditioned problems; mutants give >= 6e-2); per block 1e-4 "
    "||Jv_block|| + 2e-5 ||Jv||",
    "data-space vectors w are zero where the observed datum is NaN (missing "
    "data are not part of the data space; whether jtvec uses an entry of w "
    "at a missing datum depends on the noise model, so it is not generated)",
    "the adjoint identity holds for ANY fixed forward field, so it is "
    "demanded with a loosely converged forward field (tol 1e-4) as long as "
    "the J solves use tol_gradient = 1e-10 (documented: tol_gradient is "
    "used by jvec/jtvec/gradient)",
    "jtvec(r*W)/gradient of the used simulation vs. gradient of a fresh "
    "one: 1e-6 ||gradient|| (measured 0.0), only with all solves converged "
    "at tight tolerance",
    "not generated (outside the documented domain): Laplace-domain "
    "surveys, gridding_opts['expand'], mu_r/epsilon_r != 1, cubic receiver "
    "interpolation, layered, max_workers > 1",
]
SHARDS = {'quick': 1, 'thorough': 16}
# Bound of the share of inconclusive cases per sub-check (also enforced by
# run() below, independent of the framework).
MAX_INCONCLUSIVE = 0.3

HISTORIES = ['fresh', 'jt_first', 'second_pair', 'after_gradient',
             'keepresults', 'copy', 'file_roundtrip']


def same_spec():
    return st.fixed_dictionaries({
        'problem': simgen.problem_spec(max_src=2, max_freq=2),
        'vseed': gen.SEED,
        'file': st.sampled_from([False, False, True]),
        # 'cell_any' / 'single' (one boundary cell, one entry) were withdrawn:
        # J v of a single remote cell is at the iteration-noise level of
        # emg3d's own J solve (1e-17 against fields of 1e-10), and both
        # sides of the identity are then noise (false alarms of the first
        # thorough run, DESIGN.md section 9)
        'vkind': st.sampled_from(['dense', 'dense', 'cell']),
        'history': st.sampled_from(['fresh'] + HISTORIES),
        'wkind': st.sampled_from(['dense', 'normalised', 'single']),
        'vform': st.sampled_from(['3d', '4d', 'F', 'view']),
        'wform': st.sampled_from(['ndarray', 'ndarray', 'DataArray']),
        'same_via': st.sampled_from(['same', 'same', 'input']),
    })


def _tmpdir():
    base = os.path.join(VERIF, '.cache', 'tmp')
    os.makedirs(base, exist_ok=True)
    return tempfile.mkdtemp(prefix='c08_', dir=base)


@contextlib.contextmanager
def _solve_log():
    """Record (exit, tol) of every call of emg3d.solver.solve (all solves of
    a simulation with max_workers=1 go through it, in memory and file
    based): jvec and jtvec discard the solver information of their own
    solves, so convergence is not observable on the simulation."""
    import emg3d
    orig = emg3d.solver.solve
    log = []

    def solve(*args, **kwargs):
        out = orig(*args, **kwargs)
        info = out[-1] if isinstance(out, tuple) else out
        if isinstance(info, dict) and 'exit' in info:
            log.append((int(info['exit']), kwargs.get('tol')))
        return out
    emg3d.solver.solve = solve
    try:
        yield log
    finally:
        emg3d.solver.solve = orig


def _require_converged(log, what):
    if any(e != 0 for e, _ in log):
        raise Inconclusive(f"{what} solve did not converge")


def _wvec(shape, obs, seed):
    rng = gen.rng_of(seed, 91)
    w = rng.standard_normal(shape) + 1j*rng.standard_normal(shape)
    w[~np.isfinite(obs)] = 0
    return w


def _w_of_kind(kind, w0, jv, obs, seed):
    """Data-shaped w; 'normalised': every existing datum contributes O(1) to
    <w, Jv> (rows of J differ by 1e2..1e3); 'single': one row of J^T."""
    fin = np.isfinite(obs) & np.isfinite(jv)
    w = w0.copy()
    if kind == 'normalised' and fin.any():
        a = np.abs(jv)
        top = float(a[fin].max())
        if top > 0:
            den = np.where(fin, np.maximum(a, 1e-4*top), top)
            w = w0*top/den
    elif kind == 'single' and fin.any():
        idx = np.argwhere(fin)
        k = tuple(idx[int(gen.rng_of(seed, 92).integers(0, len(idx)))])
        w = np.zeros_like(w0)
        w[k] = w0[k] if w0[k] != 0 else 1.0
    return w


def _as_vform(v, form):
    """The same numbers in another documented / legitimate ndarray form."""
    if form == '4d' or v.ndim == 4 and form == '3d':
        return v if v.ndim == 4 else v[None, ...].copy()
    if form == 'F':
        return np.asfortranarray(v)
    if form == 'view':
        big = np.zeros(tuple(2*n for n in v.shape))
        big[tuple(slice(None, None, 2) for _ in v.shape)] = v
        return big[tuple(slice(None, None, 2) for _ in v.shape)]
    return v


def _call_jvec(sim, vin, tag):
    keep = vin.copy()
    jv = np.array(sim.jvec(vin))
    if not np.array_equal(keep, vin):
        raise Violation(f"jvec_modified_its_input:{tag}",
                        f"max change {np.max(np.abs(keep-vin)):.2e}")
    return jv


def _call_jtvec(sim, w, wform, tag):
    win = sim.data.observed.copy(data=w.copy()) if wform == 'DataArray' \
        else w.copy()
    jtw = np.array(sim.jtvec(win))
    if not np.array_equal(np.asarray(win), w, equal_nan=True):
        raise Violation(f"jtvec_modified_its_input:{tag}", "w changed")
    return jtw


def _check_pair(jv, jtw, v, w, obs, tag, floor='norm'):
    """Shape/finiteness checks and the two sides of the adjoint identity."""
    if jtw.shape != v.shape:
        raise Violation(f"jtvec_shape:{tag}", f"{jtw.shape} vs {v.shape}")
    if jv.shape != w.shape:
        raise Violation(f"jvec_shape:{tag}", f"{jv.shape} vs {w.shape}")
    if not np.all(np.isfinite(jtw)):
        raise Violation(f"jtvec_not_finite:{tag}", "NaN/inf in jtvec")
    fin = np.isfinite(obs)
    if not np.all(np.isfinite(jv[fin])):
        raise Violation(f"jvec_not_finite:{tag}", "NaN/inf in jvec at data")
    lhs = float(np.sum((np.conj(w)*jv)[fin]).real)
    rhs = float(np.sum(jtw*v))
    if floor == 'norm':
        scale = float(np.linalg.norm(w[fin])*np.linalg.norm(jv[fin]))
    else:   # componentwise: magnitude of the terms that are added
        scale = float(np.sum(np.abs(w[fin])*np.abs(jv[fin])))
    return lhs, rhs, scale


def _adjoint_identity(sim, v, w, obs, tag, tol):
    jv = np.array(sim.jvec(v))
    jtw = np.array(sim.jtvec(w))
    lhs, rhs, scale = _check_pair(jv, jtw, v, w, obs, tag)
    return jv, jtw, lhs, rhs, scale


def _adjoint_violated(lhs, rhs, scale):
    return abs(lhs-rhs) > 1e-6*max(abs(lhs), abs(rhs)) + 1e-7*scale


def _apply_history(sim, history, v2, w2, tmp):
    """Bring the simulation into a generated state; returns the simulation
    to continue with (copy / reloaded one where applicable)."""
    import emg3d
    if history == 'jt_first':
        sim.jtvec(w2.copy())
    elif history == 'second_pair':
        sim.jvec(v2.copy())
        sim.jtvec(w2.copy())
    elif history == 'after_gradient':
        _ = sim.gradient
    elif history == 'keepresults':
        sim.compute()
        sim.clean('keepresults')
    elif history == 'copy':
        sim.compute()
        sim = sim.copy()
    elif history == 'file_roundtrip':
        sim.compute()
        fn = os.path.join(tmp, 'simulation.h5')
        sim.to_file(fn, what='computed', verb=0)
        sim = emg3d.Simulation.from_file(fn, verb=0)
    return sim


def case_same(spec, rec):
    with warnings.catch_warnings():
        warnings.simplefilter('ignore')
        tmp = _tmpdir() if (spec['file'] or spec.get('history') ==
                            'file_roundtrip') else None
        fdir = None
        if spec['file']:
            fdir = os.path.join(tmp, 'fields')
        try:
            with _solve_log() as log:
                return _case_same(spec, rec, fdir, tmp, log)
        finally:
            if tmp:
                shutil.rmtree(tmp, ignore_errors=True)


def _direction(p, kind, seed):
    if kind != 'cell_any':
        return simgen.direction(p, kind, seed)
    # one cell, boundary cells included (simgen's 'cell' is interior only)
    rng = gen.rng_of(seed, 85)
    names, arrs = simgen.param_arrays(p)
    shape = tuple(p.grid.shape_cells)
    d = np.zeros((len(names),)+shape)
    idx = tuple(int(rng.integers(0, n)) for n in shape)
    d[(int(rng.integers(0, len(names))),)+idx] = 1.0
    if not p.mapping.startswith('L'):
        for i, a in enumerate(arrs):
            d[i] *= np.abs(a)
    return d


def _case_same(spec, rec, fdir, tmp, log):
    p = simgen.build(spec['problem'])
    obs = simgen.observed_from_true(p)
    if obs is None:
        raise Inconclusive("true-model solve did not converge")
    kw = {'file_dir': fdir} if fdir else {}
    via = spec.get('same_via', 'same')
    if via == 'input':
        # the computational grid is the model grid, given as a mesh
        kw.update(gridding='input', gridding_opts=p.grid)
    history = spec.get('history', 'fresh')
    wkind = spec.get('wkind', 'dense')
    vform = spec.get('vform', '3d')
    wform = spec.get('wform', 'ndarray')

    def fresh(model=None, **k):
        sv = simgen.make_survey(p, obs)
        return simgen.make_sim(p, sv, model, **k)
    tag = f"{p.mapping}:{p.case}:{'file' if fdir else 'mem'}"
    if history != 'fresh':
        tag += f":{history}"
    if via != 'same':
        tag += f":{via}"
    v = _direction(p, spec['vkind'], spec['vseed'])
    vv = v[0] if v.shape[0] == 1 else v
    vin = _as_vform(vv, vform)
    w0 = _wvec(obs.shape, obs, spec['vseed'])
    # Preconditions of the oracles, established on a separate fresh
    # in-memory simulation BEFORE the operations under test (a jvec/jtvec
    # which corrupts data.synthetic must not turn into 'inconclusive').
    ref = fresh()
    ref.compute()
    if not simgen.all_converged(ref):
        raise Inconclusive("forward solve did not converge")
    _require_converged(log, 'forward')
    if not simgen.data_converged(p, ref):
        raise Inconclusive("responses below the accuracy of the solver")
    syn_ref = ref.data.synthetic.data.copy()

    sim = fresh(**kw)
    if history != 'fresh':
        v2 = simgen.direction(p, 'dense', spec['vseed']+1)
        v2 = v2[0] if v2.shape[0] == 1 else v2
        w2 = _wvec(obs.shape, obs, spec['vseed']+1)
        sim = _apply_history(sim, history, v2, w2, tmp)
    jv = _call_jvec(sim, vin, tag)
    w = _w_of_kind(wkind, w0, jv, obs, spec['vseed'])
    jtw = _call_jtvec(sim, w, wform, tag)
    _require_converged(log, 'forward/J')
    lhs, rhs, scale = _check_pair(
        jv, jtw, vv, w, obs, tag,
        'norm' if wkind != 'normalised' else 'componentwise')
    # jvec/jtvec leave the synthetic data (of which J is the derivative)
    syn = sim.data.synthetic.data
    ok = np.isfinite(syn) == np.isfinite(syn_ref)
    fin = np.isfinite(syn_ref)
    top = float(np.max(np.abs(syn_ref[fin]))) if fin.any() else 0.0
    if not ok.all() or np.any(np.abs(syn-syn_ref)[fin] >
                              1e-6*np.abs(syn_ref[fin]) + 1e-9*top):
        raise Violation(f"synthetic_data_changed_by_jvec_jtvec:{tag}",
                        "data.synthetic after jvec/jtvec differs from the "
                        "synthetic data of a fresh simulation: max |diff| = "
                        f"{np.nanmax(np.abs(syn-syn_ref)):.2e}, max |d| = "
                        f"{top:.2e}")
    nv = float(np.linalg.norm(jv[np.isfinite(jv)]))
    if scale == 0 or nv == 0:
        rec.cls('trivial_zero_sensitivity')
        return
    # A direction whose sensitivity vanishes (symmetry, remote cell) leaves
    # only the iteration noise of the J solves on both sides (1e-20 against
    # data of 1e-11): absolute floor = 1e-9 of (weights x data x relative
    # size of the model perturbation); any real slip is O(1) of that scale.
    mname = sim.model.map.name
    if mname.startswith('L'):
        relv = float(np.max(np.abs(vv)))*2.303
    else:
        relv = float(np.max(np.abs(vv)))/max(
            float(np.mean(np.abs(sim.model.property_x))), 1e-300)
    okw = np.isfinite(jv) & np.isfinite(w)
    absfloor = 1e-9*float(np.linalg.norm(np.asarray(w)[okw]))*top*relv
    if _adjoint_violated(lhs, rhs, scale) and abs(lhs-rhs) > absfloor:
        raise Violation(f"adjoint_identity:{tag}",
                        f"Re<w,Jv> = {lhs:.10e}, <J^T w,v> = {rhs:.10e} "
                        f"(rel {abs(lhs-rhs)/max(abs(lhs), abs(rhs)):.2e}, "
                        f"of scale {abs(lhs-rhs)/scale:.2e}); w {wkind}; "
                        f"sources {spec['problem']['src']}, receivers "
                        f"{spec['problem']['rec']}")
    # (a) J v = derivative of the synthetic data
    # forward data of the perturbed models from direct solves of the
    # checker-assembled operator (no iteration noise), cf. simgen.direct_data
    fds = [(simgen.direct_data(p, ref, v, eps) -
            simgen.direct_data(p, ref, v, -eps))/(2*eps)
           for eps in (2e-2, 1e-2)]
    # Richardson extrapolation removes the O(eps^2) term; what remains is
    # O(eps^4) truncation plus (solver tolerance)/eps.
    fd = (4*fds[1]-fds[0])/3
    m = np.isfinite(fd) & np.isfinite(jv)
    # vanishing sensitivity: J v and the finite difference are both below
    # 1e-9 of (data x relative model perturbation) -> nothing to decide
    jvfloor = 1e-9*top*relv*np.sqrt(max(1, int(m.sum())))
    if nv < jvfloor and float(np.linalg.norm(fd[m])) < jvfloor:
        rec.cls('sensitivity_below_noise_floor')
        return
    errs = [float(np.linalg.norm((f-jv)[m])/nv) for f in (fds[0], fds[1], fd)]
    if errs[2] > 1e-4:
        raise Violation(f"jvec_not_derivative:{tag}",
                        f"||FD - Jv||/||Jv|| = {errs} for steps 2e-2, 1e-2 "
                        f"and their Richardson extrapolation; "
                        f"sources {spec['problem']['src']}, receivers "
                        f"{spec['problem']['rec']}")
    # ... and per block (source, receiver type): the rows of J differ by
    # 1e2..1e3 in size (magnetic/electric), the aggregate norm hides an
    # error confined to the small ones.
    blk_rel = 0.0
    if 'wkind' in spec:   # (old specs: aggregate oracle only)
        rk = np.array([k.startswith('mag') for k in spec['problem']['rec']])
        for i in range(p.shape[0]):
            for mag in (False, True):
                mb = np.zeros(p.shape, bool)
                mb[i, rk == mag, :] = True
                mb &= m
                nb = float(np.linalg.norm(jv[mb]))
                if nb == 0:
                    continue
                eb = float(np.linalg.norm((fd-jv)[mb]))
                blk_rel = max(blk_rel, eb/nb if nb > 1e-3*nv else 0.0)
                # floor 1e-4 ||Jv||: with 2e-5 a block of vanishing
                # sensitivity (1e-18 against 4e-10) fired at 3.2e-5 in the
                # thorough tier - the per-block bound is therefore no
                # sharper than the aggregate one (kept for its message)
                if eb > 1e-4*nb + 1e-4*nv:
                    raise Violation(
                        f"jvec_not_derivative_block:{tag}",
                        f"source {i} ({spec['problem']['src'][i]}), "
                        f"{'magnetic' if mag else 'electric'} receivers: "
                        f"||FD - Jv|| = {eb:.3e}, ||Jv_block|| = {nb:.3e}, "
                        f"||Jv|| = {nv:.3e}")
    # (c) jtvec(residual*weights) = gradient, on the used simulation
    g = np.array(ref.gradient)
    ng = float(np.linalg.norm(g))
    if 'history' in spec:
        s3 = sim
    else:    # old specs: a fresh simulation
        s3 = fresh(**kw)
        _ = s3.misfit
    vec = s3.data.residual.data*s3.data.weights.data
    jt = np.array(s3.jtvec(vec))
    _require_converged(log, 'gradient')
    if ng > 0 and np.linalg.norm(jt-g) > 1e-6*ng:
        raise Violation(f"jtvec_of_weighted_residual_not_gradient:{tag}",
                        f"||jtvec(r*W) - gradient||/||gradient|| = "
                        f"{np.linalg.norm(jt-g)/ng:.2e}")
    if 'history' in spec:
        g3 = np.array(s3.gradient)
        _require_converged(log, 'gradient')
        if g3.shape != g.shape or np.linalg.norm(g3-g) > 1e-6*ng:
            raise Violation(f"gradient_after_jvec_jtvec:{tag}",
                            "gradient of the simulation after jvec/jtvec "
                            "differs from the gradient of a fresh one: "
                            f"rel {np.linalg.norm(g3-g)/max(ng, 1e-300):.2e}")
        m3, m0 = float(s3.misfit), float(ref.misfit)
        if abs(m3-m0) > 1e-6*abs(m0):
            raise Violation(f"misfit_after_jvec_jtvec:{tag}",
                            f"{m3!r} vs fresh {m0!r}")
    rec.cls(f"mapping={p.mapping}", f"case={p.case}", f"file={bool(fdir)}",
            f"vkind={spec['vkind']}",
            f"nan={spec['problem']['nan_frac'] > 0}",
            f"history={history}", f"wkind={wkind}", f"vform={vform}",
            f"wform={wform}", f"same_via={via}",
            *[f"src={k}" for k in set(spec['problem']['src'])],
            *[f"rec={k}" for k in set(spec['problem']['rec'])])
    rec.nt(spec)
    rec.note({'mapping': p.mapping, 'case': p.case, 'fd_errs': errs,
              'fd_block_rel': blk_rel,
              'adjoint_rel': abs(lhs-rhs)/max(abs(lhs), abs(rhs), 1e-300),
              'adjoint_vs_scale': abs(lhs-rhs)/scale})


# ------------------------------------------------------- gridding modes
G_SRC = ['el_point', 'el_dipole', 'el_dipole_2pt', 'el_wire', 'mag_point',
         'mag_dipole']
G_REC = ['el', 'el', 'mag', 'el_rel', 'mag_rel']
# sources inside +-BOX_S, absolute receivers inside +-BOX_R; relative
# receivers: offsets inside +-(BOX_R - BOX_S); automatic gridding domain
# +-(300, 200, 200) contains all of them.
BOX_S = np.array([180., 120., 120.])
BOX_R = np.array([280., 180., 180.])


AUTO_MODES = ['single', 'frequency', 'source', 'both', 'same']
MESH_MODES = ['input', 'dict']


def gridding_spec(modes=AUTO_MODES + MESH_MODES):
    return st.fixed_dictionaries({
        'gridding': st.sampled_from(list(modes)),
        'case': st.sampled_from(gen.CASES),
        'mapping': st.sampled_from(gen.MAPPINGS),
        'nsrc': st.integers(1, 2),
        'nfreq': st.integers(1, 2),
        'vector': st.sampled_from([None, 'xyz', 'xy', 'z']),
        'center_on_edge': st.booleans(),
        'cell_numbers': st.sampled_from([[8, 16, 24, 32], [8, 12, 16, 24],
                                         [10, 16, 20, 32]]),
        'lambda_factor': st.sampled_from([0.02, 0.05, 0.1]),
        'file': st.sampled_from([False, False, True]),
        'nan': st.booleans(),
        'seed': gen.SEED,
        # --- added (absent in old specs = previous behaviour)
        'mgrid': st.sampled_from(['uniform', 'stretch', 'random']),
        'survey': st.sampled_from(['fixed', 'generated', 'generated']),
        'src_kinds': st.lists(st.sampled_from(G_SRC), min_size=2,
                              max_size=2),
        'rec_kinds': st.lists(st.sampled_from(G_REC), min_size=2,
                              max_size=4),
        'freqs': st.lists(gen.lgfloat(0.5, 3.0), min_size=2, max_size=2,
                          unique=True),
        'noise_shape': st.sampled_from(simgen.NOISE_SHAPES),
        'cgrid': st.fixed_dictionaries({
            'n': st.lists(st.sampled_from([8, 8, 16]), min_size=3,
                          max_size=3),
            'alpha': st.sampled_from([1.0, 1.1, 1.3]),
            'extent': st.sampled_from([1.05, 1.5, 2.0]),
            'per': st.sampled_from(['source', 'frequency', 'pair']),
        }),
        'tol_forward': st.sampled_from([1e-10, 1e-10, 1e-4]),
        'wkind': st.sampled_from(['dense', 'normalised', 'single']),
        'second_pair': st.booleans(),
        'gradient': st.booleans(),
    })


def case_gridding(spec, rec):
    with warnings.catch_warnings():
        warnings.simplefilter('ignore')
        fdir = _tmpdir() if spec['file'] else None
        try:
            with _solve_log() as log:
                return _case_gridding(spec, rec, fdir, log)
        finally:
            if fdir:
                shutil.rmtree(fdir, ignore_errors=True)


def _model_grid(kind, seed):
    import emg3d
    if kind == 'uniform':
        hx = np.ones(16)*100.
        return emg3d.TensorMesh([hx, hx[:8], hx[:8]],
                                origin=(-800, -400, -400))
    rng = gen.rng_of(seed, 96)
    hs, origin = [], []
    for n in (16, 8, 8):
        if kind == 'stretch':
            k = np.floor(np.abs(np.arange(n)-(n-1)/2))
            h = 70.*rng.uniform(1.02, 1.15)**k
        else:
            h = 100.*rng.uniform(0.6, 1.5, size=n)
        hs.append(h)
        origin.append(float(-h.sum()/2 + rng.uniform(-30, 30)))
    return emg3d.TensorMesh(hs, origin=origin)


def _comp_mesh(cg, seed, salt):
    """Checker-built computational mesh: n cells per direction, widths
    growing by alpha from the centre outwards, the region of sources and
    receivers (+-BOX_R, enlarged by 'extent') inside the 3rd..3rd-last
    cell, shifted so that its nodes are not aligned with the model grid."""
    import emg3d
    rng = gen.rng_of(seed, salt)
    hs, origin = [], []
    for d in range(3):
        n = int(cg['n'][d])
        k = np.floor(np.abs(np.arange(n)-(n-1)/2))
        r = float(cg['alpha'])**k
        half = float(cg['extent'])*BOX_R[d]
        h = r*(2*half/r[2:-2].sum())
        shift = float(rng.uniform(-1, 1))*0.04*BOX_R[d]
        hs.append(h)
        origin.append(shift - half - h[:2].sum())
    return emg3d.TensorMesh(hs, origin=origin)


def _gen_survey(spec, rng):
    """Generated sources / receivers / frequencies of the 'gridding' case."""
    import emg3d

    def ang():
        return float(rng.uniform(-180, 180)), float(rng.uniform(-80, 80))

    def pt(box):
        return rng.uniform(-box, box)
    srcs = []
    for kind in spec['src_kinds'][:spec['nsrc']]:
        st_ = float(rng.uniform(0.5, 3.0))
        if kind == 'el_point':
            s = emg3d.TxElectricPoint((*pt(BOX_S), *ang()), strength=st_)
        elif kind == 'mag_point':
            s = emg3d.TxMagneticPoint((*pt(BOX_S), *ang()), strength=st_)
        elif kind == 'el_dipole':
            s = emg3d.TxElectricDipole((*pt(BOX_S-30.), *ang()),
                                       strength=st_,
                                       length=float(rng.uniform(10, 60)))
        elif kind == 'el_dipole_2pt':
            s = emg3d.TxElectricDipole(np.array([pt(BOX_S), pt(BOX_S)]),
                                       strength=st_)
        elif kind == 'mag_dipole':
            c = pt(BOX_S-10.)
            dv = rng.standard_normal(3)
            dv *= float(rng.uniform(4, 16))/np.linalg.norm(dv)
            s = emg3d.TxMagneticDipole(np.array([c-dv/2, c+dv/2]),
                                       strength=st_)
        elif kind == 'el_wire':
            pts = np.array([pt(BOX_S) for _ in range(int(rng.integers(3,
                                                                     6)))])
            s = emg3d.TxElectricWire(pts, strength=st_)
        else:
            raise HarnessError(f"unknown source kind {kind}")
        srcs.append(s)
    recs = []
    for kind in spec['rec_kinds']:
        cls = emg3d.RxElectricPoint if kind.startswith('el') \
            else emg3d.RxMagneticPoint
        if kind.endswith('_rel'):
            recs.append(cls((*pt(BOX_R-BOX_S), *ang()), relative=True))
        else:
            recs.append(cls((*pt(BOX_R), *ang())))
    freqs = sorted(float(f) for f in spec['freqs'][:spec['nfreq']])
    return srcs, recs, freqs


def _case_gridding(spec, rec, fdir, log):
    import emg3d
    rng = gen.rng_of(spec['seed'], 95)
    grid = _model_grid(spec.get('mgrid', 'uniform'), spec['seed'])
    shape = grid.shape_cells
    m = spec['mapping']
    case = spec['case']
    gridding = spec['gridding']
    generated = spec.get('survey', 'fixed') == 'generated'
    tol_f = float(spec.get('tol_forward', 1e-10))
    wkind = spec.get('wkind', 'dense')

    def cond():
        return 10**rng.uniform(-0.5, 0.5, size=shape)
    sx = cond()
    sy = cond() if case in ('HTI', 'triaxial') else None
    sz = cond() if case in ('VTI', 'triaxial') else None
    model = emg3d.Model(grid, gen.map_forward(m, sx), gen.map_forward(m, sy),
                        gen.map_forward(m, sz), mapping=m)
    if generated:
        srcs, recs, freqs = _gen_survey(spec, gen.rng_of(spec['seed'], 97))
    else:
        pos = [(-120., 20., -30.), (100., -30., 40.)][:spec['nsrc']]
        srcs = []
        for i, c in enumerate(pos):
            az, el = float(rng.uniform(-180, 180)), float(rng.uniform(-60,
                                                                      60))
            if i == 0:
                srcs.append(emg3d.TxElectricDipole((*c, az, el), length=40.))
            else:
                srcs.append(emg3d.TxElectricPoint((*c, az, el)))
        recs = [emg3d.RxElectricPoint((130, 100, -60,
                                       float(rng.uniform(0, 90)), 0)),
                emg3d.RxElectricPoint((-120, 100, 80, 90, 10)),
                emg3d.RxMagneticPoint((20, -100, 60, 30, 40)),
                emg3d.RxElectricPoint((150, 50, 30, 20, 5), relative=True)]
        freqs = [0.7, 2.0][:spec['nfreq']]
    solver = dict(sslsolver='bicgstab', semicoarsening=True,
                  linerelaxation=True, tol=1e-10, maxit=300, verb=-1)
    if 'tol_forward' in spec:
        # documented: tol is used by compute, tol_gradient by
        # jvec/jtvec/gradient
        solver.update(tol=tol_f, tol_gradient=1e-10)
    ns, nr, nf = len(srcs), len(recs), len(freqs)
    noise = dict(noise_floor=1e-13, relative_error=0.03)
    nshape = spec.get('noise_shape', 'scalar')
    if nshape != 'scalar':
        shp = {'src': (ns, 1, 1), 'rec': (1, nr, 1), 'freq': (1, 1, nf),
               'full': (ns, nr, nf)}[nshape]
        rn = gen.rng_of(spec['seed'], 98)
        noise = dict(noise_floor=1e-13*rn.uniform(0.5, 2, size=shp),
                     relative_error=0.03*rn.uniform(0.5, 2, size=shp))

    def gopts(sv):
        if gridding == 'input':
            return _comp_mesh(spec['cgrid'], spec['seed'], 100)
        if gridding == 'dict':
            per = spec['cgrid']['per']
            out = {}
            for i, sn in enumerate(sv.sources.keys()):
                out[sn] = {}
                for k, fn in enumerate(sv.frequencies.keys()):
                    salt = {'source': 100+i, 'frequency': 100+k,
                            'pair': 100+2*i+k}[per]
                    out[sn][fn] = _comp_mesh(spec['cgrid'], spec['seed'],
                                             salt)
            return out
        go = {'center_on_edge': spec['center_on_edge'],
              'lambda_factor': spec['lambda_factor'],
              'cell_numbers': spec['cell_numbers'],
              'domain': {'x': [-300, 300], 'y': [-200, 200],
                         'z': [-200, 200]},
              'min_width_limits': [60, 150]}
        if spec['vector']:
            go['vector'] = spec['vector']
        return go

    def mksim(obs=None):
        sv = emg3d.Survey(srcs, recs, freqs, data=obs,
                          **{k: (np.array(x) if isinstance(x, np.ndarray)
                                 else x) for k, x in noise.items()})
        kw = {}
        if gridding != 'same':
            kw['gridding_opts'] = gopts(sv)
        if fdir:
            kw['file_dir'] = fdir
        return emg3d.Simulation(sv, model.copy(), gridding=gridding,
                                max_workers=1,
                                receiver_interpolation='linear',
                                solver_opts=dict(solver), tqdm_opts=False,
                                **kw)
    try:
        s0 = mksim()
    except RuntimeError as e:
        if 'No suitable grid found' in str(e):
            raise Inconclusive("no suitable grid for these gridding options")
        raise
    s0.compute(observed=True, add_noise=False)
    if not simgen.all_converged(s0):
        raise Inconclusive("forward solve did not converge")
    _require_converged(log, 'forward')
    obs = s0.data.observed.data.copy()*(1.2+0.1j)
    if spec['nan']:
        if generated:
            rn = gen.rng_of(spec['seed'], 99)
            mask = rn.random(obs.shape) < 0.2
            if mask.all():
                mask.flat[0] = False
            obs[mask] = np.nan
        else:
            obs[0, 1, 0] = np.nan
            obs[-1, 2, -1] = np.nan
    sim = mksim(obs)
    ncomp = {'isotropic': 1, 'HTI': 2, 'VTI': 2, 'triaxial': 3}[case]
    v = rng.standard_normal((ncomp,)+tuple(shape))
    vv = v[0] if ncomp == 1 else v
    w0 = _wvec(obs.shape, obs, spec['seed'])
    tag = f"{gridding}:{case}"
    if 'wkind' not in spec:     # old specs
        jv, jtw, lhs, rhs, scale = _adjoint_identity(sim, vv, w0, obs, tag,
                                                     1e-5)
        pairs = [('', lhs, rhs, scale)]
    else:
        pairs = []
        todo = [('', vv, spec['seed'], wkind)]
        if spec.get('second_pair'):
            # other vectors on the same simulation (stale state of the
            # first pair: data['jvec'], gfield files, restored bfields)
            r2 = gen.rng_of(spec['seed'], 93)
            v2 = r2.standard_normal(v.shape)
            todo.append((':second_pair', v2[0] if ncomp == 1 else v2,
                         spec['seed']+1, 'dense'))
        for sfx, vk, sd, wk in todo:
            jv = _call_jvec(sim, vk, tag+sfx)
            wbase = w0 if not sfx else _wvec(obs.shape, obs, sd)
            w = _w_of_kind(wk, wbase, jv, obs, sd)
            jtw = _call_jtvec(sim, w, 'ndarray', tag+sfx)
            lhs, rhs, scale = _check_pair(
                jv, jtw, vk, w, obs, tag+sfx,
                'norm' if wk != 'normalised' else 'componentwise')
            pairs.append((sfx, lhs, rhs, scale))
    _require_converged(log, 'forward/J')
    for which in ('efield', 'bfield'):
        if not simgen.all_converged(sim, which):
            raise Inconclusive(f"{which} solve did not converge")
    sname = list(sim.survey.sources.keys())[0]
    g = tuple(int(n) for n in sim.get_grid(sname, 'f-1').shape_cells)
    den = max(abs(pairs[0][1]), abs(pairs[0][2]))
    if den == 0:
        rec.cls('trivial_zero_sensitivity')
        return
    for sfx, lhs, rhs, scale in pairs:
        if _adjoint_violated(lhs, rhs, scale):
            d = max(abs(lhs), abs(rhs), 1e-300)
            raise Violation(f"adjoint_identity:{tag}{sfx}",
                            f"Re<w,Jv> = {lhs:.10e}, <J^T w,v> = {rhs:.10e} "
                            f"(rel {abs(lhs-rhs)/d:.2e}, of scale "
                            f"{abs(lhs-rhs)/max(scale, 1e-300):.2e}); comp. "
                            f"grid {g}; spec {spec}")
    # jtvec(residual*weights) = gradient (of a fresh simulation), for every
    # gridding mode; both with tightly converged forward fields only.
    did_grad = False
    if spec.get('gradient') and tol_f == 1e-10:
        vec = sim.data.residual.data*sim.data.weights.data
        jt = np.array(sim.jtvec(vec))
        n0 = len(log)
        refsim = mksim(obs)
        gr = np.array(refsim.gradient)
        _require_converged(log, 'gradient')
        if len(log) == n0:
            raise HarnessError("solves of the reference gradient were not "
                               "recorded")
        ng = float(np.linalg.norm(gr))
        if jt.shape != gr.shape or (ng > 0 and
                                    np.linalg.norm(jt-gr) > 1e-6*ng):
            raise Violation(
                f"jtvec_of_weighted_residual_not_gradient:{tag}",
                f"||jtvec(r*W) - gradient||/||gradient|| = "
                f"{np.linalg.norm(jt-gr)/max(ng, 1e-300):.2e}; spec {spec}")
        did_grad = True
    lhs, rhs, scale = pairs[0][1:]
    hmin = min(float(np.min(hh)) for hh in sim.get_grid(sname, 'f-1').h)
    finer = hmin < 0.8*min(float(np.min(hh)) for hh in grid.h)
    rec.cls(f"gridding={gridding}", f"case={case}", f"mapping={m}",
            f"file={bool(fdir)}", f"vector={spec['vector']}",
            f"nan={spec['nan']}", f"mgrid={spec.get('mgrid', 'uniform')}",
            f"survey={'generated' if generated else 'fixed'}",
            f"tol_forward={tol_f:g}", f"wkind={wkind}",
            f"second_pair={bool(spec.get('second_pair'))}",
            f"gradient_clause={did_grad}", f"noise_shape={nshape}",
            f"comp_finer_than_model={finer}")
    if generated:
        rec.cls(*[f"src={k}" for k in set(spec['src_kinds'][:ns])],
                *[f"rec={k}" for k in set(spec['rec_kinds'])])
    if gridding == 'dict':
        rec.cls(f"dict_per={spec['cgrid']['per']}")
    rec.nt(spec)
    rec.note({'gridding': gridding, 'comp_grid': list(g),
              'adjoint_rel': abs(lhs-rhs)/den,
              'adjoint_vs_scale': abs(lhs-rhs)/scale,
              'solves': len(log)})


SUBS = {'same': case_same, 'gridding': case_gridding}


def _bounded_inconclusive(ctx, sub):
    """More than MAX_INCONCLUSIVE of the cases of a sub-check dropped by a
    precondition: the check decided too little (or a regression turns every
    case into 'inconclusive') - harness error, never a silent pass."""
    inc = sum(n for k, n in ctx.inconclusive.items()
              if k.startswith(sub + ':'))
    done = ctx.per_sub.get(sub, 0)
    if inc >= 4 and inc > MAX_INCONCLUSIVE*(inc+done):
        raise HarnessError(f"{sub}: {inc} of {inc+done} cases inconclusive "
                           f"(> {MAX_INCONCLUSIVE:.0%}): "
                           f"{dict(ctx.inconclusive)}")


def run(ctx):
    ctx.regression(SUBS)
    ctx.explore('same', same_spec(), case_same, ctx.n(24, 40),
                shrink=not ctx.quick)
    # two families, so that every run has automatic grids and provided ones
    ctx.explore('gridding', gridding_spec(AUTO_MODES), case_gridding,
                ctx.n(7, 16), shrink=not ctx.quick)
    ctx.explore('gridding', gridding_spec(MESH_MODES), case_gridding,
                ctx.n(6, 14), shrink=not ctx.quick, salt=1)
    for sub in SUBS:
        if ctx.wants(sub):
            _bounded_inconclusive(ctx, sub)

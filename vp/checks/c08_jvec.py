"""C08 - J v is the data derivative, J^T its exact adjoint."""
import os
import shutil
import tempfile
import warnings

import numpy as np
from hypothesis import strategies as st

from vp import gen, simgen
from vp.framework import Violation, Inconclusive, VERIF

RULE = ("(a) 'same': generated problems as C07 (mixed sources/receivers, "
        "six mappings x four anisotropy cases, NaN-masked data, all noise "
        "shapes), gridding='same', in memory or file based: jvec(v) equals "
        "the central difference, along v, of forward data obtained by DIRECT "
        "solves of the checker-assembled operator (steps 2e-2, 1e-2 with "
        "Richardson extrapolation), Re<w,Jv> = <J^T w,v> for random "
        "real v and complex w (w = 0 where there is no datum), and "
        "jtvec(residual*weights) = gradient of a fresh simulation.  (b) "
        "'gridding': a 16x8x8 model grid with generated heterogeneous "
        "anisotropic model, survey and gridding in {same, single, frequency, "
        "source, both} with generated gridding options (model-derived "
        "vectors, cell-number lists, centre on edge or not, domain, "
        "lambda_factor): adjoint identity for every mode.  Non-trivial = all "
        "solves converged and |Jv|, |J^T w| > 0; distinct by the spec.")
ASSUMPTIONS = [
    "solver tolerance 1e-11 ('same') / 1e-10 (automatic gridding); adjoint "
    "identity tolerance 1e-6 relative + 1e-7 ||w|| ||Jv|| (measured 1e-9..1e-12 of ||w|| ||Jv||), FD tolerance "
    "1e-4 ||Jv|| after Richardson extrapolation of direct-solve data "
    "(measured: median 1e-8, max 7e-6 - the accuracy of emg3d's own "
    "iterative J v solve on ill-conditioned problems; mutants give >= 6e-2)",
    "data-space vectors w are zero where the observed datum is NaN (missing "
    "data are not part of the data space)",
]
SHARDS = {'quick': 1, 'thorough': 16}


def same_spec():
    return st.fixed_dictionaries({
        'problem': simgen.problem_spec(max_src=2, max_freq=2),
        'vseed': gen.SEED,
        'file': st.sampled_from([False, False, True]),
        'vkind': st.sampled_from(['dense', 'dense', 'cell']),
    })


def _tmpdir():
    base = os.path.join(VERIF, '.cache', 'tmp')
    os.makedirs(base, exist_ok=True)
    return tempfile.mkdtemp(prefix='c08_', dir=base)


def _wvec(shape, obs, seed):
    rng = gen.rng_of(seed, 91)
    w = rng.standard_normal(shape) + 1j*rng.standard_normal(shape)
    w[~np.isfinite(obs)] = 0
    return w


def _adjoint_identity(sim, v, w, obs, tag, tol):
    jv = np.array(sim.jvec(v))
    jtw = np.array(sim.jtvec(w))
    if jtw.shape != v.shape:
        raise Violation(f"jtvec_shape:{tag}", f"{jtw.shape} vs {v.shape}")
    if jv.shape != w.shape:
        raise Violation(f"jvec_shape:{tag}", f"{jv.shape} vs {w.shape}")
    if not np.all(np.isfinite(jtw)):
        raise Violation(f"jtvec_not_finite:{tag}", "NaN/inf in jtvec")
    fin = np.isfinite(obs)
    if not np.all(np.isfinite(jv[fin])):
        raise Violation(f"jvec_not_finite:{tag}", "NaN/inf in jvec at data")
    lhs = float(np.sum((np.conj(w)*jv)[fin]).real)
    rhs = float(np.sum(jtw*v))
    scale = float(np.linalg.norm(w[fin])*np.linalg.norm(jv[fin]))
    return jv, jtw, lhs, rhs, scale


def case_same(spec, rec):
    with warnings.catch_warnings():
        warnings.simplefilter('ignore')
        fdir = _tmpdir() if spec['file'] else None
        try:
            return _case_same(spec, rec, fdir)
        finally:
            if fdir:
                shutil.rmtree(fdir, ignore_errors=True)


def _case_same(spec, rec, fdir):
    p = simgen.build(spec['problem'])
    obs = simgen.observed_from_true(p)
    if obs is None:
        raise Inconclusive("true-model solve did not converge")
    kw = {'file_dir': fdir} if fdir else {}

    def fresh(model=None, **k):
        sv = simgen.make_survey(p, obs)
        return simgen.make_sim(p, sv, model, **k)
    tag = f"{p.mapping}:{p.case}:{'file' if fdir else 'mem'}"
    v = simgen.direction(p, spec['vkind'], spec['vseed'])
    vv = v[0] if v.shape[0] == 1 else v
    w = _wvec(obs.shape, obs, spec['vseed'])
    sim = fresh(**kw)
    jv, jtw, lhs, rhs, scale = _adjoint_identity(sim, vv, w, obs, tag, 1e-6)
    if not simgen.all_converged(sim):
        raise Inconclusive("forward solve did not converge")
    if not simgen.data_converged(p, sim):
        raise Inconclusive("responses below the accuracy of the solver")
    nv = float(np.linalg.norm(jv[np.isfinite(jv)]))
    if scale == 0 or nv == 0:
        rec.cls('trivial_zero_sensitivity')
        return
    if abs(lhs-rhs) > 1e-6*max(abs(lhs), abs(rhs)) + 1e-7*scale:
        raise Violation(f"adjoint_identity:{tag}",
                        f"Re<w,Jv> = {lhs:.10e}, <J^T w,v> = {rhs:.10e} "
                        f"(rel {abs(lhs-rhs)/max(abs(lhs), abs(rhs)):.2e}); "
                        f"sources {spec['problem']['src']}, receivers "
                        f"{spec['problem']['rec']}")
    # (a) J v = derivative of the synthetic data
    # forward data of the perturbed models from direct solves of the
    # checker-assembled operator (no iteration noise), cf. simgen.direct_data
    fds = [(simgen.direct_data(p, sim, v, eps) -
            simgen.direct_data(p, sim, v, -eps))/(2*eps)
           for eps in (2e-2, 1e-2)]
    # Richardson extrapolation removes the O(eps^2) term; what remains is
    # O(eps^4) truncation plus (solver tolerance)/eps.
    fd = (4*fds[1]-fds[0])/3
    m = np.isfinite(fd) & np.isfinite(jv)
    errs = [float(np.linalg.norm((f-jv)[m])/nv) for f in (fds[0], fds[1], fd)]
    if errs[2] > 1e-4:
        raise Violation(f"jvec_not_derivative:{tag}",
                        f"||FD - Jv||/||Jv|| = {errs} for steps 2e-2, 1e-2 "
                        f"and their Richardson extrapolation; "
                        f"sources {spec['problem']['src']}, receivers "
                        f"{spec['problem']['rec']}")
    # (c) jtvec(residual*weights) = gradient
    ref = fresh()
    g = np.array(ref.gradient)
    s3 = fresh(**kw)
    _ = s3.misfit
    vec = s3.data.residual.data*s3.data.weights.data
    jt = np.array(s3.jtvec(vec))
    ng = float(np.linalg.norm(g))
    if ng > 0 and np.linalg.norm(jt-g) > 1e-7*ng:
        raise Violation(f"jtvec_of_weighted_residual_not_gradient:{tag}",
                        f"||jtvec(r*W) - gradient||/||gradient|| = "
                        f"{np.linalg.norm(jt-g)/ng:.2e}")
    rec.cls(f"mapping={p.mapping}", f"case={p.case}", f"file={bool(fdir)}",
            f"vkind={spec['vkind']}",
            f"nan={spec['problem']['nan_frac'] > 0}",
            *[f"src={k}" for k in set(spec['problem']['src'])],
            *[f"rec={k}" for k in set(spec['problem']['rec'])])
    rec.nt(spec)
    rec.note({'mapping': p.mapping, 'case': p.case, 'fd_errs': errs,
              'adjoint_rel': abs(lhs-rhs)/max(abs(lhs), abs(rhs), 1e-300),
              'adjoint_vs_scale': abs(lhs-rhs)/scale})


# ------------------------------------------------------- gridding modes
def gridding_spec():
    return st.fixed_dictionaries({
        'gridding': st.sampled_from(['single', 'frequency', 'source',
                                     'both', 'same']),
        'case': st.sampled_from(gen.CASES),
        'mapping': st.sampled_from(gen.MAPPINGS),
        'nsrc': st.integers(1, 2),
        'nfreq': st.integers(1, 2),
        'vector': st.sampled_from([None, 'xyz', 'xy', 'z']),
        'center_on_edge': st.booleans(),
        'cell_numbers': st.sampled_from([[8, 16, 24, 32], [8, 12, 16, 24],
                                         [10, 16, 20, 32]]),
        'lambda_factor': st.sampled_from([0.02, 0.05, 0.1]),
        'file': st.sampled_from([False, False, True]),
        'nan': st.booleans(),
        'seed': gen.SEED,
    })


def case_gridding(spec, rec):
    with warnings.catch_warnings():
        warnings.simplefilter('ignore')
        fdir = _tmpdir() if spec['file'] else None
        try:
            return _case_gridding(spec, rec, fdir)
        finally:
            if fdir:
                shutil.rmtree(fdir, ignore_errors=True)


def _case_gridding(spec, rec, fdir):
    import emg3d
    rng = gen.rng_of(spec['seed'], 95)
    hx = np.ones(16)*100.
    grid = emg3d.TensorMesh([hx, hx[:8], hx[:8]], origin=(-800, -400, -400))
    shape = grid.shape_cells
    m = spec['mapping']
    case = spec['case']

    def cond():
        return 10**rng.uniform(-0.5, 0.5, size=shape)
    sx = cond()
    sy = cond() if case in ('HTI', 'triaxial') else None
    sz = cond() if case in ('VTI', 'triaxial') else None
    model = emg3d.Model(grid, gen.map_forward(m, sx), gen.map_forward(m, sy),
                        gen.map_forward(m, sz), mapping=m)
    pos = [(-120., 20., -30.), (100., -30., 40.)][:spec['nsrc']]
    srcs = []
    for i, c in enumerate(pos):
        az, el = float(rng.uniform(-180, 180)), float(rng.uniform(-60, 60))
        if i == 0:
            srcs.append(emg3d.TxElectricDipole((*c, az, el), length=40.))
        else:
            srcs.append(emg3d.TxElectricPoint((*c, az, el)))
    recs = [emg3d.RxElectricPoint((130, 100, -60, float(rng.uniform(0, 90)),
                                   0)),
            emg3d.RxElectricPoint((-120, 100, 80, 90, 10)),
            emg3d.RxMagneticPoint((20, -100, 60, 30, 40)),
            emg3d.RxElectricPoint((150, 50, 30, 20, 5), relative=True)]
    freqs = [0.7, 2.0][:spec['nfreq']]
    solver = dict(sslsolver='bicgstab', semicoarsening=True,
                  linerelaxation=True, tol=1e-10, maxit=300, verb=-1)

    def mksim(obs=None):
        sv = emg3d.Survey(srcs, recs, freqs, data=obs, noise_floor=1e-13,
                          relative_error=0.03)
        kw = {}
        if spec['gridding'] != 'same':
            go = {'center_on_edge': spec['center_on_edge'],
                  'lambda_factor': spec['lambda_factor'],
                  'cell_numbers': spec['cell_numbers'],
                  'domain': {'x': [-300, 300], 'y': [-200, 200],
                             'z': [-200, 200]},
                  'min_width_limits': [60, 150]}
            if spec['vector']:
                go['vector'] = spec['vector']
            kw['gridding_opts'] = go
        if fdir:
            kw['file_dir'] = fdir
        return emg3d.Simulation(sv, model.copy(), gridding=spec['gridding'],
                                max_workers=1,
                                receiver_interpolation='linear',
                                solver_opts=dict(solver), tqdm_opts=False,
                                **kw)
    try:
        s0 = mksim()
    except RuntimeError as e:
        if 'No suitable grid found' in str(e):
            raise Inconclusive("no suitable grid for these gridding options")
        raise
    s0.compute(observed=True, add_noise=False)
    if not simgen.all_converged(s0):
        raise Inconclusive("forward solve did not converge")
    obs = s0.data.observed.data.copy()*(1.2+0.1j)
    if spec['nan']:
        obs[0, 1, 0] = np.nan
        obs[-1, 2, -1] = np.nan
    sim = mksim(obs)
    ncomp = {'isotropic': 1, 'HTI': 2, 'VTI': 2, 'triaxial': 3}[case]
    v = rng.standard_normal((ncomp,)+tuple(shape))
    vv = v[0] if ncomp == 1 else v
    w = _wvec(obs.shape, obs, spec['seed'])
    tag = f"{spec['gridding']}:{case}"
    jv, jtw, lhs, rhs, scale = _adjoint_identity(sim, vv, w, obs, tag, 1e-5)
    for which in ('efield', 'bfield'):
        if not simgen.all_converged(sim, which):
            raise Inconclusive(f"{which} solve did not converge")
    den = max(abs(lhs), abs(rhs))
    if den == 0:
        rec.cls('trivial_zero_sensitivity')
        return
    if abs(lhs-rhs) > 1e-6*den + 1e-7*scale:
        g = sim.get_grid('TxED-1', 'f-1').shape_cells
        raise Violation(f"adjoint_identity:{tag}",
                        f"Re<w,Jv> = {lhs:.10e}, <J^T w,v> = {rhs:.10e} "
                        f"(rel {abs(lhs-rhs)/den:.2e}); comp. grid {g}; "
                        f"spec {spec}")
    g = tuple(int(n) for n in sim.get_grid('TxED-1', 'f-1').shape_cells)
    rec.cls(f"gridding={spec['gridding']}", f"case={case}", f"mapping={m}",
            f"file={bool(fdir)}", f"vector={spec['vector']}",
            f"nan={spec['nan']}")
    rec.nt(spec)
    rec.note({'gridding': spec['gridding'], 'comp_grid': list(g),
              'adjoint_rel': abs(lhs-rhs)/den,
              'adjoint_vs_scale': abs(lhs-rhs)/scale})


SUBS = {'same': case_same, 'gridding': case_gridding}


def run(ctx):
    ctx.regression(SUBS)
    ctx.explore('same', same_spec(), case_same, ctx.n(24, 40),
                shrink=not ctx.quick)
    ctx.explore('gridding', gridding_spec(), case_gridding, ctx.n(12, 30),
                shrink=not ctx.quick)

"""C05 - grid hierarchy and V/W/F cycling are well-formed (control logic)."""
import contextlib
import io
import itertools
import re
import warnings

import numpy as np
from hypothesis import strategies as st

from vp import gen
from vp.framework import Violation, HarnessError

RULE = ("(a) skeleton_enum: every grid shape of the tier's range (quick "
        "{2..9}^3, thorough {2..40}^3 plus (n,2,2),(2,n,2),(2,2,n) for n<=1024) x "
        "cycle {V,W,F} x a covering set of (semicoarsening, linerelaxation, "
        "clevel) is run through the REAL emg3d.solve with the numerical "
        "kernels replaced by recorders; the recorded event sequence "
        "(smoothing kernels + level shape + sweeps, restriction, "
        "prolongation) must equal an independent textbook V/W/F reference "
        "generator (kernel order inside one smoothing step is free). "
        "Values include the spelling False, clevel up to 100 and next to the "
        "deepest level, verb -1..5; skeleton_lines adds 'plates' with two "
        "deep directions of unequal depth. (b) skeleton_random: Hypothesis "
        "over shapes <=40 and plates <=256, multi-digit patterns, smoothing "
        "counts, clevel -1..10/100, up to 40 iterations on shallow "
        "hierarchies, verb -1..5, plain=True, omitted arguments (documented "
        "defaults), a provided zero efield (info dict only is returned), "
        "Laplace-domain source, iso/HTI/VTI/triaxial model. For verb>=3 the "
        "header's coarsest grid/level/cell count, for verb>=4 the QC figure "
        "and the per-cycle lines (cycle number, lr, sc), for verb=5 the "
        "smoothing lines (level, shape, phase) must equal the reference. "
        "(c) skeleton_ssl: the same with multigrid as PRECONDITIONER "
        "(sslsolver True/'bicgstab'/'cgs'/'gcrotmk'/omitted): every "
        "top-level multigrid call must run exactly max(len sc, len lr) "
        "cycles and the sc/lr patterns must continue across calls (global "
        "cycle N uses pattern[(N-1) % len]); it_mg = calls x cycles. "
        "(d) log: full numerics with verb=5 on generated small problems "
        "(solver or preconditioner); the parsed log (level, cycmax, level "
        "shape, phase, lr/sc per cycle), the first-cycle QC figure and the "
        "header's coarsest grid/level must equal the reference.  "
        "Non-trivial = at least two levels and a cycle that is not a plain "
        "two-grid V; distinct by (shape, config).")
ASSUMPTIONS = [
    "reference generator in this module (recursive textbook definition, "
    "single visit of the coarsest level) shares no code with emg3d",
    "recorders replace core.gauss_seidel*, core.restrict, "
    "solver.prolongation and solver.residual only; solve, MGParameters, "
    "multigrid, smoothing dispatch, restriction's grid/model coarsening, "
    "_current_sc_dir/_current_lr_dir and _terminate run unmodified; the "
    "recorder is validated against the real verb=5 log by sub-check (d)",
    "the stub residual norm is 0.5+0.5/(1+n): strictly decreasing and "
    "bounded away from tol, so neither CONVERGED, DIVERGED nor STAGNATED "
    "can end a run early",
    "preconditioner mode: solver.multigrid is wrapped passively (marks "
    "top-level calls; sets the returned field to the right-hand side, i.e. "
    "M = identity, so that scipy keeps iterating); krylov and scipy run "
    "unmodified; the NUMBER of preconditioner calls is taken from the "
    "recording, not predicted; nu_init=0 there (initial smoothing per call "
    "is not documented); documented basis: 'the maximum iteration for "
    "multigrid is defined by the maximum length of the linerelaxation and "
    "semicoarsening-cycles'",
    "plain=True / omitted arguments: expected settings follow the "
    "documented defaults (True, True, 'F', -1, nu 0/2/1/2) and the "
    "documented rule that plain replaces only values that are True",
]
SHARDS = {'quick': 1, 'thorough': 16}

LR_DIRS = {0: '', 1: 'x', 2: 'y', 3: 'z', 4: 'yz', 5: 'xz', 6: 'xy',
           7: 'xyz'}
SC_CODE = {(): 0, (0,): 1, (1,): 2, (2,): 3, (1, 2): 4, (0, 2): 5,
           (0, 1): 6}


# ------------------------------------------------------------ reference
def pattern(value, default_true):
    """Documented meaning of semicoarsening / linerelaxation values."""
    if value is True:
        return list(default_true)
    if value is False:
        return [0]
    return [int(c) for c in str(abs(int(value)))]


def halvings(n):
    k = 0
    while n % 2 == 0 and n > 2:
        n //= 2
        k += 1
    return k


def coarsen(shape, sc):
    keep = tuple(d for d in range(3)
                 if shape[d] % 2 != 0 or shape[d] <= 2 or sc == d+1)
    cshape = tuple(n if d in keep else n//2 for d, n in enumerate(shape))
    return cshape, keep


def reference(shape, cycle, sc_pat, lr_pat, clevel, nus, n_iter, calls=0):
    """Expected events for n_iter fine-grid cycles.

    calls=m > 0: preconditioner mode, the cycles come in calls of m cycles;
    a ('call',) marker precedes every call (nu_init must be 0 then).

    Events: ('smooth', level, shape, kernels, nu, phase),
            ('restrict', level, shape, cshape, code),
            ('prolong', level, cshape, shape, code).
    Also returns per-iteration (bottom level, lr, sc) and the level walk of
    the first cycle."""
    nu_init, nu_pre, nu_coarse, nu_post = nus
    lev = [halvings(n) for n in shape]
    if clevel >= 0:
        lev = [min(v, clevel) for v in lev]
    events, per_it, first_end = [], [], [0]
    gamma = {'V': 1, 'W': 2, 'F': 2}

    def smooth(level, shp, nu, lr, phase, it, cm):
        dirs = [d for d in 'xyz' if d in LR_DIRS[lr] and
                shp['xyz'.index(d)] > 2]
        kern = ['gauss_seidel_'+d for d in dirs] or ['gauss_seidel']
        events.append(('smooth', level, tuple(shp), tuple(kern), nu, phase,
                       it, cm))

    def cyc(level, shp, kind, sc, lr, bottom, it, cm):
        """One application (number `it` of `cm`) of a `kind`-cycle."""
        if level == bottom:
            smooth(level, shp, nu_coarse, lr, 'coarsest level', it, 1)
            return
        if nu_pre > 0:
            smooth(level, shp, nu_pre, lr, 'pre-smoothing', it, cm)
        cshape, keep = coarsen(shp, sc)
        if cshape == tuple(shp):
            raise HarnessError(f"reference: cannot coarsen {shp} above the "
                               f"bottom level {bottom}")
        events.append(('restrict', level, tuple(shp), cshape, SC_CODE[keep]))
        napp = 1 if level+1 == bottom else gamma[kind]
        for a in range(napp):
            sub = kind if kind != 'F' else ('F' if a == 0 else 'V')
            cyc(level+1, cshape, sub, sc, lr, bottom, a, napp)
        events.append(('prolong', level, cshape, tuple(shp), SC_CODE[keep]))
        if nu_post > 0:
            smooth(level, shp, nu_post, lr, 'post-smoothing', it, cm)

    for it in range(n_iter):
        sc = sc_pat[it % len(sc_pat)]
        lr = lr_pat[it % len(lr_pat)]
        bottom = max(lev[d] for d in range(3) if d+1 != sc)
        per_it.append((bottom, lr, sc))
        cm0 = 1 if bottom == 0 else gamma[cycle]
        if calls and it % calls == 0:
            events.append(('call',))
        if it == 0 and nu_init > 0:
            smooth(0, shape, nu_init, lr, 'initial smoothing', 0, cm0)
        cyc(0, tuple(shape), cycle, sc, lr, bottom, it, cm0)
        if it == 0:
            first_end[0] = len(events)
    return events, per_it, first_end[0]


def walk_levels(events_first_cycle):
    """Sequence of levels of restrict (down) / prolong (up) moves."""
    moves = []
    for e in events_first_cycle:
        if e[0] == 'restrict':
            moves.append(('down', e[1]+1))
        elif e[0] == 'prolong':
            moves.append(('up', e[1]+1))
    return moves


def figure(moves, maxlevel):
    """The documented QC picture: row l (2^l h) has a backslash where the
    cycle goes down to level l and a slash where it leaves level l upwards."""
    rows = []
    for lv in range(1, maxlevel+1):
        rows.append(''.join('\\' if (m == ('down', lv)) else
                            '/' if (m == ('up', lv)) else ' '
                            for m in moves[:70]).rstrip())
    return rows


# ------------------------------------------------------------ recorder
class Recorder:
    def __init__(self, ssl=False):
        self.events = []
        self.cap = 10**7
        self.n = 0
        self.ssl = ssl
        self.depth = 0

    def install(self):
        from emg3d import core, solver
        self.saved = {(core, k): getattr(core, k) for k in
                      ('gauss_seidel', 'gauss_seidel_x', 'gauss_seidel_y',
                       'gauss_seidel_z', 'restrict')}
        self.saved[(solver, 'residual')] = solver.residual
        self.saved[(solver, 'prolongation')] = solver.prolongation
        ev = self.events
        rec = self

        def gs(name):
            def f(ex, ey, ez, *a):
                rec.tick()
                ev.append(('smooth', (ez.shape[0]-1, ez.shape[1]-1,
                                      ex.shape[2]-1), name, int(a[-1])))
            return f
        for k in ('gauss_seidel', 'gauss_seidel_x', 'gauss_seidel_y',
                  'gauss_seidel_z'):
            setattr(core, k, gs(k))

        def restrict(crx, cry, crz, rx, ry, rz, wx, wy, wz, sc):
            rec.tick()
            ev.append(('restrict',
                       (rz.shape[0]-1, rz.shape[1]-1, rx.shape[2]-1),
                       (crz.shape[0]-1, crz.shape[1]-1, crx.shape[2]-1),
                       int(sc)))
        core.restrict = restrict

        def prolongation(efield, cefield, sc_dir):
            rec.tick()
            ev.append(('prolong', tuple(int(n) for n in
                                        cefield.grid.shape_cells),
                       tuple(int(n) for n in efield.grid.shape_cells),
                       int(sc_dir)))
        solver.prolongation = prolongation

        def residual(model, sfield, efield, norm=False):
            if norm:
                # strictly decreasing, bounded below by 0.5: never converged
                # (tol=1e-30), never diverged, never stagnated
                rec.n += 1
                return 0.5 + 0.5/(1.0 + rec.n)
            return sfield
        solver.residual = residual

        if self.ssl:
            # Preconditioner mode: mark every top-level multigrid call and
            # make the (stubbed) preconditioner act as the identity, so that
            # the scipy solver keeps calling it.  The wrapped function itself
            # runs unmodified; the recursion goes through this wrapper too
            # (depth > 0: passive).
            self.saved[(solver, 'multigrid')] = solver.multigrid
            orig = solver.multigrid

            def multigrid(model, sfield, efield, var, **kwargs):
                top = rec.depth == 0
                if top:
                    rec.tick()
                    ev.append(('call',))
                rec.depth += 1
                try:
                    orig(model, sfield, efield, var, **kwargs)
                finally:
                    rec.depth -= 1
                if top:
                    efield.field[:] = sfield.field
            solver.multigrid = multigrid

    def tick(self):
        if len(self.events) > self.cap:
            raise Violation("non_termination",
                            "event cap exceeded: recursion does not "
                            "terminate")

    def remove(self):
        for (mod, k), v in self.saved.items():
            setattr(mod, k, v)


_GRIDS = {}
MODEL_CASES = [(1.0, None, None), (1.0, 2.0, None), (1.0, None, 3.0),
               (1.0, 2.0, 3.0)]


def _problem(shape, freq=1.0, mcase=0):
    import emg3d
    key = (shape, freq, mcase)
    if key not in _GRIDS:
        if len(_GRIDS) > 200:
            _GRIDS.clear()
        grid = emg3d.TensorMesh([np.ones(n) for n in shape], (0, 0, 0))
        px, py, pz = MODEL_CASES[mcase]
        model = emg3d.Model(grid, px, py, pz)
        sf = emg3d.Field(grid, frequency=freq)
        sf.field[:] = 1.0
        _GRIDS[key] = (grid, model, sf)
    return _GRIDS[key]


def _parse_header(log):
    m = re.search(r"Coarsest grid\s*:\s*(\d+) x\s*(\d+) x\s*(\d+)", log)
    m2 = re.search(r"Coarsest level\s*:\s*(\d+) ;\s*(\d+)\s*;\s*(\d+)", log)
    if not m or not m2:
        return None, None
    return (tuple(int(x) for x in m.groups()),
            tuple(int(x) for x in m2.groups()))


def _parse_figure(log):
    rows = []
    for ln in log.split('\n'):
        m = re.match(r"^\s+(\d+)h_ (.*)$", ln)
        if m:
            rows.append(m.group(2).rstrip())
    return rows


def _compare(spec, got, exp, where, cyc=None):
    """got/exp: lists of comparable tuples."""
    if got == exp:
        return
    k = next((i for i, (a, b) in enumerate(zip(got, exp)) if a != b),
             min(len(got), len(exp)))
    g = got[k] if k < len(got) else None
    e = exp[k] if k < len(exp) else None
    kind = (e or g)[0]
    cyc = cyc or spec['cycle']
    raise Violation(f"sequence_mismatch:{where}:{kind}:cycle={cyc}",
                    f"event {k}: got {g}, expected {e} (lengths "
                    f"{len(got)}/{len(exp)}); spec {spec}")


def _invariants(spec, events):
    """Direct statements of the property on the recorded events."""
    for e in events:
        if e[0] == 'call':
            continue
        shapes = [e[1]] if e[0] == 'smooth' else [e[1], e[2]]
        for shp in shapes:
            if min(shp) < 2:
                raise Violation("level_with_fewer_than_two_cells",
                                f"{e}; spec {spec}")
        if e[0] == 'smooth' and e[2] != 'gauss_seidel':
            d = 'xyz'.index(e[2][-1])
            if e[1][d] <= 2:
                raise Violation("line_relaxation_along_two_cell_direction",
                                f"{e}; spec {spec}")
        if e[0] == 'restrict':
            for nf, nc in zip(e[1], e[2]):
                if nc != nf and not (nf % 2 == 0 and nf > 2 and nc == nf//2):
                    raise Violation("halved_odd_or_two_cell_direction",
                                    f"{e}; spec {spec}")


def _canon(events):
    """Sort the kernel calls inside one smoothing step (consecutive smooth
    events on the same grid with the same number of sweeps): the documentation
    says which directions are relaxed, not in which order."""
    out, run = [], []
    for e in events:
        if e[0] == 'smooth' and (not run or (run[-1][1], run[-1][3]) ==
                                 (e[1], e[3])):
            run.append(e)
            continue
        out.extend(sorted(run))
        run = [e] if e[0] == 'smooth' else []
        if e[0] != 'smooth':
            out.append(e)
    out.extend(sorted(run))
    return out


# documented defaults of emg3d.solve
DEFAULTS = {'sslsolver': True, 'semicoarsening': True, 'linerelaxation': True,
            'cycle': 'F', 'clevel': -1, 'nu_init': 0, 'nu_pre': 2,
            'nu_coarse': 1, 'nu_post': 2}


def solver_args(spec):
    """(kwargs passed to emg3d.solve, effective documented settings)."""
    nus = list(spec['nus'])
    args = {'sslsolver': spec.get('ssl', False),
            'semicoarsening': spec['sc'], 'linerelaxation': spec['lr'],
            'cycle': spec['cycle'], 'clevel': spec['clevel'],
            'nu_init': nus[0], 'nu_pre': nus[1], 'nu_coarse': nus[2],
            'nu_post': nus[3]}
    for k in spec.get('omit', []):
        args.pop(k)
    eff = dict(DEFAULTS)
    eff.update(args)
    if spec.get('plain', False):
        args['plain'] = True
        # "shortcut for sslsolver=False, semicoarsening=False,
        # linerelaxation=False; the three parameters remain unchanged if they
        # are set to anything else than True"
        for k in ('sslsolver', 'semicoarsening', 'linerelaxation'):
            if eff[k] is True:
                eff[k] = False
    return args, eff


def _header_checks(spec, log, shape, clevel):
    cg, cl = _parse_header(log)
    lev = [halvings(n) for n in shape]
    if clevel >= 0:
        lev = [min(v, clevel) for v in lev]
    eg = tuple(n//2**v for n, v in zip(shape, lev))
    if cg != eg or cl != tuple(lev):
        raise Violation("header_coarsest",
                        f"header says {cg} / {cl}, expected {eg} / "
                        f"{tuple(lev)}; spec {spec}")
    m = re.search(r"Coarsest grid\s*:.*=>\s*([\d,]+) cells", log)
    if m and int(m.group(1).replace(',', '')) != int(np.prod(eg)):
        raise Violation("header_coarsest",
                        f"header says {m.group(1)} cells on the coarsest "
                        f"grid, expected {int(np.prod(eg))}; spec {spec}")
    return eg


def _parse_cycle_lines(log):
    cyc = []
    for ln in log.split('\n'):
        m = CYCLINE.search(ln)
        if m:
            cyc.append((int(m.group(1)), m.group(2), int(m.group(3)),
                        int(m.group(4))))
    return cyc


def _parse_gs_lines(log):
    """(level, shape, phase, it, cycmax) of every verb=5 smoothing line."""
    got = []
    for ln in log.split('\n'):
        m = LOGLINE.match(ln)
        if m and m.group(7) != 'initial error':
            got.append((int(m.group(2)),
                        (int(m.group(4)), int(m.group(5)), int(m.group(6))),
                        m.group(7), int(m.group(1)), int(m.group(3))))
    return got


def case_skeleton(spec, rec):
    import emg3d
    shape = tuple(spec['shape'])
    freq = spec.get('freq', 1.0)
    mcase = spec.get('case', 0)
    grid, model, sf = _problem(shape, freq, mcase)
    args, eff = solver_args(spec)
    ssl = eff['sslsolver']
    sc_pat = pattern(eff['semicoarsening'], [1, 2, 3])
    lr_pat = pattern(eff['linerelaxation'], [4, 5, 6])
    nus = (eff['nu_init'], eff['nu_pre'], eff['nu_coarse'], eff['nu_post'])
    cycle, clevel = eff['cycle'], eff['clevel']
    maxit = spec['maxit']
    mc = max(len(sc_pat), len(lr_pat))
    if ssl and nus[0] != 0:
        raise HarnessError("preconditioner mode needs nu_init=0 (initial "
                           "smoothing per preconditioner call is not "
                           "documented)")
    verb = spec.get('verb', -1)
    use_ef = spec.get('efield', False)
    if use_ef:
        args['efield'] = emg3d.Field(grid, dtype=sf.field.dtype,
                                     frequency=freq)
    r = Recorder(ssl=bool(ssl))
    if ssl:
        r.cap = 10**6
    else:
        exp, per_it, n0 = reference(shape, cycle, sc_pat, lr_pat, clevel,
                                    nus, maxit)
        r.cap = 20*len(exp) + 1000
    r.install()
    buf = io.StringIO()
    try:
        with contextlib.redirect_stdout(buf), warnings.catch_warnings():
            # scipy's solvers may divide by zero once the (stubbed) system
            # breaks down; only the control flow is under test here
            warnings.simplefilter('ignore', RuntimeWarning)
            out = emg3d.solve(model, sf, maxit=maxit, tol=1e-30, verb=verb,
                              return_info=True, log=-1, **args)
    finally:
        r.remove()
    if use_ef:
        # "If an initial efield is provided nothing is returned" (but info)
        if not isinstance(out, dict):
            raise Violation("return_value_with_efield",
                            f"solve(efield=...) returned {type(out)}, "
                            f"expected the info dict only; spec {spec}")
        info = out
    else:
        info = out[1]
    ncalls = sum(1 for e in r.events if e[0] == 'call')
    if ssl:
        # documented: in preconditioner mode each multigrid call runs
        # max(len(sc pattern), len(lr pattern)) cycles; the number of calls
        # is the scipy solver's business and is taken from the recording
        n_iter = mc*ncalls
        exp, per_it, n0 = reference(shape, cycle, sc_pat, lr_pat, clevel,
                                    nus, n_iter, calls=mc)
    else:
        n_iter = maxit
    if info['it_mg'] != n_iter:
        raise Violation("iteration_count",
                        f"it_mg={info['it_mg']}, expected {n_iter} (maxit="
                        f"{maxit}, {ncalls} preconditioner calls of {mc}); "
                        f"spec {spec}")
    got = [e for e in r.events if not (e[0] == 'smooth' and e[3] == 0)]
    _invariants(spec, got)
    # expand reference smoothing events into kernel calls
    expf = []
    for e in exp:
        if e[0] == 'call':
            expf.append(e)
        elif e[0] == 'smooth':
            if e[4] == 0:
                continue
            for k in e[3]:
                expf.append(('smooth', e[2], k, e[4]))
        else:
            expf.append((e[0], e[2], e[3], e[4]))
    _compare(spec, _canon(got), _canon(expf),
             'skeleton_ssl' if ssl else 'skeleton', cycle)

    log = info['log']
    if verb >= 3:
        eg = _header_checks(spec, log, shape, clevel)
    if verb >= 4 and n_iter >= 1:
        moves = walk_levels(exp[:n0])
        maxl = max([m[1] for m in moves], default=0)
        fig = _parse_figure(log)
        if fig != figure(moves, maxl):
            raise Violation(f"qc_figure:cycle={cycle}",
                            f"figure {fig} != expected "
                            f"{figure(moves, maxl)}; spec {spec}")
        if sc_pat == [0]:
            # full coarsening: the header's coarsest grid is the bottom one
            bshape = [e[1] for e in got if e[0] == 'smooth'] + \
                     [e[2] for e in got if e[0] == 'restrict'] + [shape]
            smallest = min(bshape, key=lambda s: np.prod(s))
            if tuple(smallest) != eg:
                raise Violation("bottom_vs_header",
                                f"coarsest visited grid {smallest}, header "
                                f"{eg}; spec {spec}")
        # per-cycle line: number of the fine-grid cycle, lr and sc used in it
        cyc = _parse_cycle_lines(log)
        expc = [(i+1, cycle, lr, sc) for i, (_, lr, sc) in enumerate(per_it)]
        if cyc != expc:
            k = next((i for i, (a, b) in enumerate(zip(cyc, expc))
                      if a != b), min(len(cyc), len(expc)))
            raise Violation("cycle_line_lr_sc",
                            f"per-cycle line {k}: {cyc[k:k+1]} != expected "
                            f"{expc[k:k+1]} (lengths {len(cyc)}/{len(expc)})"
                            f"; spec {spec}")
    if verb >= 5:
        # smoothing lines of the log: level, level shape, phase (the `it` and
        # `cycmax` columns are compared in sub-check `log` only)
        gl = [g[:3] for g in _parse_gs_lines(log)]
        el = [(e[1], e[2], e[5]) for e in exp if e[0] == 'smooth']
        _compare(spec, gl, el, 'skeleton_log', cycle)

    bottoms = sorted({b for b, _, _ in per_it}) or [0]
    omit = spec.get('omit', [])
    rec.cls(f"cycle={cycle}", f"bottom={max(bottoms)}",
            f"sc_len={len(sc_pat)}", f"lr_len={len(lr_pat)}",
            f"clevel={spec['clevel']}", f"verb={verb}")
    rec.cls(f"ssl={spec.get('ssl', False)}", f"plain={spec.get('plain', False)}",
            f"omitted={len(omit)}", f"efield={use_ef}", f"freq={freq}",
            f"model_case={mcase}",
            "maxit=%s" % ('1-9' if maxit < 10 else '10-19' if maxit < 20
                          else '20+'),
            "maxdim=%s" % ('<=40' if max(shape) <= 40 else '>40'),
            "dirs_with_3+_levels=%d" % sum(halvings(n) >= 2 for n in shape),
            "sc_or_lr_False=%s" % (spec['sc'] is False or spec['lr'] is False))
    if ssl:
        rec.cls("ncalls=%s" % (ncalls if ncalls < 5 else '5-9' if ncalls < 10
                               else '10+'),
                f"ssl_effective={ssl}", f"ssl_mc={mc}",
                "ssl_joint_period_wraps=%s" % (
                    n_iter > np.lcm(len(sc_pat), len(lr_pat)) > 1))
        for o in omit:
            rec.cls(f"omit={o}")
    elif omit:
        for o in omit:
            rec.cls(f"omit={o}")
    if len(bottoms) > 1:
        rec.cls("bottom_varies_with_sc")
    if max(bottoms) >= 2 or (max(bottoms) >= 1 and (len(sc_pat) > 1 or
                                                    len(lr_pat) > 1)):
        key = [list(shape), spec['cycle'], spec['sc'], spec['lr'],
               spec['clevel'], list(spec['nus']), maxit]
        extra = [spec.get(k) for k in ('ssl', 'plain', 'omit', 'efield',
                                       'freq', 'case') if spec.get(k)]
        rec.nt(key + extra if extra else key)
    rec.note({'shape': list(shape), 'events': len(got),
              'bottom_levels': bottoms, 'calls': ncalls})


# -------------------------------------------------- (c) real log
LOGLINE = re.compile(r"^\s+(\d+) (\d+) (\d+) \[\s*(\d+),\s*(\d+),\s*(\d+)\]: "
                     r"\S+ (initial error|initial smoothing|pre-smoothing|"
                     r"post-smoothing|coarsest level)\s*$")
CYCLINE = re.compile(r"after\s+(\d+) ([FVW])-cycles\s+(?:\[.*\]\s+)?(\d) (\d)\s*$")


def case_log(spec, rec):
    import emg3d
    shape = tuple(spec['shape'])
    h = [np.ones(n)*spec['h'] for n in shape]
    grid = emg3d.TensorMesh(h, (0, 0, 0))
    model = emg3d.Model(grid, 1.0, 2.0, 3.0)
    sf = gen.random_field(grid, spec['seed'], 1.0, salt=6)
    sc_pat = pattern(spec['sc'], [1, 2, 3])
    lr_pat = pattern(spec['lr'], [4, 5, 6])
    nus = tuple(spec['nus'])
    ssl = spec.get('ssl', False)
    if ssl and nus[0] != 0:
        raise HarnessError("preconditioner mode needs nu_init=0")
    with contextlib.redirect_stdout(io.StringIO()), warnings.catch_warnings():
        if ssl:
            # scipy's own break-down arithmetic (e.g. gcrotmk 1/0)
            warnings.simplefilter('ignore', RuntimeWarning)
        _, info = emg3d.solve(
            model, sf, sslsolver=ssl, semicoarsening=spec['sc'],
            linerelaxation=spec['lr'], cycle=spec['cycle'],
            clevel=spec['clevel'], nu_init=nus[0], nu_pre=nus[1],
            nu_coarse=nus[2], nu_post=nus[3], maxit=spec['maxit'],
            tol=1e-12, verb=5, return_info=True, log=-1)
    log = info['log']
    n_it = int(info['it_mg'])
    exp, per_it, n0 = reference(shape, spec['cycle'], sc_pat, lr_pat,
                               spec['clevel'], nus, n_it)
    got = _parse_gs_lines(log)
    cyc = _parse_cycle_lines(log)
    # the log prints every executed smoothing phase (incl. nu_coarse=0)
    # (level, shape, phase, it, cycmax)
    expl = [(e[1], e[2], e[5], e[6], e[7]) for e in exp if e[0] == 'smooth']
    if ssl:
        # as preconditioner, a call may end before its last cycle (converged)
        # and the printed `it` restarts with every call: compare what the
        # property names (level, level shape, phase) for the it_mg cycles
        got = [g[:3] for g in got]
        expl = [e[:3] for e in expl]
    _compare(spec, got, expl, 'log_ssl' if ssl else 'log')
    expc = [(i+1, spec['cycle'], lr, sc)
            for i, (_, lr, sc) in enumerate(per_it)]
    if cyc != expc:
        raise Violation("cycle_line_lr_sc",
                        f"per-cycle lines {cyc} != expected {expc}; "
                        f"spec {spec}")
    # QC figure and header
    moves = walk_levels(exp[:n0])
    maxl = max([m[1] for m in moves], default=0)
    fig = _parse_figure(log)
    if n_it >= 1 and fig != figure(moves, maxl):
        raise Violation(f"qc_figure:cycle={spec['cycle']}",
                        f"figure {fig} != expected {figure(moves, maxl)}; "
                        f"spec {spec}")
    _header_checks(spec, log, shape, spec['clevel'])
    bottoms = [b for b, _, _ in per_it]
    rec.cls(f"cycle={spec['cycle']}", f"iterations={min(n_it, 5)}",
            f"exit={info['exit_message'][:9]}",
            f"bottom={max(bottoms) if bottoms else 0}", f"ssl={ssl}")
    if n_it >= 1 and max(bottoms) >= 1:
        key = ['log', list(shape), spec['cycle'], spec['sc'], spec['lr'],
               spec['clevel'], list(nus)]
        rec.nt(key + [ssl] if ssl else key)
    rec.note({'shape': list(shape), 'it_mg': n_it,
              'log_lines': len(got), 'exit': info['exit_message']})


# ------------------------------------------------------------ drivers
SC_VALUES = [0, 1, 2, 3, True, 12, 1213, 3210]
LR_VALUES = [0, 1, 2, 3, 4, 5, 6, 7, True, 1213, 4567]
CLEVELS = [-1, 0, 1, 2, 5]
# "beyond the deepest level" stand-ins for clevel=5 on the small shapes, and
# the limits used for the deep (n,2,2) lines / plates
CLEVELS_HIGH = [5, 3, 100, 4, 9, 7, 10]
CLEVELS_DEEP = [-1, 0, 1, 2, 5, 3, 4, 7, 9, 100]
ENUM_VERBS = [4, -1, -1, 2, -1, 5, -1, 4, 0, -1, 3, -1, -1, 1]


def covering_configs(k, clevels=CLEVELS):
    """A pairwise-covering-style subset of (sc, lr, clevel), rotated by k so
    that over many shapes the full product is visited."""
    out = []
    for i, sc in enumerate(SC_VALUES):
        lr = LR_VALUES[(i*3 + k) % len(LR_VALUES)]
        cl = clevels[(i + k) % len(clevels)]
        out.append((sc, lr, cl))
    for i, lr in enumerate(LR_VALUES):
        sc = SC_VALUES[(i*5 + k + 1) % len(SC_VALUES)]
        cl = clevels[(i*2 + k + 3) % len(clevels)]
        out.append((sc, lr, cl))
    return out


def enum_specs(shapes, full=False, deep=False):
    k = 0
    for shape in shapes:
        k += 1
        if full:
            cfgs = itertools.product(SC_VALUES, LR_VALUES, CLEVELS)
        else:
            cfgs = covering_configs(k, CLEVELS_DEEP if deep else CLEVELS)
        lev = max(halvings(n) for n in shape)
        for j, (sc, lr, cl) in enumerate(cfgs):
            if deep and (k+j) % 4 == 0:
                # limit next to the deepest possible level of this shape
                cl = max(0, lev - 1 + (k+j)//4 % 3)
            elif cl == 5 and not full:
                cl = CLEVELS_HIGH[(k+j) % len(CLEVELS_HIGH)]
            # documented spelling `False` of "no semicoarsening / no line
            # relaxation"
            if sc == 0 and (k+j) % 2 == 0 and not full:
                sc = False
            if lr == 0 and (k+j) % 2 == 1 and not full:
                lr = False
            for c, cycle in enumerate('VWF'):
                npat = max(len(pattern(sc, [1, 2, 3])),
                           len(pattern(lr, [4, 5, 6])))
                maxit = 2*npat if npat > 1 else 1 + (j % 2)
                if deep and cycle == 'W' and (lev if cl < 0 else
                                              min(lev, cl)) >= 6:
                    maxit = min(maxit, 2)    # cost
                yield {'shape': list(shape), 'cycle': cycle, 'sc': sc,
                       'lr': lr, 'clevel': cl,
                       'nus': [(k+j) % 2, 1 + (j % 2), 1, 1 + ((k+c) % 2)],
                       'maxit': maxit,
                       'verb': ENUM_VERBS[(k+j+c) % 7 + 7*((k+j+c)//7 % 2)]}


def ssl_enum_specs(shapes):
    """Preconditioner mode: small covering enumeration (bicgstab, spelled
    True / 'bicgstab' / omitted = the default, and cgs)."""
    k = 0
    for shape in shapes:
        for j, (sc, lr, cl) in enumerate(covering_configs(k)):
            k += 1
            spec = {'shape': list(shape), 'cycle': 'VWF'[k % 3], 'sc': sc,
                    'lr': lr, 'clevel': cl,
                    'nus': [0, (k//2) % 3, 1, 1 + k % 2],
                    'maxit': 1 + k % 3,
                    'verb': [-1, 4, -1, 5, -1, 2][k % 6],
                    'ssl': [True, 'bicgstab', 'cgs', True][k % 4],
                    'omit': ['sslsolver'] if k % 8 == 3 else []}
            yield spec


PLATE_N = [48, 64, 80, 96, 128, 192, 256]
ARGNAMES = ['semicoarsening', 'linerelaxation', 'cycle', 'clevel', 'nu_init',
            'nu_pre', 'nu_coarse', 'nu_post']


def _digits(hi, lead):
    return st.lists(st.integers(0, hi), min_size=2, max_size=5).map(
        lambda d: int(''.join(map(str, d))) if d[0] != 0 else
        int(lead + ''.join(map(str, d))))


def _finish(spec):
    """Deterministic clean-up of a drawn spec (keeps cost and documented
    admissibility)."""
    spec = dict(spec)
    omit = list(spec['omit'])
    ssl = spec['ssl']
    if ssl is False:
        # the default of sslsolver is True: it may be left out only together
        # with plain=True (documented shortcut)
        if 'sslsolver' in omit and not spec['plain']:
            omit.remove('sslsolver')
    else:
        if ssl is not True and 'sslsolver' in omit:
            omit.remove('sslsolver')
        if ssl is True:
            # plain=True would turn sslsolver=True into False
            spec['plain'] = False
        spec['nus'] = [0] + list(spec['nus'][1:])
        spec['maxit'] = 1 + (spec['maxit'] - 1) % 3
        # solve's docstring announces an extra plain multigrid cycle when an
        # initial efield is combined with an sslsolver; the code has none:
        # no oracle on that combination
        spec['efield'] = False
        if ssl == 'gcrotmk':
            spec['maxit'] = 1
    spec['omit'] = sorted(omit)
    lev = [halvings(n) for n in spec['shape']]
    cl = -1 if 'clevel' in omit else spec['clevel']
    deep = max(lev) if cl < 0 else min(max(lev), cl)
    cyc = 'F' if 'cycle' in omit else spec['cycle']
    if spec['maxit'] > 9 and (deep > 2 and not (cyc == 'V' and deep <= 4)):
        spec['maxit'] = 1 + (spec['maxit'] - 1) % 9
    if deep > 5 and cyc != 'V' and spec['maxit'] > 3:
        spec['maxit'] = 1 + (spec['maxit'] - 1) % 3
    return spec


def random_spec(maxn, ssl=False):
    pat_sc = st.one_of(st.sampled_from(SC_VALUES + [False]), _digits(3, '1'))
    pat_lr = st.one_of(st.sampled_from(LR_VALUES + [False]), _digits(7, '7'))
    n = st.one_of(st.integers(2, maxn),
                  st.sampled_from([2, 4, 8, 16, 32, 12, 24, 20, 40, 6, 10]))
    cube = st.tuples(n, n, n).map(list)
    # two deep directions of unequal depth, one shallow
    plate = st.tuples(st.sampled_from(PLATE_N),
                      st.one_of(st.integers(2, 40), st.sampled_from(
                          [8, 12, 16, 20, 24, 32, 40, 48, 64])),
                      st.sampled_from([2, 3, 4, 6]),
                      st.permutations([0, 1, 2])).map(
        lambda t: [t[:3][i] for i in t[3]])
    if ssl:
        shape = cube
        sslv = st.sampled_from([True]*5 + ['bicgstab']*2 + ['cgs']*4 +
                               ['gcrotmk'])
        omit = st.lists(st.sampled_from(ARGNAMES + ['sslsolver']*4),
                        unique=True, max_size=3)
        verb = st.sampled_from([-1, -1, 0, 1, 2, 3, 4, 4, 5])
    else:
        shape = st.tuples(st.integers(0, 11), cube, plate).map(
            lambda t: t[2] if t[0] == 0 else t[1])
        sslv = st.just(False)
        omit = st.one_of(st.just([]), st.lists(
            st.sampled_from(ARGNAMES + ['sslsolver']), unique=True,
            max_size=4))
        verb = st.sampled_from([-1, -1, 0, 1, 2, 3, 4, 4, 5])
    return st.fixed_dictionaries({
        'shape': shape,
        'cycle': st.sampled_from(['V', 'W', 'F']),
        'sc': pat_sc, 'lr': pat_lr,
        'clevel': st.one_of(st.sampled_from([-1, -1, 0, 1, 2, 3, 5, 100]),
                            st.integers(-1, 10)),
        'nus': st.tuples(st.integers(0, 3), st.integers(0, 3),
                         st.integers(0, 3), st.integers(0, 3)).map(list),
        'maxit': st.one_of(st.integers(1, 9), st.integers(1, 9),
                           st.integers(10, 40)),
        'verb': verb,
        'ssl': sslv,
        'plain': st.sampled_from([False, False, False, True]),
        'omit': omit,
        'efield': st.sampled_from([False, False, True]),
        'freq': st.sampled_from([1.0, 1.0, -2.0]),
        'case': st.sampled_from([0, 0, 1, 2, 3]),
    }).map(_finish)


def log_spec():
    n = st.sampled_from([2, 3, 4, 5, 6, 8, 8, 10, 12, 16, 16, 20, 24])

    def fin(spec):
        if spec['ssl'] is not False:
            spec = dict(spec, nus=[0] + list(spec['nus'][1:]),
                        maxit=1 + (spec['maxit'] - 1) % 3)
            if spec['ssl'] == 'gcrotmk':
                spec['maxit'] = 1
        return spec
    return st.fixed_dictionaries({
        'shape': st.tuples(n, n, n).map(list).filter(
            lambda s: np.prod(s) <= 3000),
        'h': st.sampled_from([10.0, 100.0, 1000.0]),
        'cycle': st.sampled_from(['V', 'W', 'F']),
        'sc': st.sampled_from(SC_VALUES + [123, 20]),
        'lr': st.sampled_from(LR_VALUES + [70, 456]),
        'clevel': st.sampled_from([-1, -1, 0, 1, 2, 5]),
        'nus': st.tuples(st.integers(0, 2), st.integers(0, 3),
                         st.integers(0, 2), st.integers(0, 3)).map(list),
        'maxit': st.integers(1, 7),
        'seed': gen.SEED,
        'ssl': st.sampled_from([False, False, False, False, True, True, 'cgs',
                                'gcrotmk']),
    }).map(fin)


SUBS = {'skeleton_enum': case_skeleton, 'skeleton_random': case_skeleton,
        'skeleton_lines': case_skeleton, 'skeleton_ssl': case_skeleton,
        'log': case_log}

PLATES_QUICK = [(64, 32, 2), (128, 48, 3), (96, 2, 20), (2, 80, 24)]


def run(ctx):
    ctx.regression(SUBS)
    if ctx.quick:
        rng_n = range(2, 10)
        shapes = list(itertools.product(rng_n, repeat=3))
        ctx.enumerate('skeleton_enum', list(enum_specs(shapes)),
                      case_skeleton, exhaustive=True)
        lines = [s for n in [16, 24, 32, 40, 48, 64, 96, 128, 160, 256, 384,
                             512, 640, 768, 1024, 1022, 1023]
                 for s in ((n, 2, 2), (2, n, 2), (2, 2, n))]
        ctx.enumerate('skeleton_lines',
                      list(enum_specs(lines + PLATES_QUICK, deep=True)),
                      case_skeleton, exhaustive=False)
        ctx.explore('skeleton_random', random_spec(40), case_skeleton,
                    ctx.n(1500, 1500))
        ssl_shapes = [(2, 2, 2), (8, 6, 4), (5, 12, 16), (16, 2, 8),
                      (32, 4, 12)]
        ctx.enumerate('skeleton_ssl', list(ssl_enum_specs(ssl_shapes)),
                      case_skeleton, exhaustive=False)
        ctx.explore('skeleton_ssl', random_spec(24, ssl=True), case_skeleton,
                    ctx.n(180, 1500))
        ctx.explore('log', log_spec(), case_log, ctx.n(60, 200))
    else:
        shapes = list(itertools.product(range(2, 41), repeat=3))
        ctx.enumerate('skeleton_enum', enum_specs(shapes), case_skeleton,
                      exhaustive=True)
        lines = [s for n in range(2, 1025)
                 for s in ((n, 2, 2), (2, n, 2), (2, 2, n))]
        ctx.enumerate('skeleton_lines', enum_specs(lines, deep=True),
                      case_skeleton, exhaustive=True)
        plates = [p for n in PLATE_N for m in range(2, 41, 3)
                  for kk in (2, 3, 4, 6)
                  for p in ((n, m, kk), (kk, n, m), (m, kk, n))]
        ctx.enumerate('skeleton_lines', enum_specs(plates, deep=True),
                      case_skeleton, exhaustive=False)
        # complete (sc, lr, clevel) product on all shapes up to 6
        small = list(itertools.product(range(2, 7), repeat=3))
        ctx.enumerate('skeleton_enum', enum_specs(small, full=True),
                      case_skeleton, exhaustive=True)
        ctx.explore('skeleton_random', random_spec(40), case_skeleton,
                    ctx.n(1500, 6000))
        ssl_shapes = list(itertools.product([2, 3, 4, 6, 8, 12, 16],
                                            repeat=3))
        ctx.enumerate('skeleton_ssl', ssl_enum_specs(ssl_shapes),
                      case_skeleton, exhaustive=False)
        ctx.explore('skeleton_ssl', random_spec(32, ssl=True), case_skeleton,
                    ctx.n(250, 1500))
        ctx.explore('log', log_spec(), case_log, ctx.n(60, 200))
    ctx.notes['enumerated_shapes'] = (
        '{2..9}^3' if ctx.quick else '{2..40}^3 + lines n<=1024')

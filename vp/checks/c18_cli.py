"""C18 - the command-line interface is equivalent to the Python API.

A case is a complete CLI invocation on a tiny problem: survey / model (and
possibly simulation) files written into a scratch directory, a configuration
file assembled from (section, key, text) entries and a list of command-line
arguments.  The CLI is executed through `emg3d.cli.main.main(args)`
(in-process) or `python -m emg3d` (sub-sample); the reference is produced by
the checker, which reads the very same entries with its *own* table of the
documented options (docs/manual/cli.rst -> type and Python-API argument) and
calls the Python API.
"""
import contextlib
import glob
import io
import json
import logging
import os
import re
import shutil
import subprocess
import sys
import tempfile
import traceback
import warnings

import numpy as np
from hypothesis import strategies as st

from vp import gen
from vp.framework import (EMG3D_DIR, REPO, VERIF, HarnessError, Inconclusive,
                          Violation)

RULE = ("A case = tiny problem (8x8x8 model in one of 3 mappings, iso/VTI/"
        "HTI/triaxial; 1-3 named sources of 4 types, 2-3 receivers, 1-3 "
        "frequencies; observed data with a NaN pattern; scalar noise floor / "
        "relative error) written in h5/npz/json + configuration file built "
        "from entries of the checker's transcription of docs/manual/cli.rst "
        "(58 documented keys of the sections files, simulation, solver_opts, "
        "gridding_opts, noise_opts, data, layered) + command-line flags "
        "(-f/-m/-g, -n, -l, -d, -v/-q/--verbosity, --path/--survey/--model/"
        "--output/--save/--load/--cache/--clean).  Sub-checks: `single` "
        "enumerates every documented key alone (first with the literal "
        "example of cli.rst, then with generated non-default values) in a "
        "fixed context; `combo` draws random combinations of keys, flags, "
        "formats and functions, incl. load/save/cache/clean and dry runs; "
        "`override` puts conflicting values in file and command line; "
        "`reject` adds one unknown key / section / flag; `subproc` repeats "
        "combo cases through `python -m emg3d`.  Oracle: checker-side table "
        "maps the entries to Simulation/solve/construct_mesh/add_noise/"
        "select/extract_1d arguments, the API is run on the same files and "
        "its results are written/read with the same emg3d.save/load format: "
        "data, misfit, n_observations, gradient bit-identical (with noise: "
        "identical NaN pattern and the deterministic identity of the noise "
        "type), saved simulation equal, dry-run = zeros of the API shapes, "
        "errors only where the API raises the same error.  Added after the "
        "blind-spot audit: (1) stored simulations built from ANOTHER variant "
        "of the problem (other model, one receiver less; states plain/"
        "computed/misfit) than the survey and model files, so --load "
        "(files ignored) and --clean (computed data removed + model file "
        "put in) each have a result of their own; (2) gridding_opts single "
        "cases and automatic-gridding combos always --save, and for dry / "
        "forced-dry runs the grids (Simulation.get_grid: shape, origin, "
        "widths) of the re-loaded CLI and API simulations are compared; "
        "(3) override items cache_load / cache_save: cache together with a "
        "different load / save (both in the file, both on the command line, "
        "cache on the command line over load/save in the file): the cache "
        "file is read and written, the other one neither read, overwritten "
        "nor created; (4) reject: unknown key for every section x {as in "
        "the context, alone in its section, among 1-3 valid keys at a "
        "random position}, also with --load/--cache; (5) long aliases "
        "--nproc/--layered/--verbose/--quiet, repeated -v (-vvv, -v -v), "
        "--option=value; (6) lay-out of the file: the template of cli.rst "
        "verbatim with exactly the generated keys un-commented (also "
        "nothing un-commented), sections permuted, known sections without "
        "keys, full-line # comments and blank lines between keys.  "
        "Non-trivial = "
        "real (not dry) run with >=1 documented option beyond the context "
        "whose CLI result equals the API result; distinct by (config "
        "entries, flags, function, problem digest).")
ASSUMPTIONS = [
    "the checker's table (section/key -> type, API argument) is a faithful "
    "transcription of docs/manual/cli.rst; run() verifies that the set of "
    "documented keys parsed from the rst of the tree under test equals the "
    "table (harness error otherwise)",
    "API equivalents: [simulation]/[solver_opts]/[gridding_opts]/[layered] "
    "-> Simulation(max_workers, gridding, name, file_dir, "
    "receiver_interpolation, layered, solver_opts, gridding_opts "
    "(cell_number -> cell_numbers), layered_opts{method, merge, "
    "ellipse{radius, factor, minor, check_foci}}); [noise_opts] -> "
    "compute(observed=True, **opts) for --forward only; [data] -> "
    "Survey.select(..., remove_empty=False unless given); --load -> "
    "Simulation.from_file, --clean -> sim.clean('computed') + model "
    "replaced, -l on a loaded simulation -> sim.layered = True",
    "for --gradient without receiver_interpolation the CLI uses 'linear' "
    "(parser comment; cli.rst: 'Set it to <linear> for the gradient')",
    "Simulation(verb=-1, tqdm_opts=False) are CLI-internal and do not "
    "change results; `verb` / `tqdm_opts` of a saved simulation are not "
    "compared; solver-info timing entries are not compared",
    "emg3d.utils.Report (scooby, 0.3 s, log file only) is replaced by a "
    "stub for in-process runs; the subprocess sub-sample runs it unpatched",
    "numbers inside list-valued gridding options are compared by value "
    "(5 == 5.0, [50.0] == 50); scalar options documented as int/bool are "
    "compared by value and kind",
    "an error raised identically (same exception type) by the equivalent "
    "API call is equivalence, not a violation (class both_raise)",
    "emg3d.save/load of the result dictionaries is symmetric for CLI and "
    "reference (same format), so C17 round-trip defects cancel",
    "a known section without keys (what the documented template gives when "
    "nothing is un-commented), the order of the sections, full-line # "
    "comments and blank lines have no meaning (reference ignores them)",
    "cache given in the file together with --load/--save on the command "
    "line is not generated (the two documented precedence rules conflict); "
    "-n < 1 is not generated (not documented as valid input); console "
    "output per verbosity level is not compared (levels not documented)",
    "unknown options must be rejected also when a stored simulation is "
    "loaded; any error ending the run without an output file counts as a "
    "rejection (message text not demanded)",
]
SHARDS = {'quick': 1, 'thorough': 16}

_tb = os.path.join(VERIF, '.cache', 'tmp')
try:
    os.makedirs(_tb, exist_ok=True)
    TMPBASE = _tb
except OSError:                                      # pragma: no cover
    TMPBASE = tempfile.gettempdir()

FORMATS = ['h5', 'npz', 'json']
MAXCELLS = 30000       # larger automatic grids are executed as dry run

# ======================================================================
# 1. The checker's table of documented options (docs/manual/cli.rst)
# ======================================================================
# (section, key): (kind, destination, API name)
#   kind: str, int, float, bool, nums (comma list of numbers), ints,
#         lol (';'-separated list of comma lists / None), names
TABLE = {
    ('files', 'path'): ('str', 'files', 'path'),
    ('files', 'survey'): ('str', 'files', 'survey'),
    ('files', 'model'): ('str', 'files', 'model'),
    ('files', 'output'): ('str', 'files', 'output'),
    ('files', 'save'): ('str', 'files', 'save'),
    ('files', 'load'): ('str', 'files', 'load'),
    ('files', 'cache'): ('str', 'files', 'cache'),
    ('simulation', 'max_workers'): ('int', 'sim', 'max_workers'),
    ('simulation', 'gridding'): ('str', 'sim', 'gridding'),
    ('simulation', 'name'): ('str', 'sim', 'name'),
    ('simulation', 'file_dir'): ('str', 'sim', 'file_dir'),
    ('simulation', 'receiver_interpolation'): (
        'str', 'sim', 'receiver_interpolation'),
    ('simulation', 'layered'): ('bool', 'sim', 'layered'),
    ('solver_opts', 'sslsolver'): ('bool', 'solver_opts', 'sslsolver'),
    ('solver_opts', 'semicoarsening'): (
        'bool', 'solver_opts', 'semicoarsening'),
    ('solver_opts', 'linerelaxation'): (
        'bool', 'solver_opts', 'linerelaxation'),
    ('solver_opts', 'cycle'): ('str', 'solver_opts', 'cycle'),
    ('solver_opts', 'tol'): ('float', 'solver_opts', 'tol'),
    ('solver_opts', 'tol_gradient'): ('float', 'solver_opts', 'tol_gradient'),
    ('solver_opts', 'verb'): ('int', 'solver_opts', 'verb'),
    ('solver_opts', 'maxit'): ('int', 'solver_opts', 'maxit'),
    ('solver_opts', 'nu_init'): ('int', 'solver_opts', 'nu_init'),
    ('solver_opts', 'nu_pre'): ('int', 'solver_opts', 'nu_pre'),
    ('solver_opts', 'nu_coarse'): ('int', 'solver_opts', 'nu_coarse'),
    ('solver_opts', 'nu_post'): ('int', 'solver_opts', 'nu_post'),
    ('solver_opts', 'clevel'): ('int', 'solver_opts', 'clevel'),
    ('solver_opts', 'plain'): ('bool', 'solver_opts', 'plain'),
    ('gridding_opts', 'properties'): ('nums', 'gridding_opts', 'properties'),
    ('gridding_opts', 'center'): ('nums', 'gridding_opts', 'center'),
    ('gridding_opts', 'cell_number'): (
        'ints', 'gridding_opts', 'cell_numbers'),
    ('gridding_opts', 'min_width_pps'): (
        'nums', 'gridding_opts', 'min_width_pps'),
    ('gridding_opts', 'domain'): ('lol', 'gridding_opts', 'domain'),
    ('gridding_opts', 'distance'): ('lol', 'gridding_opts', 'distance'),
    ('gridding_opts', 'stretching'): ('lol', 'gridding_opts', 'stretching'),
    ('gridding_opts', 'min_width_limits'): (
        'lol', 'gridding_opts', 'min_width_limits'),
    ('gridding_opts', 'mapping'): ('str', 'gridding_opts', 'mapping'),
    ('gridding_opts', 'vector'): ('str', 'gridding_opts', 'vector'),
    ('gridding_opts', 'frequency'): ('float', 'gridding_opts', 'frequency'),
    ('gridding_opts', 'seasurface'): ('float', 'gridding_opts', 'seasurface'),
    ('gridding_opts', 'max_buffer'): ('float', 'gridding_opts', 'max_buffer'),
    ('gridding_opts', 'lambda_factor'): (
        'float', 'gridding_opts', 'lambda_factor'),
    ('gridding_opts', 'verb'): ('int', 'gridding_opts', 'verb'),
    ('gridding_opts', 'lambda_from_center'): (
        'bool', 'gridding_opts', 'lambda_from_center'),
    ('noise_opts', 'add_noise'): ('bool', 'noise', 'add_noise'),
    ('noise_opts', 'min_offset'): ('float', 'noise', 'min_offset'),
    ('noise_opts', 'max_offset'): ('float', 'noise', 'max_offset'),
    ('noise_opts', 'mean_noise'): ('float', 'noise', 'mean_noise'),
    ('noise_opts', 'ntype'): ('str', 'noise', 'ntype'),
    ('data', 'sources'): ('names', 'select', 'sources'),
    ('data', 'receivers'): ('names', 'select', 'receivers'),
    ('data', 'frequencies'): ('names', 'select', 'frequencies'),
    ('data', 'remove_empty'): ('bool', 'select', 'remove_empty'),
    ('layered', 'method'): ('str', 'layered_opts', 'method'),
    ('layered', 'radius'): ('float', 'ellipse', 'radius'),
    ('layered', 'factor'): ('float', 'ellipse', 'factor'),
    ('layered', 'minor'): ('float', 'ellipse', 'minor'),
    ('layered', 'merge'): ('bool', 'layered_opts', 'merge'),
    ('layered', 'check_foci'): ('bool', 'ellipse', 'check_foci'),
}
SECTIONS = ['files', 'simulation', 'solver_opts', 'gridding_opts',
            'noise_opts', 'data', 'layered']
# Parsed by emg3d but not documented in cli.rst (deprecated / undocumented):
# never generated, neither as option nor as "unknown" key.
UNDOCUMENTED = {('gridding_opts', 'expand'), ('gridding_opts', 'center_on_edge'),
                ('simulation', 'min_offset'), ('simulation', 'max_offset'),
                ('simulation', 'mean_noise'), ('simulation', 'ntype')}
FILE_KEYS = ['path', 'survey', 'model', 'output', 'save', 'load', 'cache']
FILE_DEFAULTS = {'survey': 'survey', 'model': 'model', 'output': 'emg3d_out'}
TERM_FLAGS = {'nproc': '-n', 'path': '--path', 'survey': '--survey',
              'model': '--model', 'output': '--output', 'save': '--save',
              'load': '--load', 'cache': '--cache'}


class Unreadable(Exception):
    """The checker's reader cannot interpret a value text (checker error)."""


def _num(t):
    t = t.strip()
    if re.fullmatch(r'[+-]?\d+', t):
        return int(t)
    if t in ('np.inf', 'inf', '+inf'):
        return float('inf')
    return float(t)


def read_value(kind, text):
    """Checker-side reader of the documented value formats."""
    t = text.strip()
    if kind == 'str':
        return t
    if kind == 'int':
        if not re.fullmatch(r'[+-]?\d+', t):
            raise Unreadable(f"int: {t!r}")
        return int(t)
    if kind == 'float':
        return float(_num(t))
    if kind == 'bool':
        if t.lower() in ('true', 'yes', 'on', '1'):
            return True
        if t.lower() in ('false', 'no', 'off', '0'):
            return False
        raise Unreadable(f"bool: {t!r}")
    if kind == 'nums':
        return [float(_num(v)) for v in t.split(',')]
    if kind == 'ints':
        out = [_num(v) for v in t.split(',')]
        if not all(isinstance(v, int) for v in out):
            raise Unreadable(f"ints: {t!r}")
        return out
    if kind == 'lol':
        out = []
        for p in t.split(';'):
            if p.strip().lower() == 'none':
                out.append(None)
            else:
                out.append([float(_num(v)) for v in p.split(',')])
        if len(out) == 1:
            return out[0]
        if len(out) != 3:
            raise Unreadable(f"list of lists: {t!r}")
        return tuple(out)
    if kind == 'names':
        return [v.strip() for v in t.split(',')]
    raise Unreadable(kind)


# ----------------------------------------------------------------------
# Documented keys and literal examples straight from the rst of the tree
# under test.
_DOC = None


def doc_examples():
    """{(section, key): (literal line text or None, example value or None)}.

    A documented line looks like `  # key = value   # comment`; if the value
    is empty, an example may follow in the comment after `e.g.`."""
    global _DOC
    if _DOC is not None:
        return _DOC
    path = os.path.join(REPO, 'docs', 'manual', 'cli.rst')
    out = {}
    section = None
    inblock = False
    with open(path) as f:
        for line in f:
            if line.startswith('``emg3d.cfg``::'):
                inblock = True
                continue
            if not inblock:
                continue
            if line.strip() and not line.startswith('  '):
                break
            m = re.match(r'^\s*\[(\w+)\]\s*$', line)
            if m:
                section = m.group(1)
                continue
            m = re.match(r'^\s*#\s([a-z_]+)\s*=(.*)$', line)
            if not m or section is None:
                continue
            key, rest = m.group(1), m.group(2)
            value, _, comment = rest.partition('#')
            value = value.strip()
            literal = None
            if value:
                literal = f"{key} ={rest.rstrip()}"
            else:
                m2 = re.search(r'e\.g\.[:,]\s*(.+)$', comment)
                if m2:
                    value = m2.group(1).strip()
                    literal = f"{key} = {value}"
                else:
                    value = None
            out[(section, key)] = (literal, value)
    _DOC = out
    return out


# ======================================================================
# 2. Problems (survey / model / simulation files)
# ======================================================================
SRC_TYPES = ['ED', 'MD', 'EP', 'EW']
REC_TYPES = ['EP', 'MP']
# the problem on which every literal example of cli.rst makes sense
DOC_PROBLEM = {
    'seed': 7, 'src': [['TxED-02', 'ED'], ['TxMD-08', 'MD'],
                       ['TxEW-14', 'EW']],
    'rec': [['RxEP-01', 'EP'], ['RxMP-10', 'MP'], ['RxEP-03', 'EP']],
    'freq': [['f-1', 1.0], ['f-3', 2.0]],
    'case': 'isotropic', 'mapping': 'Resistivity', 'nan': 'rec',
    'nf': 1e-12, 're': 0.05,
}
# same without the wire source (layered computations: points/dipoles only)
LAY_PROBLEM = dict(DOC_PROBLEM, src=[['TxED-02', 'ED'], ['TxMD-08', 'MD']])
# one source-frequency pair (keys whose effect does not need more)
SMALL_PROBLEM = dict(DOC_PROBLEM, src=[['TxED-02', 'ED']],
                     freq=[['f-1', 1.0]])
# two sources x two frequencies (source-/frequency-dependent gridding)
MID_PROBLEM = dict(DOC_PROBLEM, src=[['TxED-02', 'ED'], ['TxEW-14', 'EW']])


@st.composite
def problem_spec(draw, layered=False):
    nsrc = draw(st.sampled_from([1, 1, 2, 2, 3]))
    nrec = draw(st.sampled_from([2, 2, 3]))
    nfreq = draw(st.sampled_from([1, 1, 2]))
    stypes = ['ED', 'MD', 'EP'] if layered else SRC_TYPES
    src = []
    for i in range(nsrc):
        t = draw(st.sampled_from(stypes))
        src.append([f"Tx{t}-{i+1}", t])
    rec = []
    for i in range(nrec):
        t = draw(st.sampled_from(REC_TYPES))
        rec.append([f"Rx{t}-{i+1}", t])
    fr = draw(st.lists(st.sampled_from([0.5, 1.0, 1.5, 2.0, 3.0]),
                       min_size=nfreq, max_size=nfreq, unique=True))
    freq = [[f"f-{i+1}", f] for i, f in enumerate(fr)]
    cases = ['isotropic', 'VTI'] if layered else gen.CASES
    return {
        'seed': draw(st.integers(0, 2**31-1)),
        'src': src, 'rec': rec, 'freq': freq,
        'case': draw(st.sampled_from(cases)),
        'mapping': draw(st.sampled_from(
            ['Resistivity', 'Conductivity', 'LgResistivity'])),
        'nan': draw(st.sampled_from(
            ['none', 'entry', 'rec', 'freq', 'src', 'mixed'])),
        'nf': draw(st.sampled_from([None, 1e-12, 3e-9])),
        're': draw(st.sampled_from([None, 0.05, 0.1])),
    }


def _mk_source(emg3d, t, rng):
    x, y = rng.uniform(-250, 250, 2)
    z = rng.uniform(-250, -50)
    az, el = rng.uniform(-180, 180), rng.uniform(-60, 60)
    if t == 'ED':
        return emg3d.TxElectricDipole((x, y, z, az, el))
    if t == 'MD':
        return emg3d.TxMagneticDipole((x, y, z, az, el))
    if t == 'EP':
        return emg3d.TxElectricPoint((x, y, z, az, el))
    if t == 'EW':
        pts = np.array([[x-60, y-20, z], [x, y+30, z-20], [x+50, y, z+10]])
        return emg3d.TxElectricWire(pts)
    raise HarnessError(t)


def _mk_receiver(emg3d, t, rng):
    x, y = rng.uniform(-300, 300, 2)
    z = rng.uniform(-300, -50)
    az, el = rng.uniform(-180, 180), rng.uniform(-60, 60)
    cls = {'EP': emg3d.RxElectricPoint, 'MP': emg3d.RxMagneticPoint}[t]
    return cls((x, y, z, az, el))


def build_objects(prob, variant=0):
    """(survey, model) of a problem spec; `variant` gives other contents
    (different values, and for the survey one receiver less) so that the
    file that was actually read can be told from the results."""
    import emg3d
    rng = gen.rng_of(prob['seed'], 100+variant)
    hx = np.ones(8)*100.0
    grid = emg3d.TensorMesh([hx, hx, hx], origin=(-400, -400, -600))
    shape = grid.shape_cells

    def blocks():
        lg = np.full(shape, rng.uniform(-0.5, 0.5))
        for _ in range(3):
            lo = [int(rng.integers(0, n)) for n in shape]
            hi = [int(rng.integers(a+1, n+1)) for a, n in zip(lo, shape)]
            lg[lo[0]:hi[0], lo[1]:hi[1], lo[2]:hi[2]] = rng.uniform(-0.5, 0.5)
        return 10.0**lg       # conductivity 0.3 .. 3 S/m
    case = prob['case']
    sx = blocks()
    sy = blocks() if case in ('HTI', 'triaxial') else None
    sz = blocks() if case in ('VTI', 'triaxial') else None
    m = prob['mapping']
    model = emg3d.Model(grid, gen.map_forward(m, sx), gen.map_forward(m, sy),
                        gen.map_forward(m, sz), mapping=m)

    rs = gen.rng_of(prob['seed'], 200)      # geometry: same in all variants
    sources = {n: _mk_source(emg3d, t, rs) for n, t in prob['src']}
    recs = prob['rec'][:-1] if variant else prob['rec']
    allrec = {n: _mk_receiver(emg3d, t, rs) for n, t in prob['rec']}
    receivers = {n: allrec[n] for n, _ in recs}
    freqs = {n: float(f) for n, f in prob['freq']}
    shp = (len(sources), len(receivers), len(freqs))
    mag = 10.0**rng.uniform(-10, -8, shp)
    obs = mag*np.exp(1j*rng.uniform(0, 2*np.pi, shp))
    nan = prob['nan']
    bad = np.nan + 1j*np.nan
    if nan in ('entry', 'mixed'):
        obs[0, 0, 0] = bad
    if nan in ('rec', 'mixed'):
        obs[:, -1, :] = bad
    if nan == 'freq':
        obs[:, :, -1] = bad
    if nan == 'src':
        obs[-1, :, :] = bad
    survey = emg3d.Survey(sources, receivers, freqs, data=obs,
                          noise_floor=prob['nf'],
                          relative_error=prob['re'],
                          name=f"survey-{variant}")
    return survey, model


CONTEXT_SOLVER = {'plain': True, 'tol': 1e-3}


def write_files(prob, files, workdir):
    """files: list of [relative path, kind, variant(, state, layered)]."""
    import emg3d
    cache = {}

    def objs(variant):
        if variant not in cache:
            cache[variant] = build_objects(prob, variant)
        return cache[variant]
    for entry in files:
        rel, kind, variant = entry[:3]
        fn = os.path.join(workdir, rel)
        os.makedirs(os.path.dirname(fn), exist_ok=True)
        survey, model = objs(variant)
        if kind == 'survey':
            emg3d.save(fn, survey=survey, verb=0)
        elif kind == 'model':
            emg3d.save(fn, model=model, verb=0)
        elif kind == 'sim':
            state = entry[3]
            layered = bool(entry[4]) if len(entry) > 4 else False
            sim = emg3d.Simulation(
                survey.copy(), model, max_workers=1, gridding='same',
                solver_opts=dict(CONTEXT_SOLVER), verb=-1, tqdm_opts=False,
                name=f"stored-{variant}", layered=layered,
                receiver_interpolation='linear')
            if state in ('computed', 'misfit'):
                sim.compute()
            if state == 'misfit':
                _ = sim.misfit
            sim.to_file(fn, verb=0)
        elif kind == 'dir':
            os.makedirs(fn, exist_ok=True)
        else:
            raise HarnessError(f"file kind {kind}")


# ======================================================================
# 3. Running the CLI
# ======================================================================
class _ReportStub:
    def __repr__(self):
        return "report replaced by the C18 checker (in-process run)"


def _where(e):
    """innermost frame inside the code under test, 'file:func'."""
    inner = None
    for fr in traceback.extract_tb(e.__traceback__):
        if os.path.realpath(fr.filename).startswith(EMG3D_DIR):
            inner = fr
    if inner is None:
        return None
    rel = os.path.relpath(os.path.realpath(inner.filename), REPO)
    return f"{rel}:{inner.name}"


def _reset_logging():
    logging.captureWarnings(False)
    for name in ('py.warnings', 'emg3d.cli.run'):
        lg = logging.getLogger(name)
        for h in lg.handlers[:]:
            lg.removeHandler(h)
            try:
                h.close()
            except Exception:                        # pragma: no cover
                pass


def _entry_line(key, text, deco):
    if deco == 'raw':                 # literal line of cli.rst
        return text
    if deco == 'comment':
        return f"{key} = {text}   # some comment"
    if deco == 'tight':
        return f"{key}={text}"
    if deco == 'spaced':
        # blanks around every separator (the documented formats are
        # comma / semicolon separated lists; white space is stripped)
        t2 = re.sub(r'\s*;\s*', ' ; ', text)
        t2 = re.sub(r'\s*,\s*', ' , ', t2)
        return f"{key}  =  {t2}"
    return f"{key} = {text}"


_TEMPLATE = None


def rst_template():
    """The example configuration file of docs/manual/cli.rst (tree under
    test) as it is meant to be used: the literal block without its
    indentation; "All values are commented out in this example; remove the
    comment signs to use them"."""
    global _TEMPLATE
    if _TEMPLATE is None:
        path = os.path.join(REPO, 'docs', 'manual', 'cli.rst')
        lines, inblock = [], False
        with open(path) as f:
            for line in f:
                if line.startswith('``emg3d.cfg``::'):
                    inblock = True
                    continue
                if not inblock:
                    continue
                if line.strip() and not line.startswith('  '):
                    break
                lines.append(line[2:].rstrip('\n') if line.strip() else '')
        while lines and not lines[0]:
            lines.pop(0)
        while lines and not lines[-1]:
            lines.pop()
        _TEMPLATE = lines
    return list(_TEMPLATE)


def render_config(entries, layout=None):
    """entries: [section, key, text, deco].

    layout None: only the sections that have entries, in order of first
    use.  {'kind': 'rst'}: the documented template, verbatim, in which
    exactly the lines of the given keys are un-commented (their value
    replaced).  {'kind': 'free', 'order': [sections], 'empty': [sections],
    'pattern': int}: sections in the given order, known sections without
    any key (header only or header + commented-out keys), full-line `#`
    comments and blank lines between the keys."""
    layout = layout or {}
    order, by = [], {}
    for sec, key, text, deco in (e[:4] for e in entries):
        if sec not in by:
            by[sec] = []
            order.append(sec)
        by[sec].append((key, _entry_line(key, text, deco)))
    kind = layout.get('kind')
    if kind == 'rst':
        out, sec, last = [], None, {}
        todo = {s: list(v) for s, v in by.items()}
        for line in rst_template():
            m = re.match(r'^\[(\w+)\]\s*$', line)
            if m:
                sec = m.group(1)
            m = re.match(r'^#\s([a-z_]+)\s*=', line)
            if m and sec in todo:
                hit = [x for x in todo[sec] if x[0] == m.group(1)]
                if hit:
                    todo[sec].remove(hit[0])
                    line = hit[0][1]
            out.append(line)
            if sec is not None and line.strip():
                last[sec] = len(out)
        # keys the template does not hold (unknown keys): end of the section
        for sec in sorted(todo, key=lambda x: -last.get(x, 0)):
            rest = [x[1] for x in todo[sec]]
            if not rest:
                continue
            if sec in last:
                out[last[sec]:last[sec]] = rest
            else:
                out += ['', f"[{sec}]"] + rest
        return "\n".join(out) + "\n"
    if kind == 'free':
        pat = int(layout.get('pattern', 0))
        secs = [x for x in layout.get('order', []) if x in by or
                x in layout.get('empty', [])]
        secs += [x for x in order if x not in secs]
        doc = doc_examples()
        out = []
        if pat & 1:
            out += ["# emg3d configuration", "# -------------------", ""]
        for sec in secs:
            if pat & 2:
                out += [f"# Section {sec}", "#"]
            out.append(f"[{sec}]")
            lines = [x[1] for x in by.get(sec, [])]
            if sec not in by and pat & 4:
                # everything of this section still commented out
                lines = [f"# {k} = {doc[(s, k)][1] or ''}".rstrip()
                         for (s, k) in doc if s == sec]
            for i, line in enumerate(lines):
                if pat & 8 and i % 2 == 0 and not line.startswith('#'):
                    out.append("# # A note on the next parameter.")
                out.append(line)
                if pat & 16 and i % 2 == 1:
                    out.append("")
                if pat & 32 and i % 3 == 0:
                    out.append("#")
            out.append("")
        return "\n".join(out)
    out = []
    for sec in order:
        out.append(f"[{sec}]")
        out += [x[1] for x in by[sec]]
        out.append("")
    return "\n".join(out)


# "-v, --verbose: increase verbosity; can be used multiple times",
# "-q, --quiet: decrease verbosity" (emg3d --help)
VERBOSITY_ARGS = {'-q': ['-q'], '-v': ['-v'], '-vv': ['-vv'],
                  '-vvv': ['-vvv'], '-v -v': ['-v', '-v'],
                  '--verbose': ['--verbose'], '--quiet': ['--quiet'],
                  '--verbose --verbose': ['--verbose', '--verbose'],
                  '-vvvv': ['-vvvv']}


def cli_args(spec):
    t = spec.get('term', {})
    args = []
    if spec.get('cfgname', 'emg3d.cfg') != 'emg3d.cfg' or t.get('cfgarg'):
        args.append(spec.get('cfgname', 'emg3d.cfg'))
    fl = {'forward': '-f', 'misfit': '-m', 'gradient': '-g'}
    long = {'forward': '--forward', 'misfit': '--misfit',
            'gradient': '--gradient'}
    fn = spec['function']
    if t.get('fnflag', 'short') == 'short':
        args.append(fl[fn])
    elif t.get('fnflag') == 'long':
        args.append(long[fn])
    # 'none': default function (forward) without flag
    long_ = bool(t.get('long'))       # documented long aliases
    eq = bool(t.get('eq'))            # --option=value (argparse standard)
    for k, flag in TERM_FLAGS.items():
        if t.get(k) is not None:
            if flag == '-n' and long_:
                flag = '--nproc'
            if eq and flag.startswith('--'):
                args.append(f"{flag}={t[k]}")
            else:
                args += [flag, str(t[k])]
    if t.get('layered'):
        args.append('--layered' if long_ else '-l')
    if t.get('clean'):
        args.append('--clean')
    if spec.get('dry'):
        args.append('-d' if t.get('dryflag', 'short') == 'short'
                    else '--dry-run')
    v = t.get('verbosity')
    if v is not None:
        args += VERBOSITY_ARGS.get(v) or (
            [f'--verbosity={v}'] if eq else ['--verbosity', str(v)])
    args += list(t.get('extra', []))
    return args


def run_cli(spec, workdir):
    """-> dict(ok, etype, msg, where, code)."""
    args = cli_args(spec)
    if spec.get('exec') == 'subproc':
        env = dict(os.environ)
        p = subprocess.run([sys.executable, '-m', 'emg3d'] + args,
                           cwd=workdir, env=env, capture_output=True,
                           text=True, timeout=3600)
        if p.returncode == 0:
            return {'ok': True}
        lines = [x for x in p.stderr.strip().splitlines() if x.strip()]
        last = lines[-1] if lines else ''
        where = 'subprocess'
        for m in re.finditer(r'File "([^"]+)", line \d+, in (\S+)',
                             p.stderr):
            fn = os.path.realpath(m.group(1))
            if fn.startswith(EMG3D_DIR):
                where = f"{os.path.relpath(fn, REPO)}:{m.group(2)}" 
        m = re.match(r'^([A-Za-z_][\w.]*)\s*:', last)
        etype = m.group(1).split('.')[-1] if m else 'SystemExit'
        mtype = m
        if lines and lines[0].startswith('usage:'):
            etype = 'SystemExit'
        msg = last.partition(':')[2].strip() if mtype else last
        return {'ok': False, 'etype': etype, 'msg': msg[:300],
                'where': where, 'code': p.returncode}
    import emg3d.utils
    from emg3d.cli.main import main
    old_report = emg3d.utils.Report
    old_argv = sys.argv
    buf = io.StringIO()
    try:
        emg3d.utils.Report = _ReportStub
        sys.argv = ['emg3d'] + args
        with contextlib.redirect_stdout(buf), contextlib.redirect_stderr(buf):
            try:
                main(list(args))
            except SystemExit as e:
                if e.code in (0, None):
                    return {'ok': True}
                return {'ok': False, 'etype': 'SystemExit',
                        'msg': str(e.code)[:300], 'where': _where(e),
                        'code': e.code if isinstance(e.code, int) else 1}
            except Exception as e:
                return {'ok': False, 'etype': type(e).__name__,
                        'msg': str(e)[:300], 'where': _where(e), 'code': 1,
                        'tb': ''.join(traceback.format_exception(
                            type(e), e, e.__traceback__))[-1500:]}
        return {'ok': True}
    finally:
        emg3d.utils.Report = old_report
        sys.argv = old_argv
        _reset_logging()


# ======================================================================
# 4. The reference: checker-side reading of the case + Python API
# ======================================================================
def _resolve(path, name):
    """Documented: relative to path; without ending -> .h5."""
    fn = os.path.join(path, name)
    base, ext = os.path.splitext(fn)
    if ext not in ('.h5', '.npz', '.json'):
        # "If the files are provided without ending the suffix .h5 will be
        # appended" (a dotted name is treated like pathlib's with_suffix)
        fn = base + '.h5'
    return fn


def build_ref(spec, workdir):
    """What the documentation says this invocation means."""
    t = spec.get('term', {})
    ref = {'sim': {}, 'solver_opts': {}, 'gridding_opts': {}, 'noise': {},
           'select': {}, 'layered_opts': {}, 'ellipse': {}, 'files': {},
           'unknown': [], 'present': set()}
    cfile = {}
    for sec, key, text, deco in (e[:4] for e in spec['config']):
        if deco == 'raw':
            text = text.partition('=')[2].partition('#')[0]
        if (sec, key) not in TABLE:
            ref['unknown'].append(f"{sec}.{key}")
            continue
        ref['present'].add((sec, key))
        kind, dest, name = TABLE[(sec, key)]
        val = read_value(kind, text)
        if dest == 'files':
            cfile[name] = val
        else:
            ref[dest][name] = val
    for sec in spec.get('extra_sections', []):
        ref['unknown'].append(f"[{sec}]")
    for x in t.get('extra', []):
        ref['unknown'].append(f"flag {x}")
    # command line overrides the file
    if t.get('nproc') is not None:
        ref['sim']['max_workers'] = max(int(t['nproc']), 1)
    if t.get('layered'):
        ref['sim']['layered'] = True
    files = {}
    path = t.get('path') if t.get('path') is not None else cfile.get(
        'path', '.')
    path = os.path.abspath(os.path.join(workdir, path))
    for k in ['survey', 'model', 'output', 'save', 'load', 'cache']:
        name = t.get(k) if t.get(k) is not None else cfile.get(
            k, FILE_DEFAULTS.get(k))
        files[k] = _resolve(path, name) if name else None
    if files['cache']:           # "cache overrules load and save"
        files['load'] = files['save'] = files['cache']
    files['log'] = os.path.splitext(files['output'])[0] + '.log'
    ref['files'] = files
    return ref


def sim_kwargs(ref, function):
    kw = dict(ref['sim'])
    if ref['solver_opts']:
        kw['solver_opts'] = dict(ref['solver_opts'])
    if ref['gridding_opts']:
        kw['gridding_opts'] = dict(ref['gridding_opts'])
    lo = dict(ref['layered_opts'])
    if ref['ellipse']:
        lo['ellipse'] = dict(ref['ellipse'])
    if lo:
        kw['layered_opts'] = lo
    if function == 'gradient' and 'receiver_interpolation' not in kw:
        kw['receiver_interpolation'] = 'linear'
    return kw


class ApiError(Exception):
    def __init__(self, e, stage):
        super().__init__(str(e))
        self.etype = type(e).__name__
        self.msg = str(e)[:300]
        self.where = _where(e)
        self.stage = stage


def _api(stage, fn):
    """Run an API step; errors raised inside emg3d become ApiError, errors
    of the checker's own code propagate (harness error)."""
    try:
        return fn()
    except Exception as e:
        if _where(e) is None:
            raise
        raise ApiError(e, stage) from e


def ncells_of(sim):
    tot = 0
    seen = set()
    for s, f in sim._srcfreq:
        g = sim.get_grid(s, f)
        if id(g) not in seen:
            seen.add(id(g))
            tot = max(tot, int(np.prod(g.shape_cells)))
    return tot


def api_build(spec, ref):
    """-> Simulation as the documented API calls build it."""
    import emg3d
    files = ref['files']
    t = spec.get('term', {})
    if files['load']:
        sim = _api('load', lambda: emg3d.Simulation.from_file(
            files['load'], verb=0))
        if t.get('clean'):
            def clean():
                sim.clean('computed')
                sim.model = emg3d.load(files['model'], verb=0)['model']
            _api('clean', clean)
        if ref['sim'].get('layered') and not sim.layered:
            def setl():
                sim.layered = True
            _api('layered', setl)
        return sim
    survey = _api('survey', lambda: emg3d.load(
        files['survey'], verb=0)['survey'])
    model = _api('model', lambda: emg3d.load(
        files['model'], verb=0)['model'])
    sel = dict(ref['select'])
    if sel:
        sel.setdefault('remove_empty', False)     # "CLI uses False"
        survey = _api('select', lambda: survey.select(**sel))
    kw = sim_kwargs(ref, spec['function'])
    return _api('simulation', lambda: emg3d.Simulation(
        survey, model, verb=-1, tqdm_opts=False, **kw))


def grad_shape(model):
    shape = tuple(model.shape)
    if model.case in ('HTI', 'VTI'):
        return (2, *shape)
    if model.case == 'triaxial':
        return (3, *shape)
    return shape


def api_run(spec, ref, sim, dry):
    """-> result dict (as the CLI would store it) and noise info."""
    function = spec['function']
    res, noise = {}, None
    if dry:
        res['data'] = np.zeros(sim.survey.shape, dtype=complex)
        if function in ('misfit', 'gradient'):
            res['misfit'] = 0.0
            res['n_observations'] = sim.survey.count
        if function == 'gradient':
            res['gradient'] = np.zeros(grad_shape(sim.model))
        return res, noise
    if function == 'forward':
        opts = dict(ref['noise'])
        _api('compute', lambda: sim.compute(observed=True, **opts))
        res['data'] = sim.data.observed
        noise = {'opts': opts, 'syn': np.array(sim.data.synthetic.data)}
    else:
        _api('compute', lambda: sim.compute())
        res['data'] = sim.data.synthetic
        res['misfit'] = _api('misfit', lambda: sim.misfit)
        res['n_observations'] = sim.survey.count
        if function == 'gradient':
            res['gradient'] = _api('gradient', lambda: sim.gradient)
    return res, noise


# ======================================================================
# 5. Comparison
# ======================================================================
def _arr(x):
    if isinstance(x, memoryview):
        x = np.asarray(x)
    if hasattr(x, 'data') and hasattr(x, 'dims'):      # xarray.DataArray
        x = np.asarray(x.data)
    return np.asarray(x)


def same_array(a, b):
    a, b = _arr(a), _arr(b)
    if a.shape != b.shape:
        return False, f"shape {a.shape} != {b.shape}"
    if a.dtype.kind == 'O' or b.dtype.kind == 'O':
        return bool(np.all(a == b)), "object arrays differ"
    if np.iscomplexobj(a) != np.iscomplexobj(b):
        return False, f"dtype {a.dtype} != {b.dtype}"
    if a.dtype.kind in 'fc' or b.dtype.kind in 'fc':
        if not np.array_equal(np.isnan(a), np.isnan(b)):
            return False, "NaN pattern differs"
        ok = np.array_equal(a, b, equal_nan=True)
        if not ok:
            with np.errstate(all='ignore'):
                d = np.nanmax(np.abs(a-b))
                s = np.nanmax(np.abs(b))
            return False, f"max |diff| {d:.3e} (scale {s:.3e})"
        return True, ''
    return bool(np.array_equal(a, b)), "values differ"


IGNORE_KEYS = {'_date', '_version', '_format', 'time', 'runtime_at_cycle',
               'log', 'tqdm_opts', 'date'}
TYPED_PATHS = ('solver_opts', 'max_workers', 'layered', 'gridding_opts.verb',
               'gridding_opts.lambda_from_center')


def _kind(x):
    if isinstance(x, (bool, np.bool_)):
        return 'bool'
    if isinstance(x, (int, np.integer)):
        return 'int'
    if isinstance(x, (float, np.floating)):
        return 'float'
    if isinstance(x, (complex, np.complexfloating)):
        return 'complex'
    return type(x).__name__


def _is_emg3d_obj(x):
    return (hasattr(x, 'to_dict') and
            type(x).__module__.split('.')[0] == 'emg3d')


def deep_diff(a, b, path='', skip=()):
    """First difference between two loaded structures or None."""
    if any(path == s or path.startswith(s + '.') for s in skip):
        return None
    if _is_emg3d_obj(a) or _is_emg3d_obj(b):
        if type(a).__name__ != type(b).__name__:
            return path, f"class {type(a).__name__} != {type(b).__name__}"
        return deep_diff(a.to_dict(), b.to_dict(), path, skip)
    if isinstance(a, dict) or isinstance(b, dict):
        if not (isinstance(a, dict) and isinstance(b, dict)):
            return path, f"{type(a).__name__} != {type(b).__name__}"
        ka = {str(k) for k in a if str(k) not in IGNORE_KEYS}
        kb = {str(k) for k in b if str(k) not in IGNORE_KEYS}
        if ka != kb:
            return path, (f"keys only in CLI {sorted(ka-kb)}, only in "
                          f"reference {sorted(kb-ka)}")
        for k in sorted(ka):
            av = a[k] if k in a else a[[x for x in a if str(x) == k][0]]
            bv = b[k] if k in b else b[[x for x in b if str(x) == k][0]]
            sub = f"{path}.{k}" if path else k
            if sub == 'verb':
                continue
            d = deep_diff(av, bv, sub, skip)
            if d:
                return d
        return None
    if a is None or b is None:
        if a is None and b is None:
            return None
        return path, f"{a!r} != {b!r}"
    if isinstance(a, str) or isinstance(b, str):
        if isinstance(a, np.ndarray) and a.ndim == 0:
            a = a.item()
        if isinstance(b, np.ndarray) and b.ndim == 0:
            b = b.item()
        return None if a == b else (path, f"{a!r} != {b!r}")
    typed = any(path == p or path.startswith(p + '.') for p in TYPED_PATHS)
    aa, bb = _arr(a), _arr(b)
    if aa.dtype.kind == 'O' or bb.dtype.kind == 'O':
        # ragged / mixed lists: compare element-wise
        if isinstance(a, (list, tuple)) and isinstance(b, (list, tuple)) \
                and len(a) == len(b):
            for i, (x, y) in enumerate(zip(a, b)):
                d = deep_diff(x, y, f"{path}[{i}]", skip)
                if d:
                    return d
            return None
        return path, f"{a!r} != {b!r}"
    if typed and aa.ndim == 0 and bb.ndim == 0:
        if _kind(aa[()]) != _kind(bb[()]):
            return path, (f"kind {_kind(aa[()])} ({aa[()]!r}) != "
                          f"{_kind(bb[()])} ({bb[()]!r})")
    if aa.size == bb.size and aa.shape != bb.shape and aa.size <= 1:
        aa, bb = aa.ravel(), bb.ravel()           # [50.0] == 50
    ok, msg = same_array(aa.astype(complex) if aa.dtype.kind in 'biufc'
                         else aa,
                         bb.astype(complex) if bb.dtype.kind in 'biufc'
                         else bb)
    return None if ok else (path, msg)


class Failure(Exception):
    """A property failure before root-cause attribution."""

    def __init__(self, kind, message, details=None):
        super().__init__(f"{kind}: {message}")
        self.kind = kind
        self.message = message
        self.details = details or {}


def _same_grids(sa, sb):
    """Computational grids (public Simulation.get_grid) of the simulation
    saved by the CLI and of the one saved by the reference, both re-loaded:
    same shape, origin and cell widths for every source-frequency pair.
    -> number of distinct grids compared."""
    seen = set()
    for src, freq in sb._srcfreq:
        gb = sb.get_grid(src, freq)
        try:
            ga = sa.get_grid(src, freq)
        except Exception as e:
            if _where(e) is None:
                raise
            raise Failure('saved_sim_differs:grid',
                          f"grid of the saved simulation for ({src}, {freq})"
                          f": {type(e).__name__}: {str(e)[:200]}")
        if tuple(ga.shape_cells) != tuple(gb.shape_cells):
            raise Failure('saved_sim_differs:grid',
                          f"grid for ({src}, {freq}): shape {ga.shape_cells} "
                          f"!= {gb.shape_cells} of the API's simulation")
        for name, x, y in [('origin', ga.origin, gb.origin)] + [
                (f'h[{i}]', ga.h[i], gb.h[i]) for i in range(3)]:
            if not np.array_equal(np.asarray(x), np.asarray(y)):
                raise Failure('saved_sim_differs:grid',
                              f"grid for ({src}, {freq}): {name} differs "
                              "from the API's simulation")
        seen.add((tuple(gb.shape_cells), tuple(np.asarray(gb.origin))))
    return len(seen)


def check_noise(cli, api, noise, prob, survey_shape):
    """Forward run with the noise options: deterministic consequences."""
    opts = noise['opts']
    syn = noise['syn']
    a, b = _arr(cli), _arr(api)
    if a.shape != b.shape:
        raise Failure('effect_differs:data', f"shape {a.shape} != {b.shape}")
    nf, re_ = prob['nf'], prob['re']
    noisy = opts.get('add_noise', True) and (nf is not None or
                                            re_ is not None)
    if not np.array_equal(np.isnan(a), np.isnan(b)):
        raise Failure('effect_differs:data:nan_pattern',
                      f"NaN pattern of CLI data {np.isnan(a).astype(int).tolist()} "
                      f"!= API {np.isnan(b).astype(int).tolist()} for {opts}")
    if not noisy:
        ok, msg = same_array(a, b)
        if not ok:
            raise Failure('effect_differs:data', f"forward data: {msg}")
        return 'exact'
    std = np.sqrt((nf or 0.0)**2 + ((re_ or 0.0)*np.abs(syn))**2)
    u = opts.get('mean_noise', 0.0)
    ntype = opts.get('ntype', 'white_noise')
    fin = np.isfinite(a)
    out = {}
    for name, d in (('CLI', a), ('API', b)):
        with np.errstate(all='ignore'):
            r = ((d - syn)/std)[fin] - (1+1j)*u
        white = bool(np.all(np.abs(np.abs(r) - 1.0) < 1e-6)) if r.size else None
        corr = bool(np.all(np.abs(r.real - r.imag) <
                           1e-6*np.maximum(1.0, np.abs(r)))) if r.size else None
        out[name] = (white, corr, r.size)
    want = {'white_noise': (True, False), 'gaussian_correlated': (False, True),
            'gaussian_uncorrelated': (False, False)}.get(ntype)
    if want is None:
        return 'other_ntype'

    def ok(t):
        white, corr, n = t
        if n == 0:
            return True
        if ntype == 'white_noise':
            return white            # corr may hold by chance for n == 1
        if n < 2:
            return corr if ntype == 'gaussian_correlated' else True
        return (white, corr) == want
    if not ok(out['API']):
        raise Inconclusive(f"API noise identity does not hold ({ntype})")
    if not ok(out['CLI']):
        raise Failure('effect_differs:noise',
                      f"CLI forward data do not carry {ntype} noise with mean "
                      f"{u}: (|r|=1, Re r=Im r, n) = {out['CLI']}, API "
                      f"{out['API']}; options {opts}")
    return 'identity'


# ======================================================================
# 6. One case
# ======================================================================
@contextlib.contextmanager
def _workdir():
    d = tempfile.mkdtemp(prefix='c18_', dir=TMPBASE)
    old = os.getcwd()
    try:
        os.chdir(d)
        yield d
    finally:
        os.chdir(old)
        shutil.rmtree(d, ignore_errors=True)


_EMPYMOD_WARM = [False]


def _warm_empymod_cache():
    """empymod (third party, not under test) needs > 20 s to jit into a
    fresh NUMBA_CACHE_DIR (every mutant worktree has its own): reuse the
    compiled files of a sibling cache directory if there is one."""
    if _EMPYMOD_WARM[0]:
        return
    _EMPYMOD_WARM[0] = True
    cdir = os.environ.get('NUMBA_CACHE_DIR')
    if not cdir or glob.glob(os.path.join(cdir, 'empymod_*', '*.nbi')):
        return
    best = None
    for d in glob.glob(os.path.join(os.path.dirname(cdir), '*', 'empymod_*')):
        n = len(glob.glob(os.path.join(d, '*')))
        if os.path.dirname(d) != cdir and (best is None or n > best[0]):
            best = (n, d)
    if best:
        try:
            shutil.copytree(best[1], os.path.join(
                cdir, os.path.basename(best[1])), dirs_exist_ok=True)
        except OSError:                              # pragma: no cover
            pass


def _is_layered(spec, ref):
    return bool(ref['sim'].get('layered')) or any(
        len(f) > 4 and f[4] for f in spec['files'] if f[1] == 'sim')


def run_case(spec, rec=None, classify=True):
    """Execute one invocation and its reference.  Raises Failure."""
    buf = io.StringIO()
    with warnings.catch_warnings():
        warnings.simplefilter('ignore')
        with _workdir() as wd, contextlib.redirect_stdout(buf):
            return _run_case(spec, rec, wd, classify)


def _file_digest(fn):
    import hashlib
    with open(fn, 'rb') as f:
        return hashlib.sha1(f.read()).hexdigest()


def _load_out(fn):
    import emg3d
    out = emg3d.load(fn, verb=0)
    return {k: v for k, v in out.items() if not k.startswith('_')}


def _run_case(spec, rec, wd, classify):
    import emg3d
    prob = spec['problem']
    try:
        write_files(prob, spec['files'], wd)
    except Exception as e:
        raise HarnessError(f"cannot write the input files: {e!r}")
    cfgname = spec.get('cfgname', 'emg3d.cfg')
    text = render_config(spec['config'], spec.get('layout'))
    for sec in spec.get('extra_sections', []):
        text += f"\n[{sec}]\nsomething = 1\n"
    if not spec.get('nocfg'):
        with open(os.path.join(wd, cfgname), 'w') as f:
            f.write(text)
    ref = build_ref(spec, wd)
    files = ref['files']
    function = spec['function']
    if _is_layered(spec, ref):
        _warm_empymod_cache()

    # ---- invocations that must be rejected ---------------------------
    if ref['unknown']:
        before = os.path.exists(files['output'])
        out = run_cli(spec, wd)
        if rec is not None:
            rec.cls('reject')
        what = ref['unknown'][0]
        kind = ('section' if what.startswith('[') else
                'flag' if what.startswith('flag') else
                'key:' + what.split('.')[0])
        if out['ok']:
            raise Failure(f'unknown_accepted:{kind}',
                          f"{what} was accepted without an error "
                          f"(args {cli_args(spec)})",
                          {'config': text})
        if os.path.exists(files['output']) and not before:
            raise Failure(f'unknown_output_written:{kind}',
                          f"{what}: error {out['etype']} but an output file "
                          "was written")
        return {'class': 'rejected'}

    # ---- the reference: build the simulation first (grid size) -------
    dry = bool(spec.get('dry'))
    api_err = None
    sim = None
    try:
        sim = api_build(spec, ref)
        if not _is_layered(spec, ref) and not getattr(sim, 'layered', False):
            big = _api('grids', lambda: ncells_of(sim)) > MAXCELLS
        else:
            big = False
    except ApiError as e:
        api_err = e
        big = False
    forced = big and not dry
    if forced:
        spec = dict(spec, dry=True)
        dry = True
    if ref['sim'].get('max_workers', 4) != 1 and not dry and \
            not files['load']:
        raise HarnessError("generator: real run with a process pool")

    # ---- the CLI -------------------------------------------------------
    untouched = {rel: _file_digest(os.path.join(wd, rel))
                 for rel in spec.get('untouched', [])}
    out = run_cli(spec, wd)

    # ---- the reference run ----------------------------------------------
    res = noise = None
    if api_err is None:
        try:
            res, noise = api_run(spec, ref, sim, dry)
        except ApiError as e:
            api_err = e
    ref_out = None
    if api_err is None:
        rfile = os.path.join(wd, 'c18_reference' +
                             os.path.splitext(files['output'])[1])
        try:
            _api('save', lambda: emg3d.save(rfile, **res, verb=0))
            ref_out = _api('reload', lambda: _load_out(rfile))
        except ApiError as e:
            api_err = e
    rsim_file = None
    if api_err is None and files['save']:
        rsim_file = os.path.join(wd, 'c18_refsim' +
                                 os.path.splitext(files['save'])[1])
        try:
            _api('save_sim', lambda: sim.to_file(rsim_file, verb=0))
        except ApiError as e:
            api_err = e

    feat = []
    if files['load']:
        feat.append('load')
    if spec.get('term', {}).get('clean'):
        feat.append('clean')
    tag = '+'.join(feat)

    # ---- errors -----------------------------------------------------------
    if not out['ok'] or api_err is not None:
        if not out['ok'] and api_err is not None:
            if out['etype'] == api_err.etype:
                if rec is not None and classify:
                    rec.cls('both_raise',
                            f"both_raise:{api_err.etype}@{api_err.stage}")
                return {'class': 'both_raise',
                        'error': f"{api_err.etype}@{api_err.stage}: "
                                 f"{api_err.msg[:80]}"}
            # different errors: the CLI's own failure is the finding (the
            # API error may belong to a later step the CLI never reached)
            raise Failure(
                f"cli_error:{out['etype']}@{out.get('where')}",
                f"the CLI ends with {out['etype']}: {out['msg']} (args "
                f"{cli_args(spec)}); the equivalent API calls end "
                f"differently, in {api_err.stage} with {api_err.etype}: "
                f"{api_err.msg}", {'config': text, 'tb': out.get('tb')})
        if not out['ok']:
            raise Failure(
                f"cli_error:{out['etype']}@{out.get('where')}",
                f"the CLI ends with {out['etype']}: {out['msg']} "
                f"(args {cli_args(spec)}) while the equivalent API calls "
                f"succeed", {'config': text, 'tb': out.get('tb'),
                             'tag': tag})
        raise Failure(
            f"cli_accepts:{api_err.etype}@{api_err.stage}",
            f"the CLI succeeds while the equivalent API call fails in "
            f"{api_err.stage}: {api_err.etype}: {api_err.msg}",
            {'config': text})

    # ---- outputs ------------------------------------------------------------
    if not os.path.isfile(files['output']):
        raise Failure('no_output', f"no output file {files['output']}")
    if not os.path.isfile(files['log']) or not os.path.getsize(files['log']):
        raise Failure('no_log', f"no log file {files['log']}")
    cli_out = _load_out(files['output'])
    cli_out.pop('configuration', None)
    want = {'data'}
    if function in ('misfit', 'gradient'):
        want |= {'misfit', 'n_observations'}
    if function == 'gradient':
        want.add('gradient')
    if set(cli_out) != want or set(ref_out) != want:
        raise Failure('output_keys', f"output holds {sorted(cli_out)}, "
                      f"expected {sorted(want)}")
    info = {'class': 'dry' if dry else 'real', 'forced_dry': forced}
    if dry:
        for k in sorted(want):
            ok, msg = same_array(cli_out[k], ref_out[k])
            if not ok:
                raise Failure(f'dry_run:{k}', f"dry run {k}: {msg}")
            if k in ('data', 'gradient', 'misfit') and np.any(
                    _arr(cli_out[k]) != 0):
                raise Failure(f'dry_run:{k}', "dry run output is not zero")
    else:
        if noise is not None:
            info['noise'] = check_noise(cli_out['data'], ref_out['data'],
                                        noise, prob, None)
        else:
            ok, msg = same_array(cli_out['data'], ref_out['data'])
            if not ok:
                raise Failure('effect_differs:data', f"data: {msg}")
        for k in ('misfit', 'n_observations', 'gradient'):
            if k in want:
                ok, msg = same_array(cli_out[k], ref_out[k])
                if not ok:
                    raise Failure(f'effect_differs:{k}', f"{k}: {msg}")
        info['digest'] = [
            repr(np.nan_to_num(_arr(ref_out[k])).sum())
            for k in sorted(want) if k != 'data' or noise is None
            or info.get('noise') == 'exact']

    # ---- saved simulation -------------------------------------------------
    if files['save']:
        if not os.path.isfile(files['save']):
            raise Failure('no_saved_simulation', f"{files['save']} missing")
        a = emg3d.load(files['save'], verb=0)
        b = emg3d.load(rsim_file, verb=0)
        if 'simulation' not in a:
            raise Failure('no_saved_simulation',
                          f"keys {sorted(a)} in saved file")
        skip = []
        if noise is not None and info.get('noise') != 'exact':
            skip.append('survey.data.observed')
        if ('simulation', 'name') not in ref['present'] and \
                not files['load']:
            skip.append('name')       # the CLI's own default name
        if dry:
            skip.append('_dict_grid')     # lazily filled cache of grids
        d = deep_diff(a['simulation'].to_dict('all'),
                      b['simulation'].to_dict('all'), '', tuple(skip))
        if d:
            p = re.sub(r'\[\d+\]', '', d[0])
            top = '.'.join(p.split('.')[:2]) if p.split('.')[0] in (
                'solver_opts', 'gridding_opts', 'layered_opts',
                'survey') else p.split('.')[0]
            raise Failure(f'saved_sim_differs:{top}',
                          f"saved simulation differs from the API's at "
                          f"{d[0]}: {d[1]}")
        info['saved'] = True
        if dry and not _is_layered(spec, ref):
            # nothing was computed: the grids the saved simulation stands
            # for are the only effect of the gridding options left
            info['grids'] = _same_grids(a['simulation'], b['simulation'])
    # files that must not have been written (override sub-check)
    for rel in spec.get('absent', []):
        if os.path.exists(os.path.join(wd, rel)):
            raise Failure('unexpected_file', f"{rel} was written although "
                          "another file is the one to be written")
    for rel, dig in untouched.items():
        if _file_digest(os.path.join(wd, rel)) != dig:
            raise Failure('unexpected_file', f"{rel} was overwritten "
                          "although another file is the one to be written")
    return info


# ----------------------------------------------------------------------
ESSENTIAL = {('files', 'path'), ('files', 'survey'), ('files', 'model'),
             ('files', 'output'), ('simulation', 'max_workers')}
FILE_REFS = ['survey', 'model', 'output', 'save', 'load', 'cache']


def _file_ref(spec, k):
    """(where, index/None, name) of the file name given for key k."""
    t = spec.get('term', {})
    if t.get(k) is not None:
        return 'term', None, t[k]
    for i, e in enumerate(spec['config']):
        if e[0] == 'files' and e[1] == k:
            text = e[2]
            if e[3] == 'raw':
                text = text.partition('=')[2].partition('#')[0].strip()
            return 'cfg', i, text
    return None, None, None


def items_of(spec):
    """Removable parts of an invocation (for root-cause attribution)."""
    items = [('cfg', i) for i, e in enumerate(spec['config'])
             if not (len(e) > 4 and e[4] == 'ctx')
             and (e[0], e[1]) not in ESSENTIAL]
    t = spec.get('term', {})
    for k in ('layered', 'clean', 'load', 'cache', 'save', 'verbosity'):
        if t.get(k) not in (None, False):
            items.append(('term', k))
    for k in FILE_REFS:
        name = _file_ref(spec, k)[2]
        if name and os.path.splitext(name)[1] in ('.npz', '.json'):
            items.append(('fmt', k))
    return items


def _item_name(spec, it):
    if it[0] == 'cfg':
        e = spec['config'][it[1]]
        if e[0] == 'files' and e[1] in ('load', 'cache', 'save'):
            return 'load' if e[1] != 'save' else 'save'
        return f"{e[0]}.{e[1]}"
    if it[0] == 'fmt':
        name = _file_ref(spec, it[1])[2]
        k = 'load' if it[1] == 'cache' else it[1]
        return f"fmt:{k}={os.path.splitext(name)[1][1:]}"
    if it[1] in ('load', 'cache'):
        return 'load'
    if it[1] == 'save':
        return 'save'
    return f"--{it[1]}"


def _without(spec, drop):
    s = json.loads(json.dumps(spec))
    # formats first (indices of config entries still valid)
    for kind, k in drop:
        if kind != 'fmt':
            continue
        where, i, name = _file_ref(s, k)
        if not name:
            continue
        new = os.path.splitext(name)[0] + '.h5'
        if where == 'term':
            s['term'][k] = new
        else:
            e = s['config'][i]
            s['config'][i] = [e[0], e[1], new, ''] + e[4:]
        for f in s['files']:
            if f[0] == name or f[0].endswith('/' + name):
                f[0] = f[0][:-len(name)] + new
    dropc = {i for kind, i in drop if kind == 'cfg'}
    s['config'] = [e for i, e in enumerate(s['config']) if i not in dropc]
    for kind, name in drop:
        if kind == 'term':
            s['term'][name] = None
    # input files of dropped load/cache entries are simply left unused
    return s


def _fails_like(spec, kind):
    try:
        run_case(spec, None, classify=False)
    except Failure as f:
        return f.kind == kind
    except (Inconclusive, HarnessError, Unreadable):
        return False
    except Exception:
        return False
    return False


def attribute(spec, failure):
    """Bounded reduction: which documented options / flags / file formats
    are needed for the failure?  -> culprit string."""
    items = items_of(spec)
    if not items:
        return 'context'
    if len(items) == 1:
        return _item_name(spec, items[0])
    # (a) an option named in the error message, alone
    msg = failure.message
    for it in items:
        if it[0] == 'cfg' and spec['config'][it[1]][1] in msg:
            others = [x for x in items if x != it]
            if _fails_like(_without(spec, others), failure.kind):
                return _item_name(spec, it)
    # (b) greedy removal: what remains is needed
    removed = []
    for it in items:
        if _fails_like(_without(spec, removed + [it]), failure.kind):
            removed.append(it)
    needed = sorted({_item_name(spec, it) for it in items
                     if it not in removed})
    if 0 < len(needed) <= 3:
        return '+'.join(needed)
    return 'combination'


def tree_stamp():
    """Size and mtime of every source file of the code under test."""
    out = []
    for fn in sorted(glob.glob(os.path.join(EMG3D_DIR, '**', '*.py'),
                               recursive=True)):
        st_ = os.stat(fn)
        out.append((fn, st_.st_size, st_.st_mtime_ns))
    return out


STAMP0 = tree_stamp()


def case_fn(prefix=''):
    def fn(spec, rec):
        try:
            info = run_case(spec, rec)
        except Failure as f:
            if spec.get('exec') == 'subproc' and tree_stamp() != STAMP0:
                # a fresh interpreter imported other sources than the ones
                # loaded in this process: no statement possible
                raise Inconclusive("code under test changed during the run")
            if f.kind.startswith(('unknown_', 'error_differs')):
                culprit = None
            else:
                culprit = attribute(spec, f)
            sig = prefix + f.kind + (f":{culprit}" if culprit else '')
            det = dict(f.details)
            det['args'] = cli_args(spec)
            det['config_text'] = render_config(spec['config'],
                                               spec.get('layout'))
            raise Violation(sig, f.message, det)
        except Unreadable as e:
            raise HarnessError(f"checker cannot read its own value: {e}")
        classify(spec, rec, info)
    return fn


def classify(spec, rec, info):
    t = spec.get('term', {})
    fn = spec['function']
    rec.cls(f"fn:{fn}", f"run:{info['class']}",
            f"exec:{spec.get('exec', 'inproc')}")
    if info.get('forced_dry'):
        rec.cls('forced_dry')
    secs = sorted({e[0] for e in spec['config']
                   if not (len(e) > 4 and e[4] == 'ctx')})
    for s in secs:
        rec.cls(f"section:{s}")
    for k in ('load', 'cache', 'save', 'clean', 'layered', 'path'):
        if t.get(k):
            rec.cls(f"flag:{k}")
    if t.get('long') and (t.get('layered') or t.get('nproc') is not None):
        rec.cls('flag:long_alias')
    if t.get('eq') and any(a.startswith('--') and '=' in a
                           for a in cli_args(spec)):
        rec.cls('flag:--opt=value')
    if t.get('verbosity') is not None:
        rec.cls(f"verbosity:{t['verbosity']}")
    rec.cls(*layout_classes(spec))
    fm = {os.path.splitext(f[0])[1].lstrip('.') or 'h5' for f in spec['files']
          if f[1] != 'dir'}
    for x in sorted(fm):
        rec.cls(f"fmt:{x}")
    sims = [f for f in spec['files'] if f[1] == 'sim']
    if sims and (t.get('load') or t.get('cache') or any(
            e[0] == 'files' and e[1] in ('load', 'cache')
            for e in spec['config'])):
        inputs = {f[2] for f in spec['files'] if f[1] in ('survey', 'model')}
        other = any(f[2] not in inputs for f in sims)
        rec.cls('stored:other_variant' if other else 'stored:same_variant',
                f"stored:{sims[0][3]}")
        if t.get('clean'):
            rec.cls(f"clean:{'other' if other else 'same'}_model:"
                    f"{sims[0][3]}")
    if info.get('noise'):
        rec.cls(f"noise:{info['noise']}")
    if info.get('saved'):
        rec.cls('saved_sim_compared')
    if info.get('grids'):
        rec.cls('dry_grids_compared')
        if info.get('forced_dry'):
            rec.cls('forced_dry:grids_compared')
    opts = [e[:3] for e in spec['config']
            if not (len(e) > 4 and e[4] == 'ctx')]
    flags = [k for k, v in t.items() if k not in ('cfgarg', 'extra')
             and v not in (None, False, 'short')]
    if info['class'] == 'real' and (opts or flags):
        rec.nt([opts, cli_args(spec), fn, spec['problem'],
                info.get('digest')])
    rec.note({'args': cli_args(spec), 'config': [e[:3] for e in
                                                 spec['config']],
              'info': {k if k != 'digest' else 'digest_': v
                       for k, v in info.items()}})


# ======================================================================
# 7. Generators
# ======================================================================
def E(sec, key, text, deco='', ctx=False):
    return [sec, key, str(text), deco] + (['ctx'] if ctx else [])


CTX_SAME = [E('simulation', 'gridding', 'same', ctx=True)]
CTX_W1 = [E('simulation', 'max_workers', '1', ctx=True)]
CTX_PLAIN = [E('solver_opts', 'plain', 'True', ctx=True),
             E('solver_opts', 'tol', '1e-3', ctx=True)]
CTX_NONOISE = [E('noise_opts', 'add_noise', 'False', ctx=True)]


def with_context(entries, ctx):
    have = {(e[0], e[1]) for e in entries}
    return [c for c in ctx if (c[0], c[1]) not in have] + list(entries)


def files_for(spec, state='computed', lay=False, simvar=0):
    """Input files an invocation needs (checker's reading of the case).

    `simvar`: variant of the problem the stored simulation is built from;
    the survey and model files always hold variant 0.  With simvar=1 the
    stored simulation has another model and one receiver less than the
    files, so that `--load` (survey and model files ignored) and `--clean`
    (computed data removed, model replaced by the model file) each have a
    result of their own."""
    ref = build_ref(dict(spec, files=[]), '/WD')
    f = ref['files']

    def rel(p):
        return os.path.relpath(p, '/WD')
    out = [[rel(f['survey']), 'survey', 0], [rel(f['model']), 'model', 0]]
    if f['load']:
        out.append([rel(f['load']), 'sim', int(simvar), state, lay])
    for k in ('output', 'save'):
        if f[k]:
            d = os.path.dirname(rel(f[k]))
            if d:
                out.append([d, 'dir', 0])
    fd = ref['sim'].get('file_dir')
    if fd and os.path.dirname(fd):
        out.append([os.path.dirname(fd), 'dir', 0])
    return out


def _spec(prob, config, function, term=None, dry=False, simvar=0,
          state='computed', **kw):
    s = {'problem': prob, 'config': config, 'function': function,
         'term': term or {}, 'dry': dry, 'exec': 'inproc', 'files': []}
    s.update(kw)
    s['term'].setdefault('cfgarg', True)
    if 'files' not in kw:
        s['files'] = files_for(s, state, False, simvar)
    return s


# values used by the single-key enumeration besides the rst's own example
SINGLE_VALUES = {
    ('files', 'path'): ['sub'],
    ('files', 'survey'): ['mysurvey.npz', 'sv', 'data/sv.json'],
    ('files', 'model'): ['mymodel.json', 'md', 'mymodel.npz'],
    ('files', 'output'): ['res.npz', 'res.json', 'res'],
    ('files', 'save'): ['sim.npz', 'sim.json', 'sim'],
    ('files', 'load'): ['sim.npz', 'sim.json'],
    ('files', 'cache'): ['sim.npz'],
    ('simulation', 'max_workers'): ['1', '3'],
    ('simulation', 'gridding'): ['same', 'frequency', 'source', 'both'],
    ('simulation', 'name'): ['Another name 2'],
    ('simulation', 'file_dir'): ['fd'],
    ('simulation', 'receiver_interpolation'): ['linear'],
    ('simulation', 'layered'): ['True'],
    ('solver_opts', 'sslsolver'): ['False', 'True'],
    ('solver_opts', 'semicoarsening'): ['False', 'True'],
    ('solver_opts', 'linerelaxation'): ['False', 'True'],
    ('solver_opts', 'cycle'): ['V', 'W', 'F'],
    ('solver_opts', 'tol'): ['1e-3', '0.01'],
    ('solver_opts', 'tol_gradient'): ['1e-2', '1e-4'],
    ('solver_opts', 'verb'): ['3', '0'],
    ('solver_opts', 'maxit'): ['2', '1'],
    ('solver_opts', 'nu_init'): ['2'],
    ('solver_opts', 'nu_pre'): ['1', '3'],
    ('solver_opts', 'nu_coarse'): ['3'],
    ('solver_opts', 'nu_post'): ['1', '3'],
    ('solver_opts', 'clevel'): ['1', '0'],
    ('solver_opts', 'plain'): ['True', 'False'],
    ('gridding_opts', 'properties'): ['1', '1, 2', '0.5, 1, 2, 3',
                                      '1, 1.5, 2, 1, 2, 1.5, 1'],
    ('gridding_opts', 'center'): ['10, -20, -100'],
    # the last one is written in all formatting variants: 24^3 cells, i.e.
    # executed for real and different from the default grid (16^3)
    ('gridding_opts', 'cell_number'): ['8, 16, 24, 32, 48, 64', '32, 64',
                                       '24, 32, 48'],
    ('gridding_opts', 'min_width_pps'): ['4', '2, 3, 4'],
    ('gridding_opts', 'domain'): ['-300, 300; -300, 300; -400, -50',
                                  'None; -350, 350; None'],
    ('gridding_opts', 'distance'): ['-300, 300; None; None',
                                    '-300, 300; -300, 300; -200, 100'],
    ('gridding_opts', 'stretching'): ['1.0, 1.3',
                                      '1.1, 1.6; None; 1.0, 1.4'],
    ('gridding_opts', 'min_width_limits'): ['50, 150', '100; 100; 50'],
    ('gridding_opts', 'mapping'): ['Conductivity'],
    ('gridding_opts', 'vector'): ['xyz', 'z'],
    ('gridding_opts', 'frequency'): ['2.5'],
    ('gridding_opts', 'seasurface'): ['50.0'],
    ('gridding_opts', 'max_buffer'): ['2000'],
    ('gridding_opts', 'lambda_factor'): ['0.5'],
    ('gridding_opts', 'verb'): ['1', '-1'],
    ('gridding_opts', 'lambda_from_center'): ['True'],
    ('noise_opts', 'add_noise'): ['False'],
    ('noise_opts', 'min_offset'): ['250'],
    ('noise_opts', 'max_offset'): ['400', 'inf'],
    ('noise_opts', 'mean_noise'): ['0.5'],
    ('noise_opts', 'ntype'): ['gaussian_correlated', 'gaussian_uncorrelated'],
    ('data', 'sources'): ['TxMD-08'],
    ('data', 'receivers'): ['RxMP-10', 'RxEP-03, RxEP-01'],
    ('data', 'frequencies'): ['f-3'],
    ('data', 'remove_empty'): ['True'],
    ('layered', 'method'): ['prism', 'midpoint', 'source', 'receiver',
                            'cylinder'],
    ('layered', 'radius'): ['300'],
    ('layered', 'factor'): ['1.5'],
    ('layered', 'minor'): ['0.5'],
    ('layered', 'merge'): ['True', 'False'],
    ('layered', 'check_foci'): ['True', 'False'],
}


def single_spec(sec, key, text, deco, function):
    """One documented key alone, in the fixed context of its section."""
    lay = sec == 'layered' or (key == 'layered' and 'true' in text.lower())
    prob = (LAY_PROBLEM if lay else DOC_PROBLEM if sec == 'data' else
            MID_PROBLEM if key == 'gridding' else SMALL_PROBLEM)
    entry = E(sec, key, text, deco)
    if sec == 'solver_opts':
        ctx = CTX_SAME + CTX_W1
        if key == 'maxit' and text.strip() == '2':
            ctx = ctx + [E('solver_opts', 'sslsolver', 'False', ctx=True)]
    elif sec == 'gridding_opts':
        ctx = CTX_W1 + CTX_PLAIN
    elif sec == 'layered':
        ctx = CTX_SAME + CTX_W1 + [E('simulation', 'layered', 'True',
                                     ctx=True)]
        if key in ('factor', 'minor', 'check_foci'):
            ctx = ctx + [E('layered', 'radius', '150', ctx=True)]
    elif key == 'gridding':
        ctx = CTX_W1 + CTX_PLAIN
    else:
        ctx = CTX_SAME + CTX_W1 + CTX_PLAIN
    if function == 'forward' and sec != 'noise_opts':
        ctx = ctx + CTX_NONOISE
    term = {}
    dry = False
    val = text.partition('=')[2].partition('#')[0] if deco == 'raw' else text
    if key == 'max_workers' and val.strip() != '1':
        dry = True
    if sec in ('simulation', 'solver_opts', 'layered', 'gridding_opts') or (
            sec == 'files' and key == 'load'):
        # the saved simulation is compared as well (for gridding_opts it is
        # the only observable of a run that is too big to be executed)
        term['save'] = 'c18_saved.npz'
    # a stored simulation differs from what the survey / model files hold
    simvar = 1 if sec == 'files' and key in ('load', 'cache') else 0
    return _spec(prob, with_context([entry], ctx), function, term, dry,
                 simvar=simvar)


# command-line options alone: (term, dry, needs)
FLAG_SINGLES = [
    ({'nproc': 1}, False), ({'nproc': 3}, True),
    ({'layered': True}, False),
    ({'path': 'sub'}, False), ({'path': '.'}, False),
    ({'survey': 'mysurvey.npz'}, False), ({'survey': 'sv'}, False),
    ({'model': 'mymodel.json'}, False), ({'model': 'md'}, False),
    ({'output': 'res.npz'}, False), ({'output': 'res.json'}, False),
    ({'output': 'res'}, False),
    ({'save': 'sim.h5'}, False), ({'save': 'sim.npz'}, False),
    ({'save': 'sim.json'}, False), ({'save': 'sim'}, False),
    ({'load': 'sim.h5'}, False), ({'load': 'sim.npz'}, False),
    ({'load': 'sim.json'}, False),
    ({'cache': 'sim.h5'}, False), ({'cache': 'sim.npz'}, False),
    ({'load': 'sim.h5', 'clean': True}, False),
    ({'cache': 'sim.npz', 'clean': True}, False),
    # 'stored': [variant, state] of the stored simulation (default: variant
    # 1 = other model and one receiver less than the survey / model files,
    # state 'computed' = holds the fields and data of its own model)
    ({'load': 'sim.npz', 'clean': True, 'stored': [1, 'misfit']}, False),
    ({'load': 'sim.h5', 'clean': True, 'stored': [1, 'plain']}, False),
    ({'load': 'sim.h5', 'stored': [1, 'plain']}, False),
    ({'cache': 'sim.h5', 'stored': [1, 'misfit']}, False),
    ({'load': 'sim.h5', 'stored': [0, 'computed']}, False),
    ({'clean': True}, False),
    ({}, True),
    ({'verbosity': '-v'}, False), ({'verbosity': '-vv'}, False),
    ({'verbosity': '-q'}, False), ({'verbosity': -1}, False),
    ({'verbosity': 0}, False), ({'verbosity': 1}, False),
    ({'verbosity': 2}, False),
    ({'verbosity': '-vvv'}, False), ({'verbosity': '-v -v'}, False),
    ({'verbosity': '--verbose'}, False), ({'verbosity': '--quiet'}, False),
    ({'verbosity': '-vvvv'}, True),
    ({'verbosity': '--verbose --verbose'}, True),
    ({'nproc': 1, 'long': True}, False),
    ({'layered': True, 'long': True}, False),
    ({'output': 'res.npz', 'save': 'sim.json', 'verbosity': 1, 'eq': True},
     False),
    ({'path': 'sub', 'model': 'md', 'nproc': 1, 'long': True, 'eq': True},
     False),
    ({'fnflag': 'long'}, False), ({'dryflag': 'long'}, True),
    ({'fnflag': 'none'}, False),
    # dry run: shapes for every anisotropy case
    ({'case': 'HTI'}, True), ({'case': 'VTI'}, True),
    ({'case': 'triaxial'}, True), ({'case': 'isotropic'}, True),
]


def flag_specs(quick):
    out = []
    for i, (term, dry) in enumerate(FLAG_SINGLES):
        fns = ([['misfit', 'gradient', 'forward'][i % 3]] if quick else
               ['forward', 'misfit', 'gradient'])
        if term.get('fnflag') == 'none':
            fns = ['forward']
        for fn in fns:
            lay = bool(term.get('layered'))
            prob = LAY_PROBLEM if lay else SMALL_PROBLEM
            ctx = CTX_SAME + CTX_PLAIN
            if 'nproc' not in term:
                ctx = ctx + CTX_W1
            if fn == 'forward':
                ctx = ctx + CTX_NONOISE
            t = dict(term)
            if 'case' in t:
                prob = dict(prob, case=t.pop('case'))
                if quick:
                    fn = 'gradient'
            stored = t.pop('stored', None) or [1, 'computed']
            spec = _spec(prob, with_context([], ctx), fn, t, dry,
                         simvar=stored[0], state=stored[1])
            spec['flagcase'] = True
            out.append(spec)
    # the documented template: verbatim (every value commented out) and
    # with the lines of the context un-commented
    spec = _spec(SMALL_PROBLEM, [], 'forward', {'nproc': 1}, False,
                 layout={'kind': 'rst'})
    spec['flagcase'] = True
    out.append(spec)
    for fn in ['gradient'] if quick else ['misfit', 'gradient']:
        spec = _spec(SMALL_PROBLEM,
                     with_context([], CTX_SAME + CTX_W1 + CTX_PLAIN), fn, {},
                     False, layout={'kind': 'rst'})
        spec['flagcase'] = True
        out.append(spec)
    # all seven sections present but empty, in reverse order
    spec = _spec(SMALL_PROBLEM, [], 'misfit', {'nproc': 1}, True,
                 layout={'kind': 'free', 'order': SECTIONS[::-1],
                         'empty': list(SECTIONS), 'pattern': 4})
    spec['flagcase'] = True
    out.append(spec)
    return out


def single_function(sec, key, i):
    if sec == 'noise_opts':
        return ['forward']
    if key in ('tol_gradient',):
        return ['gradient']
    return [['misfit', 'gradient', 'forward'][i % 3]]


def single_specs(quick):
    doc = doc_examples()
    out = []
    i = 0
    for (sec, key) in TABLE:
        values = []
        lit = doc.get((sec, key), (None, None))[0]
        if lit is not None:
            values.append((lit, 'raw'))
        gen_vals = SINGLE_VALUES.get((sec, key), [])
        if quick:          # rst example + first value(s); thorough: all
            gen_vals = gen_vals[:1 if lit is not None else 2]
        for j, v in enumerate(gen_vals):
            values.append((v, ['', 'comment', 'tight', 'spaced'][j % 4]))
        # formatting variants of list-valued options (blanks around the
        # separators / none at all): last value, which has the most parts
        if TABLE[(sec, key)][0] in ('lol', 'nums', 'ints', 'names') and \
                SINGLE_VALUES.get((sec, key)):
            last = SINGLE_VALUES[(sec, key)][-1]
            for deco in ('spaced', 'tight'):
                if (last, deco) not in values:
                    values.append((last, deco))
        for text, deco in values:
            fns = (single_function(sec, key, i) if quick else
                   (['forward'] if sec == 'noise_opts' else
                    ['forward', 'misfit', 'gradient']))
            i += 1
            for fn in fns:
                out.append(single_spec(sec, key, text, deco, fn))
    return out + flag_specs(quick)


# ---------------------------------------------------------------- combos
def _f(x):
    return repr(float(x))


def value_strategy(sec, key, prob):
    """Strategy of value *texts* within the documented domain."""
    sf = st.sampled_from
    B = sf(['True', 'False', 'true', 'false'])
    names = {'sources': [n for n, _ in prob['src']],
             'receivers': [n for n, _ in prob['rec']],
             'frequencies': [n for n, _ in prob['freq']]}
    if sec == 'solver_opts':
        return {
            'sslsolver': B, 'semicoarsening': B, 'linerelaxation': B,
            'plain': B, 'cycle': sf(['V', 'W', 'F']),
            'tol': sf(['1e-2', '1e-3', '0.0001', '1e-5', '1E-4']),
            'tol_gradient': sf(['1e-2', '1e-3', '1e-4']),
            'verb': sf(['-1', '0', '1', '2', '3', '4']),
            'maxit': sf(['1', '2', '3', '5', '10', '50']),
            'nu_init': sf(['0', '1', '2']), 'nu_pre': sf(['1', '2', '3']),
            'nu_coarse': sf(['1', '2', '3']),
            'nu_post': sf(['0', '1', '2', '3']),
            'clevel': sf(['-1', '0', '1', '2', '5']),
        }[key]
    if sec == 'gridding_opts':
        num = st.floats
        dom = st.tuples(num(-600, -300), num(300, 600)).map(
            lambda t: f"{_f(round(t[0]))}, {_f(round(t[1]))}")
        domz = st.tuples(num(-600, -350), num(-40, 100)).map(
            lambda t: f"{_f(round(t[0]))}, {_f(round(t[1]))}")
        dist = st.tuples(num(-500, -250), num(250, 500)).map(
            lambda t: f"{_f(round(t[0]))}, {_f(round(t[1]))}")
        stre = st.tuples(sf([1.0, 1.05, 1.1]), sf([1.3, 1.5, 1.6])).map(
            lambda t: f"{t[0]}, {t[1]}")
        lim = st.one_of(
            sf(['50', '100', '80.0']),
            st.tuples(sf([20, 50, 80]), sf([100, 150, 300])).map(
                lambda t: f"{t[0]}, {t[1]}"))

        def three(a, b=None):
            b = b or a
            return st.one_of(
                a,
                st.tuples(st.one_of(st.just('None'), a),
                          st.one_of(st.just('None'), a),
                          st.one_of(st.just('None'), b)).map('; '.join))
        pr = sf([1, 2, 3, 4, 7]).flatmap(lambda n: st.lists(
            sf(['0.5', '1', '1.0', '2', '3.3', '1e1']), min_size=n,
            max_size=n)).map(', '.join)
        return {
            'properties': pr,
            'center': st.tuples(num(-100, 100), num(-100, 100),
                                num(-250, -60)).map(
                lambda t: ', '.join(_f(round(x)) for x in t)),
            'cell_number': sf(['8, 16, 32, 64', '16, 24, 32, 48, 64',
                               '32, 64, 128', '8,16,24,32,40,48,64,80,96']),
            'min_width_pps': st.one_of(
                sf(['2', '3', '4', '5', '3.5']),
                st.tuples(*[sf(['2', '3', '4', '5'])]*3).map(', '.join)),
            'domain': st.one_of(
                st.tuples(st.one_of(st.just('None'), dom),
                          st.one_of(st.just('None'), dom),
                          st.one_of(st.just('None'), domz)).map('; '.join)),
            'distance': three(dist),
            'stretching': three(stre),
            'min_width_limits': three(lim),
            'mapping': sf(['Resistivity', 'Conductivity', 'LgResistivity',
                           'LgConductivity', 'LnResistivity',
                           'LnConductivity']),
            'vector': sf(['x', 'y', 'z', 'xy', 'xz', 'yz', 'xyz', 'XY']),
            'frequency': sf(['0.5', '1.0', '2', '3.3', '1e1']),
            'seasurface': sf(['0.0', '20', '-30.0', '100']),
            'max_buffer': sf(['500', '2000', '1e4', '100000.0']),
            'lambda_factor': sf(['0.3', '0.5', '1.0', '1.5']),
            'verb': sf(['-1', '0', '1']),
            'lambda_from_center': B,
        }[key]
    if sec == 'noise_opts':
        return {
            'add_noise': B,
            'min_offset': sf(['0.0', '100', '250.5', '400']),
            'max_offset': sf(['inf', '300', '450', '1e3']),
            'mean_noise': sf(['0.0', '0.5', '-1', '2.5']),
            'ntype': sf(['white_noise', 'gaussian_correlated',
                         'gaussian_uncorrelated']),
        }[key]
    if sec == 'data':
        if key == 'remove_empty':
            return B
        return st.lists(sf(names[key]), min_size=1, unique=True).map(
            ', '.join)
    if sec == 'layered':
        return {
            'method': sf(['cylinder', 'prism', 'midpoint', 'source',
                          'receiver']),
            'radius': sf(['150', '300.0', '1e3']),
            'factor': sf(['1.0', '1.2', '1.5']),
            'minor': sf(['0.5', '0.8', '1.0']),
            'merge': B, 'check_foci': B,
        }[key]
    if sec == 'simulation':
        return {
            'name': sf(['MyTestSimulation', 'run 7', 'a-b_c.d', 'Größe']),
            'file_dir': sf(['fd', 'tmp/fields']),
            'receiver_interpolation': sf(['cubic', 'linear']),
            'gridding': sf(['single', 'frequency', 'source', 'both']),
        }[key]
    raise HarnessError(f"no values for {sec}.{key}")


DECO = st.sampled_from(['', '', 'comment', 'tight', 'spaced'])


@st.composite
def draw_entries(draw, sec, keys, prob, lo, hi):
    ks = draw(st.lists(st.sampled_from(keys), min_size=lo,
                       max_size=min(hi, len(keys)), unique=True))
    return [E(sec, k, draw(value_strategy(sec, k, prob)), draw(DECO))
            for k in ks]


def _keys(sec):
    return [k for s, k in TABLE if s == sec]


@st.composite
def layout_spec(draw):
    """Lay-out of the configuration file (None = plain)."""
    sf = st.sampled_from
    kind = draw(sf([None, None, 'rst', 'free', 'free']))
    if kind is None:
        return None
    if kind == 'rst':
        return {'kind': 'rst'}
    return {'kind': 'free', 'order': list(draw(st.permutations(SECTIONS))),
            'empty': draw(st.lists(sf(SECTIONS), unique=True, max_size=4)),
            'pattern': draw(st.integers(0, 63))}


def layout_classes(spec):
    lay = spec.get('layout')
    if not lay:
        return ['layout:plain']
    out = [f"layout:{lay['kind']}"]
    if lay['kind'] == 'free':
        have = {e[0] for e in spec['config']}
        if any(x not in have for x in lay.get('empty', [])):
            out.append('layout:empty_known_section')
        used = [x for x in lay.get('order', []) if x in have]
        if used != [x for x in SECTIONS if x in have]:
            out.append('layout:sections_permuted')
        if int(lay.get('pattern', 0)) & (8 | 32):
            out.append('layout:comment_lines_between_keys')
    return out


@st.composite
def combo_spec(draw, exec_='inproc', mode=None, function=None):
    sf = st.sampled_from
    if mode is None:
        mode = draw(sf(['same']*4 + ['auto']*3 + ['layered']*2 + ['load']*3))
    if function is None:
        function = draw(sf(['forward', 'misfit', 'gradient']))
    dry = draw(sf([False]*8 + [True]))
    lay_file = mode == 'load' and draw(st.booleans())
    simvar = 0
    prob = draw(problem_spec(layered=(mode == 'layered' or lay_file or
                                      mode == 'load')))
    if (function != 'forward' or mode == 'load') and \
            prob['nf'] is None and prob['re'] is None:
        prob['re'] = 0.05
    term = {'cfgarg': True}
    config = []
    fmt = {k: draw(sf(FORMATS + ['h5'])) for k in
           ('survey', 'model', 'output', 'save', 'sim')}
    # ---- files: default names / config / command line
    fcfg = []
    for k, stem in (('survey', 'sv'), ('model', 'md'), ('output', 'res')):
        how = draw(sf(['default', 'config', 'term']))
        if how == 'default' and fmt[k] == 'h5':
            continue
        name = draw(sf([f"{stem}.{fmt[k]}", f"my_{stem}.{fmt[k]}"] +
                       ([stem] if fmt[k] == 'h5' else [])))
        if how == 'term':
            term[k] = name
        else:
            fcfg.append(E('files', k, name, draw(DECO)))
    pth = draw(sf([None, None, 'config', 'term']))
    if pth == 'config':
        fcfg.append(E('files', 'path', draw(sf(['sub', './sub', 'a/b'])),
                      draw(DECO)))
    elif pth == 'term':
        term['path'] = draw(sf(['sub', 'a/b']))
    if draw(st.integers(0, 3)) == 0 or mode in ('load', 'auto'):
        # automatic gridding: always saved (the saved gridding options and
        # grids are what is left of the options in a forced dry run)
        if draw(st.booleans()) or mode == 'auto' or \
                mode == 'load' and draw(st.booleans()):
            name = f"saved.{fmt['save']}"
            if draw(st.booleans()):
                term['save'] = name
            else:
                fcfg.append(E('files', 'save', name, draw(DECO)))
    state = 'plain'
    if mode == 'load':
        state = draw(sf(['plain', 'computed', 'misfit']
                        if fmt['sim'] != 'json' else ['plain', 'computed']))
        name = f"stored.{fmt['sim']}"
        which = draw(sf(['load', 'load', 'cache']))
        if which == 'cache':
            # cache = load + save: drop a separate save of this level
            fcfg = [e for e in fcfg if e[1] != 'save']
            term.pop('save', None)
        if draw(st.booleans()):
            term[which] = name
        else:
            fcfg.append(E('files', which, name, draw(DECO)))
        term['clean'] = draw(sf([False, True]))
        if lay_file or draw(st.integers(0, 4)) == 0:
            term['layered'] = True
        # stored simulation of another variant than the survey / model files
        simvar = draw(sf([1, 1, 1, 0]))
        if simvar and len(prob['rec']) < 3:      # variant 1: last one dropped
            prob['rec'] = prob['rec'] + [['RxEP-9', 'EP']]
    config += fcfg
    # ---- simulation section
    sim = []
    one_worker = draw(sf(['config', 'term']))
    if one_worker == 'term':
        term['nproc'] = 1
    else:
        sim.append(E('simulation', 'max_workers', '1', draw(DECO)))
    if dry and draw(st.booleans()):
        sim = [e for e in sim if e[1] != 'max_workers']
        term['nproc'] = draw(sf([None, 2, 4]))
        if draw(st.booleans()):
            sim.append(E('simulation', 'max_workers',
                         draw(sf(['2', '3', '8'])), draw(DECO)))
    if mode in ('same', 'layered', 'load'):
        sim.append(E('simulation', 'gridding', 'same', draw(DECO)))
    elif draw(st.integers(0, 2)) > 0:
        sim.append(E('simulation', 'gridding', draw(
            value_strategy('simulation', 'gridding', prob)), draw(DECO)))
    for k in ('name', 'file_dir', 'receiver_interpolation'):
        if draw(st.integers(0, 3)) == 0:
            if k == 'file_dir' and mode in ('layered', 'load'):
                continue
            sim.append(E('simulation', k, draw(
                value_strategy('simulation', k, prob)), draw(DECO)))
    if mode == 'layered':
        if draw(st.booleans()):
            term['layered'] = True
        else:
            sim.append(E('simulation', 'layered', draw(sf(['True', 'true'])),
                         draw(DECO)))
    config += sim
    # ---- solver options
    skeys = _keys('solver_opts')
    if mode == 'auto':
        sol = [E('solver_opts', 'plain', 'True', draw(DECO)),
               E('solver_opts', 'tol', draw(sf(['1e-2', '1e-3'])),
                 draw(DECO))]
        sol += draw(draw_entries('solver_opts', [
            'cycle', 'verb', 'maxit', 'nu_init', 'nu_pre', 'nu_coarse',
            'nu_post', 'clevel', 'tol_gradient'], prob, 0, 2))
    else:
        sol = draw(draw_entries('solver_opts', skeys, prob, 0, 4))
    config += sol
    # ---- gridding options
    if mode == 'auto':
        config += draw(draw_entries('gridding_opts', _keys('gridding_opts'),
                                    prob, 0, 4))
    # ---- noise, data, layered
    if function == 'forward' or draw(st.integers(0, 5)) == 0:
        config += draw(draw_entries('noise_opts', _keys('noise_opts'),
                                    prob, 0, 3))
    if draw(st.integers(0, 2)) == 0:
        config += draw(draw_entries('data', _keys('data'), prob, 1, 3))
    if mode == 'layered' or draw(st.integers(0, 9)) == 0:
        config += draw(draw_entries('layered', _keys('layered'), prob, 0, 3))
    term['verbosity'] = draw(sf([None, None, None, '-q', '-v', '-vv', 0, -1,
                                 2, 1, '-vvv', '-v -v', '--verbose',
                                 '--quiet']))
    term['long'] = draw(st.booleans())
    term['eq'] = draw(sf([False, False, True]))
    term['fnflag'] = draw(sf(['short', 'short', 'long'] + (
        ['none'] if function == 'forward' else [])))
    term['dryflag'] = draw(sf(['short', 'long']))
    cfgname = draw(sf(['emg3d.cfg', 'emg3d.cfg', 'run1.cfg']))
    if cfgname == 'emg3d.cfg':
        term['cfgarg'] = draw(st.booleans())
    spec = {'problem': prob, 'config': config, 'function': function,
            'term': term, 'dry': dry, 'exec': exec_, 'cfgname': cfgname,
            'files': [], 'layout': draw(layout_spec())}
    spec['files'] = files_for(spec, state, lay_file, simvar)
    return spec


# -------------------------------------------------------------- override
OVERRIDE_ITEMS = ['survey', 'model', 'output', 'save', 'load', 'cache',
                  'path', 'nproc', 'layered', 'cache_load', 'cache_save']
# where cache and the load / save it overrules are given: both in the file,
# both on the command line, or cache on the command line and the other one
# in the file.  (cache in the file against --load / --save on the command
# line is left out: "cache overrules load and save" and "the command line
# overrules the file" point in opposite directions there.)
CACHE_LEVELS = ['file', 'term', 'term_over_file']


@st.composite
def override_spec(draw, item=None, function=None):
    sf = st.sampled_from
    if item is None:
        item = draw(sf(OVERRIDE_ITEMS))
    if function is None:
        function = draw(sf(['misfit', 'gradient', 'forward']))
    prob = draw(problem_spec(layered=True))
    if len(prob['rec']) < 3:
        prob['rec'] = prob['rec'] + [['RxEP-9', 'EP']]
    if function != 'forward' and prob['nf'] is None and prob['re'] is None:
        prob['re'] = 0.05
    fa, fb = draw(sf(FORMATS)), draw(sf(FORMATS))
    ctx = CTX_SAME + CTX_PLAIN + CTX_NONOISE
    term = {'cfgarg': True}
    config, files, absent, untouched = [], [], [], []
    cachelevel = None
    dry = False
    one = True
    if item in ('survey', 'model'):
        config.append(E('files', item, f"{item}_A.{fa}", draw(DECO)))
        term[item] = f"{item}_B.{fb}"
        files += [[f"{item}_A.{fa}", item, 0], [f"{item}_B.{fb}", item, 1]]
    elif item in ('output', 'save'):
        config.append(E('files', item, f"{item}_A.{fa}", draw(DECO)))
        term[item] = f"{item}_B.{fb}"
        absent.append(f"{item}_A.{fa}")
    elif item in ('load', 'cache'):
        fa = fa if fa != 'json' else 'h5'
        fb = fb if fb != 'json' else 'npz'
        config.append(E('files', item, f"sim_A.{fa}", draw(DECO)))
        term[item] = f"sim_B.{fb}"
        state = draw(sf(['plain', 'computed']))
        files += [[f"sim_A.{fa}", 'sim', 0, state, False],
                  [f"sim_B.{fb}", 'sim', 1, state, False]]
    elif item in ('cache_load', 'cache_save'):
        # "cache overrules load and save": sim_A is read AND written;
        # sim_B (another simulation) is not read, out_B is not written
        fa = fa if fa != 'json' else 'h5'
        fb = fb if fb != 'json' else 'npz'
        level = draw(sf(CACHE_LEVELS))
        other = 'load' if item == 'cache_load' else 'save'
        oname = f"sim_B.{fb}" if other == 'load' else f"out_B.{fb}"
        order = draw(st.booleans())
        if level == 'file':
            ents = [E('files', 'cache', f"sim_A.{fa}", draw(DECO)),
                    E('files', other, oname, draw(DECO))]
            config += ents if order else ents[::-1]
        elif level == 'term':
            term['cache'] = f"sim_A.{fa}"
            term[other] = oname
        else:
            term['cache'] = f"sim_A.{fa}"
            config.append(E('files', other, oname, draw(DECO)))
        state = draw(sf(['plain', 'computed']))
        # sim_A differs from the survey / model files (variant 0) as well
        files += [[f"sim_A.{fa}", 'sim', 1, state, False]]
        if other == 'load':
            files += [[oname, 'sim', 0, state, False]]
            if draw(st.booleans()):
                term['clean'] = True
        else:
            absent.append(oname)
        cachelevel = level
        if other == 'load':
            untouched.append(oname)
    elif item == 'path':
        config.append(E('files', 'path', 'dirA', draw(DECO)))
        term['path'] = 'dirB'
        files += [['dirA/survey.h5', 'survey', 0],
                  ['dirA/model.h5', 'model', 0],
                  ['dirB/survey.h5', 'survey', 1],
                  ['dirB/model.h5', 'model', 1]]
        absent += ['dirA/emg3d_out.h5', 'dirA/emg3d_out.log']
    elif item == 'nproc':
        one = False
        config.append(E('simulation', 'max_workers',
                        draw(sf(['2', '3', '4'])), draw(DECO)))
        term['nproc'] = draw(sf([1, 1, 2, 5]))
        dry = term['nproc'] != 1
        term['save'] = f"saved.{draw(sf(['h5', 'npz']))}"
    elif item == 'layered':
        config.append(E('simulation', 'layered',
                        draw(sf(['False', 'false', 'no'])), draw(DECO)))
        term['layered'] = True
    if one:
        ctx = ctx + CTX_W1
    spec = {'problem': prob, 'config': with_context(config, ctx),
            'function': function, 'term': term, 'dry': dry,
            'exec': 'inproc', 'files': [], 'absent': absent,
            'override': item}
    if cachelevel:
        spec['cachelevel'] = cachelevel
        spec['untouched'] = untouched
    need = files_for(spec)
    have = {f[0] for f in files}
    spec['files'] = files + [f for f in need if f[0] not in have]
    return spec


# ---------------------------------------------------------------- reject
UNKNOWN_KEYS = ['foo', 'another', 'tolerance', 'maxiter', 'workers',
                'cell_size', 'noise', 'sigma']
UNKNOWN_SECTIONS = ['solver', 'gridding', 'noise', 'Simulation', 'foo',
                    'solver_options', 'general']
UNKNOWN_FLAGS = [['--foo'], ['--tol', '1e-3'], ['-x'], ['--nprocs', '2'],
                 ['--grid'], ['second.cfg'], ['--maxit=3']]


@st.composite
def reject_spec(draw, kind=None, sec=None, company=None, function=None,
                stored='draw'):
    sf = st.sampled_from
    if kind is None:
        kind = draw(sf(['key', 'key', 'key', 'section', 'flag']))
    if function is None:
        function = draw(sf(['forward', 'misfit', 'gradient']))
    prob = draw(problem_spec())
    if function != 'forward' and prob['nf'] is None and prob['re'] is None:
        prob['re'] = 0.05
    config = with_context([], CTX_SAME + CTX_W1 + CTX_PLAIN)
    config = [e[:4] for e in config]
    term = {'cfgarg': True}
    extra_sections = []
    dry = draw(st.booleans())
    if kind == 'key':
        if sec is None:
            sec = draw(sf(SECTIONS))
        foreign = [k for (s, k) in TABLE
                   if s != sec and (sec, k) not in TABLE
                   and (sec, k) not in UNDOCUMENTED]
        key = draw(sf(UNKNOWN_KEYS + foreign))
        bad = E(sec, key, draw(sf(['1', 'True', 'abc', '0.5'])), draw(DECO))
        # company of the unknown key in its section: 'base' = as in the
        # fixed context (alone in files/gridding/noise/data/layered, with
        # the context keys in simulation/solver_opts), 'alone', or 'mixed'
        # with 1-3 valid keys of that section at a random position
        if company is None:
            company = draw(sf(['base', 'alone', 'mixed', 'mixed']))
        if company == 'base':
            config.append(bad)
        else:
            mine = [e for e in config if e[0] == sec]
            config = [e for e in config if e[0] != sec]
            if company == 'alone':
                mine = []
            elif sec == 'files':
                mine = draw(st.lists(sf([
                    E('files', 'output', 'res.npz'),
                    E('files', 'survey', 'survey.h5'),
                    E('files', 'model', 'model.h5'),
                    E('files', 'path', '.')]), min_size=1, max_size=3,
                    unique_by=lambda e: e[1]))
            elif sec == 'simulation':
                mine = mine + draw(draw_entries(
                    'simulation', ['name', 'receiver_interpolation'], prob,
                    0, 2))
            elif sec == 'gridding_opts':
                # valid only with automatic gridding: drop 'gridding = same'
                config = [e for e in config if e[1] != 'gridding']
                mine = draw(draw_entries('gridding_opts',
                                         _keys('gridding_opts'), prob, 1, 3))
                dry = True
            elif sec == 'layered':
                mine = draw(draw_entries('layered', _keys('layered'), prob,
                                         1, 3))
            elif sec not in ('solver_opts',):
                mine = draw(draw_entries(sec, _keys(sec), prob, 1, 3))
            else:
                mine = mine + draw(draw_entries(
                    'solver_opts', ['cycle', 'maxit', 'nu_pre', 'verb'],
                    prob, 0, 2))
            pos = draw(st.integers(0, len(mine)))
            mine = [e[:4] for e in mine]
            config += mine[:pos] + [bad] + mine[pos:]
            if sec == 'simulation' and not any(
                    e[1] == 'max_workers' for e in config):
                term['nproc'] = 1
        # ... also when a stored simulation is loaded ("almost all
        # parameters in the config file are ignored" - but not unchecked)
        if stored == 'draw':
            stored = draw(sf([None, None, None, 'load', 'cache']))
        if stored:
            if draw(st.booleans()) or sec == 'files':
                term[stored] = 'stored.h5'
            else:
                config.insert(0, E('files', stored, 'stored.h5', draw(DECO)))
    elif kind == 'section':
        extra_sections = [draw(sf(UNKNOWN_SECTIONS))]
    else:
        term['extra'] = draw(sf(UNKNOWN_FLAGS))
    spec = {'problem': prob, 'config': config, 'function': function,
            'term': term, 'dry': dry, 'exec': 'inproc',
            'extra_sections': extra_sections, 'files': []}
    spec['layout'] = draw(layout_spec())
    stored = stored if kind == 'key' else None
    if kind == 'key':
        spec['company'] = company + ('+' + stored if stored else '')
    clean = dict(spec, config=[e for e in config if (e[0], e[1]) in TABLE],
                 term={k: v for k, v in term.items() if k != 'extra'},
                 extra_sections=[])
    spec['files'] = files_for(clean, 'plain')
    return spec


# ======================================================================
# 8. Sub-checks
# ======================================================================
_case_single = case_fn('')
_BASELINE = {}


def case_single(spec, rec):
    """One documented key / flag alone; additionally classifies whether the
    option changed the result with respect to the context alone."""
    _case_single(spec, rec)
    if 'run:real' not in rec.classes:
        return
    note = rec.note_ or {}
    dig = (note.get('info') or {}).get('digest_')
    if not dig:
        return
    base = dict(spec, config=[e for e in spec['config']
                              if len(e) > 4 and e[4] == 'ctx'])
    base['term'] = {'cfgarg': True, 'nproc': 1}
    if base['config'] == spec['config'] and base['term'] == spec['term']:
        return
    base['files'] = files_for(base)
    key = json.dumps([base['problem'], base['config'], base['function']],
                     sort_keys=True)
    if key not in _BASELINE:
        try:
            _BASELINE[key] = run_case(base, None, False).get('digest')
        except (Failure, Inconclusive):
            _BASELINE[key] = None
    if _BASELINE[key] is not None:
        rec.cls('effect:changes_result' if _BASELINE[key] != dig
                else 'effect:same_as_context')
case_combo = case_fn('')
case_subproc = case_fn('')


def case_override(spec, rec):
    try:
        info = run_case(spec, rec)
    except Failure as f:
        raise Violation(f"override:{spec.get('override')}:{f.kind}",
                        f"command line must override the configuration "
                        f"file: {f.message}",
                        {'args': cli_args(spec),
                         'config_text': render_config(
                             spec['config'], spec.get('layout'))})
    rec.cls(f"item:{spec.get('override')}")
    if spec.get('cachelevel'):
        rec.cls(f"cache_overrules:{spec['cachelevel']}")
    classify(spec, rec, info)


def case_reject(spec, rec):
    try:
        info = run_case(spec, rec)
    except Failure as f:
        raise Violation(f.kind, f.message,
                        {'args': cli_args(spec),
                         'config_text': render_config(
                             spec['config'], spec.get('layout')),
                         'extra_sections': spec.get('extra_sections')})
    if info['class'] != 'rejected':
        raise HarnessError("reject generator produced a valid invocation")
    ref_unknown = build_ref(spec, '/WD')['unknown'][0]
    kind = ('section' if ref_unknown.startswith('[') else
            'flag' if ref_unknown.startswith('flag') else 'key')
    rec.cls(f"kind:{kind}", f"fn:{spec['function']}",
            'dry' if spec.get('dry') else 'real')
    if kind == 'key':
        rec.cls(f"key_in:{ref_unknown.split('.')[0]}",
                *[f"company:{c}" for c in
                  spec.get('company', 'base').split('+')])
    rec.cls(*layout_classes(spec))
    rec.nt([ref_unknown, spec['function'], bool(spec.get('dry')),
            spec.get('company'), (spec.get('layout') or {}).get('kind')])
    rec.note({'unknown': ref_unknown, 'args': cli_args(spec)})


def case_info(spec, rec):
    """--version / --report: print and exit, nothing is computed."""
    import emg3d
    from emg3d.cli.main import main
    flag = spec['flag']
    args = [flag] + spec.get('more', [])
    buf = io.StringIO()
    old_argv = sys.argv
    err = None
    with warnings.catch_warnings():
        warnings.simplefilter('ignore')
        with _workdir() as wd:
            write_files(SMALL_PROBLEM, [['survey.h5', 'survey', 0],
                                        ['model.h5', 'model', 0]], wd)
            before = set(os.listdir(wd))
            try:
                sys.argv = ['emg3d'] + args
                with contextlib.redirect_stdout(buf):
                    try:
                        main(list(args))
                    except SystemExit as e:
                        if e.code not in (0, None):
                            err = f"exit {e.code}"
            finally:
                sys.argv = old_argv
                _reset_logging()
            after = set(os.listdir(wd))
    if err:
        raise Violation(f'info_flag_fails:{flag}', err)
    if after != before:
        raise Violation(f'info_flag_writes:{flag}',
                        f"files written: {sorted(after-before)}")
    out = buf.getvalue().strip()
    if flag == '--version':
        want = f"emg3d v{emg3d.__version__}"
        if out != want:
            raise Violation('info_flag_output:--version',
                            f"{out!r} != {want!r}")
    else:
        if 'emg3d' not in out or 'numpy' not in out:
            raise Violation('info_flag_output:--report', out[:300])
    rec.cls(f"flag:{flag}")
    rec.nt([flag, spec.get('more')])
    rec.note({'flag': flag, 'stdout': out[:80]})


SUBS = {'info': case_info, 'single': case_single, 'combo': case_combo,
        'override': case_override, 'reject': case_reject,
        'subproc': case_subproc}


def check_table():
    doc = doc_examples()
    a, b = set(doc), set(TABLE)
    if a != b:
        raise HarnessError(
            "checker table out of date with docs/manual/cli.rst: only in "
            f"rst {sorted(a-b)}, only in table {sorted(b-a)}")


def run(ctx):
    ctx.regression(SUBS)
    check_table()
    ctx.notes['documented_keys'] = len(TABLE)
    specs = single_specs(ctx.quick)
    ctx.notes['single_cases'] = len(specs)
    ctx.enumerate('single', specs, case_single, exhaustive=True)
    fns = ['forward', 'misfit', 'gradient']
    k = 0
    for mode, nq, nt in (('same', 4, 10), ('auto', 3, 8), ('layered', 2, 5),
                         ('load', 3, 9)):
        for fn in fns:
            k += 1
            ctx.explore('combo', combo_spec(mode=mode, function=fn),
                        case_combo, ctx.n(nq, nt), shrink=False,
                        max_rounds=10, salt=k)
    for i, item in enumerate(OVERRIDE_ITEMS):
        ctx.explore('override', override_spec(item=item), case_override,
                    ctx.n(2, 3), shrink=False, salt=i)
    for i, (kind, nq, nt) in enumerate((('key', 3, 12), ('section', 4, 5),
                                        ('flag', 5, 6))):
        ctx.explore('reject', reject_spec(kind=kind), case_reject,
                    ctx.n(nq, nt), shrink=False, salt=i)
    # unknown key: every section x company of valid keys in that section
    i = 10
    for sec in SECTIONS:
        for company, nq, nt in (('base', 1, 2), ('alone', 1, 2),
                                ('mixed', 2, 3)):
            i += 1
            stored = [None, 'load', None, 'cache'][(i - 11) % 4]
            ctx.explore('reject', reject_spec('key', sec, company,
                                              fns[(i + i//3) % 3], stored),
                        case_reject, ctx.n(nq, nt), shrink=False, salt=i)
    ctx.explore('subproc', combo_spec('subproc'), case_subproc,
                ctx.n(1, 2), shrink=False)
    ctx.enumerate('info', [{'flag': '--version'},
                           {'flag': '--report', 'more': ['-f']}],
                  case_info)

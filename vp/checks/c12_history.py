"""C12 - simulation results are a function of (model, survey), not history."""
import os
import shutil
import tempfile
import warnings

import numpy as np
from hypothesis import strategies as st
from hypothesis.stateful import (RuleBasedStateMachine, initialize, rule,
                                 precondition)

from vp import gen
from vp.framework import (Violation, Rec, VERIF, exception_to_violation,
                          HarnessError)

RULE = ("Rule-based state machine (<= 8 steps after initialisation) over "
        "{compute, observe, misfit, gradient, jvec(v_i), jtvec(w_i) with TWO "
        "vectors "
        "each (also as (1,nx,ny,nz) array / DataArray), get_efield/get_hfield "
        "of every source-frequency pair by key or by float frequency, "
        "inspect (repr, html, print_grid_info, print_solver_info, get_grid, "
        "get_model, get_efield_info), clean(computed|keepresults|all), "
        "copy(what), to_dict/from_dict(what), to_file/from_file(h5|npz|json "
        "x what), model replacement + clean(all|computed), fork-and-mutate, "
        "detach (the run continues with the copy while the original is "
        "driven on: other model, clean, gradient, in-place edits)} on small "
        "problems: isotropic / VTI, 8x6x6 cells, 2 sources incl. a magnetic "
        "one, 2 frequencies, 3 receivers incl. a relative and a magnetic "
        "one, observed data with a NaN; either gridding 'same' with unit "
        "source strengths and scalar noise_floor / relative_error (the "
        "problems of the earlier rounds) or gridding 'input' (computational "
        "grid 6x8x6 != model grid) / 'dict' (model grid for one "
        "source-frequency pair, the 6x8x6 grid for the others) with "
        "strengths 2.5 / -0.7, dipole length 30 and array-valued "
        "noise_floor / relative_error; in memory and file based, tol != "
        "tol_gradient (quick tier: 'input' with the isotropic, 'dict' with "
        "the VTI problem only).  observe = compute(observed=True, add_noise=False) "
        "is an operation too: from then on the references for misfit and "
        "gradient are those of a fresh simulation whose observed data are "
        "the fresh synthetic data of that model.  After every query the "
        "reported "
        "synthetic data, misfit, gradient, jvec, jtvec, fields must equal "
        "those of a FRESH simulation of the current model (computed lazily, "
        "once per process): in the max-norm and, for data / jvec / fields, "
        "per entry; the solver info must report tol (forward) / "
        "tol_gradient (back-propagation); a copy / reloaded simulation must "
        "carry the options of the fresh one; exceptions on documented "
        "operations are violations; a mutated copy/reloaded simulation must "
        "not affect its original and vice versa.  In addition every ordered "
        "pair of state-changing operations (quick: 15 operations, thorough: "
        "29) is enumerated after a rotating prefix (gradient every second "
        "time, else compute / one efield / jtvec / nothing), with rotating "
        "problem (file based one in 19) and followed by misfit, gradient "
        "and a rotating last step (jvec(v1), jtvec(w1), e/h-fields, "
        "synthetic, fork by copy / by to_dict without deep copy, nothing).  "
        "Non-trivial = a query after a state-changing operation other than "
        "compute; distinct by history.")
ASSUMPTIONS = [
    "equality thresholds, max-norm: data/misfit/fields 1e-6 (1e4 x tol), "
    "gradient / jvec / jtvec 1e-3 (1e2 x tol_gradient) of the max-norm; per "
    "entry: synthetic 1e-5 |ref_i|, jvec 3e-2 |ref_i|, e/h-field 1e-5 "
    "|ref_i| + 1e-7 max|ref|; those of synthetic and fields are widened to "
    "20 x the entry's own solver noise |ref_i(tol) - ref_i(tol/1e3)| "
    "measured from fresh simulations, but to at most 0.3 |ref_i|.  Measured "
    "solver noise per entry over all problems, both models and vectors "
    "(tol=1e-10, tol_gradient=1e-5 against 1e-14): synthetic <= 5.3e-8 "
    "|ref_i|, jvec <= 9.1e-4 |ref_i|, e/h-fields <= 5e-3 of their "
    "threshold, i.e. margins >= 190 / 33 / 200.  gradient / jtvec are "
    "compared in the max-norm only: their solver noise is 1.4e-4 of the "
    "max-norm and up to 31 % per cell in the small cells, a per-cell "
    "threshold with margin would be weaker than the max-norm one.  On the "
    "pinned tree the results were bit-identical in all explored histories",
    "clean() keeps the observed data and the model; replacing the model is "
    "`sim.model = new` followed by clean('all') or clean('computed') "
    "(gridding 'same', 'input', 'dict': the grids do not depend on the "
    "model)",
    "a copy of a file-based simulation shares the files of its original by "
    "design (to_file docstring: 'those files will remain there'), so no "
    "clean / recomputation is made on one of the two while the other is "
    "still used",
    "solver info: info['tol'] is documented in emg3d.solve; the one of the "
    "back-propagated fields is read from the private _dict_bfield_info "
    "(skipped if absent)",
]
SHARDS = {'quick': 1, 'thorough': 16}

TOL, TOLG = 1e-10, 1e-5
WHATS_CLEAN = ['computed', 'keepresults', 'all']
WHATS_STORE = ['computed', 'results', 'all', 'plain']
FORMATS = ['h5', 'npz', 'json']

# Generator branches that found genuine violations when they were added
# (round-3 audit; stand-alone reproducers in /tmp/audit/C12_finding.md, now
# repaired in emg3d and kept as regression replays findings/C12/
# dict_grid_clean_history.json and observed_stale_misfit.json).  Set a flag
# to False to keep the check quiet on a tree that lacks the repair.
#  - gridding='dict': clean('keepresults'|'all') re-initiated the
#    user-provided `_dict_grid` with None's, the next computation raised
#    TypeError (construct_mesh() missing arguments); fixed by 1a0a38f.
ENABLE_GRIDDING_DICT = True
#  - compute(observed=True, add_noise=False) after misfit/gradient: the
#    cached misfit, gradient, residual and weights of the OLD observed data
#    were returned; fixed by c252246.
ENABLE_OBSERVE = True

# per-entry thresholds: what -> (rtol on |ref_i|, floor on max|ref|)
# and whether the threshold is widened by the measured solver noise (not for
# jvec: two more tightly solved simulations per model and vector are too
# expensive for the quick tier; its fixed threshold has a measured margin)
PER_ENTRY = {'synthetic': (1e-5, 0.0, True), 'jvec': (3e-2, 0.0, False),
             'efield': (1e-5, 1e-7, True), 'hfield': (1e-5, 1e-7, True)}
# ... widened to NOISE_FACTOR x the measured solver noise of the entry, but
# never beyond NOISE_CAP x |ref_i| + floor (so that a wrong noise estimate
# cannot blind the comparison).
NOISE_FACTOR = 20
NOISE_CAP = 0.3

SRC = ['TxED-1', 'TxMP-2']
FRQ = ['f-1', 'f-2']

_CACHE = {}


def _tmpdir():
    base = os.path.join(VERIF, '.cache', 'tmp')
    os.makedirs(base, exist_ok=True)
    return tempfile.mkdtemp(prefix='c12_', dir=base)


def _cfg(config):
    """(case, gridding, survey) of a config; old specs have only 'case'."""
    return (config['case'], config.get('gridding', 'same'),
            config.get('survey', 'plain'))


def _problem(case, gridding='same', survey='plain'):
    """Fixed small problem; two model variants A/B.  References are computed
    lazily (`_ref`)."""
    import emg3d
    key = (case, gridding, survey)
    if key in _CACHE:
        return _CACHE[key]
    rng = gen.rng_of(1234, 12)
    hx = np.array([120., 100, 80, 70, 80, 100, 120, 150])
    hy = np.array([100., 90, 80, 90, 100, 110])
    hz = np.array([90., 80, 70, 80, 90, 100])
    grid = emg3d.TensorMesh([hx, hy, hz], origin=(-400, -280, -250))
    shape = grid.shape_cells
    models = {}
    for name in 'AB':
        px = 10**rng.uniform(-0.5, 0.5, size=shape)
        pz = 10**rng.uniform(-0.5, 0.5, size=shape) if case == 'VTI' else None
        models[name] = emg3d.Model(grid, px, None, pz, mapping='Resistivity')
    if survey == 'rich':
        src = [emg3d.TxElectricDipole((-120, 20, -30, 10, 20), strength=2.5,
                                      length=30.0),
               emg3d.TxMagneticPoint((80, -30, 40, 40, -10), strength=-0.7)]
        nf = np.array([1e-13, 2e-13, 1.5e-13])[None, :, None]
        re = np.array([0.03, 0.05])[None, None, :]
    else:
        src = [emg3d.TxElectricDipole((-120, 20, -30, 10, 20)),
               emg3d.TxMagneticPoint((80, -30, 40, 40, -10))]
        nf, re = 1e-13, 0.03
    rec = [emg3d.RxElectricPoint((130, 100, -60, 0, 0)),
           emg3d.RxMagneticPoint((20, -100, 60, 30, 40)),
           emg3d.RxElectricPoint((60, 40, -20, 20, 5), relative=True)]
    freqs = [0.7, 2.0]
    ncomp = 2 if case == 'VTI' else 1
    v0 = rng.standard_normal(((ncomp,) if ncomp > 1 else ()) + tuple(shape))
    w0 = rng.standard_normal((2, 3, 2)) + 1j*rng.standard_normal((2, 3, 2))
    # computational grid(s) other than the model grid: same domain
    # (820 x 570 x 510 m), other cell numbers and widths.
    g2 = emg3d.TensorMesh(
        [np.array([150., 140, 120, 120, 140, 150]),
         np.array([80., 70, 65, 60, 65, 70, 75, 85]),
         np.array([100., 85, 70, 70, 85, 100])], origin=(-400, -280, -250))
    if gridding == 'input':
        gopts = g2
    elif gridding == 'dict':
        gopts = {SRC[0]: {FRQ[0]: grid, FRQ[1]: g2},
                 SRC[1]: {FRQ[0]: g2, FRQ[1]: g2}}
    elif gridding == 'same':
        gopts = None
    else:
        raise HarnessError(f"unknown gridding {gridding}")
    prob = dict(grid=grid, models=models, src=src, rec=rec, freqs=freqs,
                v0=v0, w0=w0, case=case, gridding=gridding, gopts=gopts,
                survey=survey, nf=nf, re=re, ref={}, noise={})
    # observed data from a third model, with one NaN
    sv = emg3d.Survey(src, rec, freqs)
    true = emg3d.Model(grid, 10**rng.uniform(-0.5, 0.5, size=shape),
                       mapping='Resistivity')
    s = _make_sim(prob, sv, true)
    s.compute(observed=True, add_noise=False)
    obs = sv.data.observed.data.copy()
    obs[1, 0, 1] = np.nan
    prob['obs'] = obs
    w0[~np.isfinite(obs)] = 0
    # second pair of vectors (own stream: the draws above stay as they were)
    rng2 = gen.rng_of(1234, 13)
    v1 = rng2.standard_normal(v0.shape)
    w1 = rng2.standard_normal((2, 3, 2)) + 1j*rng2.standard_normal((2, 3, 2))
    w1[~np.isfinite(obs)] = 0
    prob['v'] = [v0, v1]
    prob['w'] = [w0, w1]
    _CACHE[key] = prob
    return prob


def _gopts_copy(gopts):
    if isinstance(gopts, dict):
        return {k: _gopts_copy(v) for k, v in gopts.items()}
    return gopts


def _make_sim(prob, survey, model, file_dir=None, tol=TOL, tolg=TOLG,
              maxit=100, verb=0):
    import emg3d
    kw = {'file_dir': file_dir} if file_dir else {}
    if prob.get('gopts') is not None:
        kw['gridding_opts'] = _gopts_copy(prob['gopts'])
    return emg3d.Simulation(
        survey, model, gridding=prob.get('gridding', 'same'), max_workers=1,
        receiver_interpolation='linear', tqdm_opts=False, verb=verb,
        solver_opts=dict(sslsolver=False, semicoarsening=True,
                         linerelaxation=True, tol=tol, tol_gradient=tolg,
                         maxit=maxit, verb=-1), **kw)


def _fresh(prob, name, file_dir=None, obsv=None, **kw):
    """Fresh simulation of model variant `name`; observed data: the fixed
    ones, or (obsv) the synthetic data of model variant `obsv`."""
    import emg3d
    data = prob['obs'] if obsv is None else _ref(prob, obsv, 'synthetic')
    sv = emg3d.Survey(prob['src'], prob['rec'], prob['freqs'],
                      data=data.copy(), noise_floor=_cp(prob['nf']),
                      relative_error=_cp(prob['re']))
    return _make_sim(prob, sv, prob['models'][name].copy(), file_dir, **kw)


def _cp(x):
    return x.copy() if isinstance(x, np.ndarray) else x


def _same_bc(a, b, shape):
    """Equal after broadcasting to the data shape."""
    if a is None or b is None:
        return a is None and b is None
    try:
        return np.array_equal(np.broadcast_to(np.asarray(a, float), shape),
                              np.broadcast_to(np.asarray(b, float), shape))
    except ValueError:
        return False


OBS_DEPENDENT = ('misfit', 'gradient')


def _ref(prob, name, what, obsv=None):
    """Reference result `what` of model variant `name` from a fresh
    simulation, computed on first use."""
    if what not in OBS_DEPENDENT:
        obsv = None
    key = (name, what, obsv)
    ref = prob['ref']
    if key in ref:
        return ref[key]
    with warnings.catch_warnings():
        warnings.simplefilter('ignore')
        if what == 'synthetic' or what.startswith(('efield', 'hfield')):
            f = _fresh(prob, name)
            f.compute()
            ref[(name, 'synthetic', None)] = f.data.synthetic.data.copy()
            for s in SRC:
                for q in FRQ:
                    ref[(name, f'efield:{s}:{q}', None)] = \
                        f.get_efield(s, q).field.copy()
                    ref[(name, f'hfield:{s}:{q}', None)] = \
                        f.get_hfield(s, q).field.copy()
        elif what == 'misfit':
            f = _fresh(prob, name, obsv=obsv)
            ref[key] = float(f.misfit)
        elif what == 'gradient':
            f = _fresh(prob, name, obsv=obsv)
            ref[key] = np.array(f.gradient).copy()
        elif what.startswith('jvec'):
            f = _fresh(prob, name)
            ref[key] = np.array(f.jvec(prob['v'][int(what[4:])])).copy()
        elif what.startswith('jtvec'):
            f = _fresh(prob, name)
            _ = f.misfit
            ref[key] = np.array(f.jtvec(prob['w'][int(what[5:])])).copy()
        else:
            raise HarnessError(f"unknown reference {what}")
    return ref[key]


def _noise(prob, name, what):
    """Per-entry solver noise of the reference `what`: difference to a fresh
    simulation with 1000 x (forward) / 10000 x (gradient) tighter
    tolerances."""
    key = (name, what)
    noise = prob['noise']
    if key in noise:
        return noise[key]
    with warnings.catch_warnings():
        warnings.simplefilter('ignore')
        f = _fresh(prob, name, tol=TOL*1e-3, tolg=TOLG*1e-4, maxit=200,
                   verb=-1)
        if what.startswith('jvec'):
            tight = np.array(f.jvec(prob['v'][int(what[4:])])).copy()
            noise[key] = np.abs(tight - _ref(prob, name, what))
        else:
            f.compute()
            noise[(name, 'synthetic')] = np.abs(
                f.data.synthetic.data - _ref(prob, name, 'synthetic'))
            for s in SRC:
                for q in FRQ:
                    noise[(name, f'efield:{s}:{q}')] = np.abs(
                        f.get_efield(s, q).field -
                        _ref(prob, name, f'efield:{s}:{q}'))
                    noise[(name, f'hfield:{s}:{q}')] = np.abs(
                        f.get_hfield(s, q).field -
                        _ref(prob, name, f'hfield:{s}:{q}'))
    return noise[key]


def _opname(op):
    name, args = op[0], op[1:]
    return name + ('(' + ','.join(str(a) for a in args) + ')' if args else '')


class Runner:
    """Executes operations on a real Simulation and compares with fresh
    references.  Used by the state machine and by --replay."""

    STATE_CHANGING = {'clean', 'copy', 'dict', 'file', 'model', 'jtvec',
                      'jvec', 'gradient', 'fork', 'observe', 'inspect',
                      'detach'}
    QUERIES = ('misfit', 'gradient', 'jvec', 'jtvec', 'synthetic',
               'efield', 'hfield')

    def __init__(self, config, rec=None):
        self.config = config
        self.prob = _problem(*_cfg(config))
        self.dirs = []
        self.file_dir = None
        if config['file']:
            self.file_dir = _tmpdir()
            self.dirs.append(self.file_dir)
        self.variant = 'A'
        self.obsv = None      # variant whose synthetic data are `observed`
        self.sim = _fresh(self.prob, 'A', self.file_dir)
        self.history = []
        self.rec = rec or Rec()
        self.nontrivial = False

    def close(self):
        for d in self.dirs:
            shutil.rmtree(d, ignore_errors=True)

    # ------------------------------------------------------------------
    def prev(self, k=1):
        """Name of the k-th previous state-changing operation."""
        ops = [o for o in self.history[:-1]
               if o[0] in self.STATE_CHANGING or o[0] == 'compute']
        return _opname(ops[-k]) if len(ops) >= k else 'init'

    def hist(self):
        return [_opname(o) for o in self.history]

    def step(self, op):
        self.history.append(list(op))
        name = op[0]
        try:
            with warnings.catch_warnings():
                warnings.simplefilter('ignore')
                getattr(self, 'op_'+name)(*op[1:])
        except (Violation, HarnessError):
            raise
        except Exception as e:
            if isinstance(e, MemoryError) or (
                    isinstance(e, OSError) and
                    os.path.join('.cache', 'numba') in str(e)):
                # not the code under test: the numba cache directory of this
                # tree was removed by a concurrent run / out of memory
                raise HarnessError(f"{type(e).__name__}: {str(e)[:300]}")
            v = exception_to_violation(e)
            if v is None:
                raise
            base = v.signature.split('[')[0]
            raise Violation(f"{base}:op={_opname(op)}:prev={self.prev()}",
                            f"{type(e).__name__}: {str(e)[:300]} in history "
                            f"{self.hist()}",
                            v.details) from e
        if name not in ('compute',) and any(
                o[0] in self.STATE_CHANGING for o in self.history[:-1]):
            if name in self.QUERIES:
                self.nontrivial = True

    def _cmp(self, what, got, tol, refname=None):
        """`what`: kind (signature, thresholds); `refname`: reference key."""
        refname = refname or what
        ref = np.atleast_1d(np.asarray(
            _ref(self.prob, self.variant, refname, self.obsv)))
        got = np.atleast_1d(np.asarray(got))
        if got.shape != np.shape(ref):
            raise Violation(f"{what}_shape:prev={self.prev()}",
                            f"{got.shape} vs {np.shape(ref)}; history "
                            f"{self.hist()}")
        nan_g, nan_r = np.isnan(got), np.isnan(ref)
        if not np.array_equal(nan_g, nan_r):
            raise Violation(f"{what}_nan_pattern:prev={self.prev()}",
                            f"NaN pattern differs; history {self.hist()}")
        scale = np.max(np.abs(ref[~nan_r])) if np.any(~nan_r) else 0
        if what in OBS_DEPENDENT and self.obsv is not None:
            # observed := synthetic of this model gives zero misfit and
            # gradient; the scale is then that of the original problem.
            # (1e-3 of it: a rounding-level residual stays far below, a
            # stale value of the old observed data is of order one.)
            scale = max(scale, 1e-3*np.max(np.abs(
                _ref(self.prob, self.variant, refname, None))))
        diff = np.max(np.abs((got-ref)[~nan_r])) if np.any(~nan_r) else 0
        if diff > tol*scale:
            raise Violation(
                f"{what}_differs_from_fresh:prev={self.prev()}",
                f"{refname}: max|diff| = {diff:.3e} vs scale {scale:.3e} "
                f"(rel {diff/max(scale, 1e-300):.2e}); history "
                f"{self.hist()}")
        if what in PER_ENTRY and np.any(~nan_r):
            rtol, floor, widen = PER_ENTRY[what]
            thr = rtol*np.abs(ref) + floor*scale
            if widen:
                thr = np.maximum(thr, np.minimum(
                    NOISE_FACTOR*_noise(self.prob, self.variant, refname),
                    NOISE_CAP*np.abs(ref) + floor*scale))
            d = np.abs(got - ref)
            bad = ~nan_r & (d > thr)
            if np.any(bad):
                k = np.unravel_index(
                    np.argmax(np.where(bad, d/np.maximum(thr, 1e-300), 0)),
                    d.shape)
                raise Violation(
                    f"{what}_entry_differs_from_fresh:prev={self.prev()}",
                    f"{refname}: {int(bad.sum())} of {d.size} entries "
                    f"differ; worst at {tuple(int(i) for i in k)}: got "
                    f"{got[k]:.6e}, fresh {ref[k]:.6e}, |diff| {d[k]:.3e} > "
                    f"{thr[k]:.3e} (max|ref| {scale:.3e}); history "
                    f"{self.hist()}")

    def _check_tol(self, which):
        """The documented solver info must report the tolerance the fresh
        simulation uses (forward: tol, back-propagation: tol_gradient)."""
        sim = self.sim
        for s in SRC:
            for q in FRQ:
                if which == 'efield':
                    info = sim.get_efield_info(s, q)
                    want = TOL
                else:
                    d = getattr(sim, '_dict_bfield_info', None)
                    if d is None:
                        return
                    info = sim._dict_get('bfield_info', s, q)
                    want = TOLG
                if info is None:
                    continue
                if info['tol'] != want:
                    raise Violation(
                        f"{which}_solved_with_other_tol:prev={self.prev()}",
                        f"{which} {s} {q} was computed with tol="
                        f"{info['tol']}, fresh simulation: {want}; history "
                        f"{self.hist()}")

    def _check_options(self, new, how):
        """Options of a copy / reloaded simulation = those of a fresh one."""
        if 'options' not in self.prob:
            f = _fresh(self.prob, 'A')
            self.prob['options'] = {
                **{name: getattr(f, name) for name in [
                    'tol_forward', 'tol_gradient', 'receiver_interpolation',
                    'gridding', 'max_workers', 'layered', 'verb']},
                'solver_opts': {k: v for k, v in f.solver_opts.items()
                                if k != 'tol'},
                'noise_floor': f.survey.noise_floor,
                'relative_error': f.survey.relative_error}
        want = dict(self.prob['options'])
        want['file_dir'] = (os.path.abspath(self.file_dir)
                            if self.file_dir else None)
        bad = []
        for name in ['tol_forward', 'tol_gradient', 'receiver_interpolation',
                     'gridding', 'max_workers', 'file_dir', 'layered',
                     'verb']:
            if getattr(new, name) != want[name]:
                bad.append(f"{name}: {getattr(new, name)!r} != "
                           f"{want[name]!r}")
        so_n = {k: v for k, v in new.solver_opts.items() if k != 'tol'}
        if so_n != want['solver_opts']:
            bad.append(f"solver_opts: {so_n} != {want['solver_opts']}")
        for name in ['noise_floor', 'relative_error']:
            if not _same_bc(getattr(new.survey, name), want[name],
                            new.survey.shape):
                bad.append(f"survey.{name}")
        if bad:
            raise Violation(
                f"options_lost:{how}:"
                f"{'+'.join(b.split(':')[0].replace(' ', '_') for b in bad)}",
                f"{how}: {bad}; history {self.hist()}")

    # --- operations -----------------------------------------------------
    def op_compute(self):
        self.sim.compute()
        self._cmp('synthetic', self.sim.data.synthetic.data, 1e-6)
        self._check_tol('efield')

    def op_synthetic(self):
        if self.sim._computed:
            self._cmp('synthetic', self.sim.data.synthetic.data, 1e-6)

    def op_misfit(self):
        m = self.sim.misfit
        if isinstance(m, (memoryview, bytes, str)) or np.ndim(m) != 0 or \
                not np.isrealobj(np.asarray(m)):
            raise Violation(f"misfit_not_a_real_number:prev={self.prev()}",
                            f"misfit is {type(m).__name__}: {m!r}; history "
                            f"{self.hist()}")
        self._cmp('misfit', float(m), 1e-6)
        self._cmp('synthetic', self.sim.data.synthetic.data, 1e-6)
        self._check_tol('efield')

    def op_gradient(self):
        self._cmp('gradient', self.sim.gradient, 1e-3)
        self._check_tol('efield')
        self._check_tol('bfield')

    def op_jvec(self, i=0, form='nd'):
        v = self.prob['v'][i]
        if form == '4d' and v.ndim == 3:     # documented for isotropic
            v = v[None, ...]
        self._cmp('jvec', self.sim.jvec(v), 1e-3, f'jvec{i}')
        self._check_tol('efield')

    def op_jtvec(self, i=0, form='nd'):
        w = self.prob['w'][i]
        if form == 'da':                     # documented: DataArray
            _ = self.sim.misfit
            w = self.sim.data.observed.copy(data=w.copy())
        self._cmp('jtvec', self.sim.jtvec(w), 1e-3, f'jtvec{i}')
        self._check_tol('efield')

    def _sf(self, si, fi, form):
        s, q = SRC[si], FRQ[fi]
        return s, q, (self.prob['freqs'][fi] if form == 'float' else q)

    def op_efield(self, si=0, fi=0, form='key'):
        s, q, arg = self._sf(si, fi, form)
        f = self.sim.get_efield(s, arg)
        self._cmp('efield', f.field, 1e-6, f'efield:{s}:{q}')

    def op_hfield(self, si=1, fi=1, form='key'):
        s, q, arg = self._sf(si, fi, form)
        f = self.sim.get_hfield(s, arg)
        self._cmp('hfield', f.field, 1e-6, f'hfield:{s}:{q}')

    def op_inspect(self, si=0, fi=0):
        """Read-only public helpers; some fill per-object caches."""
        sim = self.sim
        s, q = SRC[si], FRQ[fi]
        repr(sim)
        sim._repr_html_()
        sim.print_grid_info(verb=1, return_info=True)
        sim.print_solver_info('efield', verb=1, return_info=True)
        g = sim.get_grid(s, self.prob['freqs'][fi])
        sim.get_model(s, q)
        sim.get_efield_info(s, q)
        want = self.prob['grid']
        if self.prob['gridding'] == 'input':
            want = self.prob['gopts']
        elif self.prob['gridding'] == 'dict':
            want = self.prob['gopts'][s][q]
        if tuple(g.shape_cells) != tuple(want.shape_cells) or any(
                not np.array_equal(a, b) for a, b in zip(g.h, want.h)):
            raise Violation(f"grid_differs_from_fresh:prev={self.prev()}",
                            f"get_grid({s},{q}) = {g.shape_cells}; history "
                            f"{self.hist()}")

    def op_observe(self):
        """compute(observed=True, add_noise=False): the survey's observed
        data become the synthetic data of the current model."""
        self.sim.compute(observed=True, add_noise=False)
        self.obsv = self.variant
        got, ref = self.sim.data.observed.data, _ref(
            self.prob, self.variant, 'synthetic')
        if not np.allclose(got, ref, rtol=1e-5, atol=0):
            raise Violation(f"observed_not_synthetic:prev={self.prev()}",
                            f"history {self.hist()}")
        self._cmp('synthetic', self.sim.data.synthetic.data, 1e-6)

    def op_clean(self, what):
        self.sim.clean(what)

    def op_copy(self, what):
        self.sim = self.sim.copy(what)
        self._check_options(self.sim, 'copy')

    def op_dict(self, what):
        import emg3d
        self.sim = emg3d.Simulation.from_dict(self.sim.to_dict(what, True))
        self._check_options(self.sim, 'dict')

    def op_file(self, fmt, what):
        import emg3d
        d = _tmpdir()
        self.dirs.append(d)
        fn = os.path.join(d, 'sim.'+fmt)
        self.sim.to_file(fn, what=what, verb=0)
        self.sim = emg3d.Simulation.from_file(fn, verb=0)
        self._check_options(self.sim, fmt)

    def op_model(self, clean):
        self.variant = 'B' if self.variant == 'A' else 'A'
        self.sim.model = self.prob['models'][self.variant].copy()
        self.sim.clean(clean)

    def _clone(self, how, what):
        import emg3d
        sim = self.sim
        if how == 'copy':
            return sim.copy(what)
        elif how == 'dict':
            return emg3d.Simulation.from_dict(sim.to_dict(what, True))
        elif how == 'dictref':
            return emg3d.Simulation.from_dict(sim.to_dict(what))
        d = _tmpdir()
        self.dirs.append(d)
        fn = os.path.join(d, 'fork.'+how)
        sim.to_file(fn, what=what, verb=0)
        return emg3d.Simulation.from_file(fn, verb=0)

    def op_fork(self, how, what):
        """Copy / reload, mutate the copy, original must be unaffected."""
        sim = self.sim
        before_syn = sim.data.synthetic.data.copy()
        before_obs = sim.data.observed.data.copy()
        before_px = np.array(sim.model.property_x).copy()
        before_m = None if sim._misfit is None else float(sim.misfit)
        before_g = None if sim._gradient is None else np.array(
            sim.gradient).copy()
        e0 = None
        if sim._computed and sim._dict_efield['TxED-1']['f-1'] is not None:
            e0 = sim.get_efield('TxED-1', 'f-1').field.copy()
        # to_dict without deep copy ('dictref'): input arrays are shared by
        # design, so no in-place edits there, only public operations on the
        # new simulation (clean, model replacement, compute).
        c = self._clone(how, what)
        if how == 'dictref':
            if not c.file_dir:
                c.clean('computed')
                other = 'B' if self.variant == 'A' else 'A'
                c.model = self.prob['models'][other].copy()
                c.compute()
                c.clean('all')
        else:
            self._mutate(c)
        self._unaffected(sim, how, what, before_syn, before_obs, before_px,
                         before_m, before_g, e0)

    def op_detach(self, how, what):
        """Copy / reload; then the ORIGINAL is driven on (other model, clean,
        gradient, in-place edits) and the run continues with the copy, which
        must still report the fresh results of the model it was taken at."""
        c = self._clone(how, what)
        o = self.sim
        if not o.file_dir:     # file based: the two share their files
            other = 'B' if self.variant == 'A' else 'A'
            o.model = self.prob['models'][other].copy()
            o.clean('all')
            _ = o.gradient
        self._mutate(o, clean=False)
        o.solver_opts['maxit'] = 1
        if o.model.property_z is not None:
            o.model.property_z[...] *= 3.0
        self.sim = c
        self._check_options(c, 'detach_'+how)

    def _mutate(self, c, clean=True):
        # mutate the copy in every way
        c.model.property_x[...] *= 3.0
        c.survey.data.observed.data[...] *= 2.0
        c.survey.data.synthetic.data[...] = 7.0
        if c._gradient is not None:
            np.asarray(c._gradient)[...] = -1.0
        if c._computed and c._dict_efield['TxED-1']['f-1'] is not None \
                and not c.file_dir:
            c.get_efield('TxED-1', 'f-1').field[:] = 5.0
        c.survey.noise_floor = 1.0
        if clean and not c.file_dir:
            c.clean('all')

    def _unaffected(self, sim, how, what, before_syn, before_obs, before_px,
                    before_m, before_g, e0):
        def same(a, b):
            return np.array_equal(a, b, equal_nan=True)
        bad = []
        if not same(before_syn, sim.data.synthetic.data):
            bad.append('synthetic')
        if not same(before_obs, sim.data.observed.data):
            bad.append('observed')
        if not same(before_px, sim.model.property_x):
            bad.append('model')
        if before_g is not None and not same(before_g, sim.gradient):
            bad.append('gradient')
        if before_m is not None and float(sim.misfit) != before_m:
            bad.append('misfit')
        if e0 is not None and not same(
                e0, sim.get_efield('TxED-1', 'f-1').field):
            bad.append('efield')
        if not _same_bc(sim.survey.noise_floor, self.prob['nf'],
                        sim.survey.shape):
            bad.append('noise_floor')
        if bad:
            raise Violation(f"copy_not_independent:{how}:{'+'.join(bad)}",
                            f"mutating a {how}({what}) changed the original's "
                            f"{bad}; history {self.hist()}")


# ---------------------------------------------------------------- machine
def _griddings():
    return ['same', 'same', 'input'] + (
        ['dict'] if ENABLE_GRIDDING_DICT else [])


class HistoryMachine(RuleBasedStateMachine):
    ctx = None
    sub = 'history'
    skip = set()
    quick = False    # set by run()

    def __init__(self):
        super().__init__()
        self.runner = None
        self.dead = False
        self.rec = Rec()
        self.history = []
        self.config = None

    @initialize(case=st.sampled_from(['isotropic', 'VTI']),
                file=st.sampled_from([False, False, True]),
                gridding=st.sampled_from(_griddings()))
    def init(self, case, file, gridding):
        # the 'rich' survey goes with the non-default griddings (one set of
        # fresh references per problem; keeps the quick tier affordable); for
        # the same reason the quick tier has 'input' only with the isotropic
        # and 'dict' only with the VTI problem
        if self.quick and gridding != 'same':
            case = 'isotropic' if gridding == 'input' else 'VTI'
        self.config = {'case': case, 'file': file, 'gridding': gridding,
                       'survey': 'plain' if gridding == 'same' else 'rich'}
        self.runner = Runner(self.config, self.rec)
        self.history = self.runner.history

    def _do(self, *op):
        if self.dead or self.runner is None:
            return
        self.ctx.machine_step(self, lambda: self.runner.step(op))

    @rule()
    def compute(self):
        self._do('compute')

    @rule()
    def misfit(self):
        self._do('misfit')

    @rule()
    def gradient(self):
        self._do('gradient')

    @rule(i=st.sampled_from([0, 1]), form=st.sampled_from(['nd', '4d']))
    def jvec(self, i, form):
        self._do('jvec', i, form)

    @rule(i=st.sampled_from([0, 1]), form=st.sampled_from(['nd', 'da']))
    def jtvec(self, i, form):
        self._do('jtvec', i, form)

    @rule()
    def synthetic(self):
        self._do('synthetic')

    @rule(si=st.sampled_from([0, 1]), fi=st.sampled_from([0, 1]),
          form=st.sampled_from(['key', 'float']))
    def efield(self, si, fi, form):
        self._do('efield', si, fi, form)

    @rule(si=st.sampled_from([0, 1]), fi=st.sampled_from([0, 1]),
          form=st.sampled_from(['key', 'float']))
    def hfield(self, si, fi, form):
        self._do('hfield', si, fi, form)

    @rule(si=st.sampled_from([0, 1]), fi=st.sampled_from([0, 1]))
    def inspect(self, si, fi):
        self._do('inspect', si, fi)

    @precondition(lambda self: ENABLE_OBSERVE)
    @rule()
    def observe(self):
        self._do('observe')

    @rule(what=st.sampled_from(WHATS_CLEAN))
    def clean(self, what):
        self._do('clean', what)

    @rule(what=st.sampled_from(WHATS_STORE))
    def copy(self, what):
        self._do('copy', what)

    @rule(what=st.sampled_from(WHATS_STORE))
    def dict(self, what):
        self._do('dict', what)

    @rule(fmt=st.sampled_from(FORMATS), what=st.sampled_from(WHATS_STORE))
    def file(self, fmt, what):
        self._do('file', fmt, what)

    @rule(clean=st.sampled_from(['all', 'computed']))
    def model(self, clean):
        self._do('model', clean)

    @rule(how=st.sampled_from(['copy', 'dict', 'dictref'] + FORMATS),
          what=st.sampled_from(WHATS_STORE))
    def fork(self, how, what):
        self._do('fork', how, what)

    @rule(how=st.sampled_from(['copy', 'dict'] + FORMATS),
          what=st.sampled_from(WHATS_STORE))
    def detach(self, how, what):
        self._do('detach', how, what)

    def teardown(self):
        if self.runner is None:
            return
        self.runner.close()
        _classes(self.rec, self.config, self.history)
        if self.runner.nontrivial and not self.dead:
            self.rec.nt([self.config, self.history])
        self.rec.note({'config': self.config,
                       'history': [_opname(o) for o in self.history]})
        self.ctx.machine_done(self)


def _classes(rec, config, history):
    names = [o[0] for o in history]
    for n in set(names):
        rec.cls(f"op={n}")
    case, gridding, survey = _cfg(config)
    rec.cls(f"case={case}", f"file={config['file']}", f"len={len(names)}",
            f"gridding={gridding}", f"survey={survey}")
    lab = set()
    for o in history:
        if o[0] in ('jvec', 'jtvec') and len(o) > 1:
            lab.add(f"{o[0]}_vector={o[1]}")
            if len(o) > 2 and o[2] != 'nd' and (
                    o[2] != '4d' or case == 'isotropic'):
                lab.add(f"{o[0]}_form={o[2]}")
        if o[0] in ('efield', 'hfield') and len(o) > 3:
            lab.add(f"field_by={o[3]}")
            lab.add(f"field_pair={o[1]}{o[2]}")
    # a query of a second vector after the first one (stale-cache class)
    for kind in ('jvec', 'jtvec'):
        idx = [o[1] if len(o) > 1 else 0 for o in history if o[0] == kind]
        if len(set(idx)) > 1:
            lab.add(f"{kind}_both_vectors")
    if 'observe' in names and any(
            n in ('misfit', 'gradient') for n in
            names[names.index('observe'):]):
        lab.add('query_after_observe')
    if 'detach' in names and any(
            n in Runner.QUERIES for n in names[names.index('detach'):]):
        lab.add('query_after_detach')
    rec.cls(*sorted(lab))


def replay_history(spec, rec):
    r = Runner(spec['config'], rec)
    try:
        for op in spec['history']:
            r.step(tuple(op))
    finally:
        r.close()
    _classes(rec, spec['config'], spec['history'])
    rec.nt(spec)


# Systematic complement of the random histories: from a prepared state
# (mostly: fully computed, gradient), EVERY ordered pair of state-changing
# operations, followed by the queries.  Hypothesis needs luck for a specific
# chain of four operations (e.g. gradient -> copy('results') -> model+clean
# -> gradient); this enumeration does not.
OPS_QUICK = [['clean', 'computed'], ['clean', 'keepresults'],
             ['clean', 'all'], ['copy', 'results'], ['copy', 'computed'],
             ['dict', 'results'], ['file', 'h5', 'results'],
             ['model', 'all'], ['model', 'computed'], ['jtvec'],
             ['copy', 'all'], ['dict', 'computed'],
             ['file', 'npz', 'computed'], ['file', 'json', 'results'],
             ['jvec']]
# with `observe`: in place of copy('all') (same code path as copy('computed'))
OPS_QUICK_OBS = [(['observe'] if o == ['copy', 'all'] else o)
                 for o in OPS_QUICK]
OPS_FULL = ([['clean', w] for w in WHATS_CLEAN] +
            [['copy', w] for w in WHATS_STORE] +
            [['dict', w] for w in WHATS_STORE] +
            [['file', f, w] for f in FORMATS for w in WHATS_STORE] +
            [['model', 'all'], ['model', 'computed'], ['jtvec'], ['jvec'],
             ['compute']])

# prefix (state before the pair), rotated; 'gradient' every second time
PREFIXES = [[['gradient']], [['compute']], [['gradient']],
            [['efield', 1, 0, 'float']], [['gradient']], [['jtvec', 1, 'da']],
            [['gradient']], []]
# third step after misfit + gradient, rotated (the solver-free ones more
# often than jvec / jtvec: cost); a fork = independence of a copy / of a
# simulation made from to_dict() without deep copy in the final state
SUFFIXES = [[['jvec', 1, 'nd']], [['hfield', 0, 1, 'float']],
            [['fork', 'dictref', 'computed']],
            [['efield', 1, 1, 'key']], [], [['synthetic']],
            [['jtvec', 1, 'da']], [['hfield', 1, 0, 'key']],
            [['fork', 'copy', 'all']],
            [['efield', 0, 1, 'float']], [['fork', 'dictref', 'results']],
            [['synthetic']], []]


def pair_configs(quick):
    rich = {'gridding': 'input', 'survey': 'rich'}
    out = [{'case': 'isotropic', 'file': False},
           {'case': 'VTI', 'file': False},
           {'case': 'isotropic', 'file': False, **rich},
           {'case': 'VTI', 'file': False},
           {'case': 'isotropic', 'file': False},
           {'case': 'isotropic' if quick else 'VTI', 'file': False, **rich},
           {'case': 'isotropic', 'file': False},
           {'case': 'VTI', 'file': False},
           {'case': 'isotropic', 'file': False}]
    if ENABLE_GRIDDING_DICT:
        rich = {'gridding': 'dict', 'survey': 'rich'}
        out[3].update(rich)
        if quick:
            out[6].update({'case': 'VTI', **rich})
        else:
            out[6].update(rich)
    return out


def pair_specs(ops):
    ops = list(ops)
    if ENABLE_OBSERVE and ops == OPS_QUICK:
        ops = OPS_QUICK_OBS
    elif ENABLE_OBSERVE:
        ops = ops + [['observe']]
    configs = pair_configs(ops == OPS_QUICK_OBS or ops == OPS_QUICK)
    out = []
    k = 0
    for a in ops:
        for b in ops:
            k += 1
            config = dict(configs[k % len(configs)])
            # file based: five times the cost of in-memory, one in 19
            config['file'] = k % 19 == 7
            out.append({'config': config,
                        'history': PREFIXES[k % len(PREFIXES)] + [a, b] +
                        [['misfit'], ['gradient']] +
                        SUFFIXES[k % len(SUFFIXES)]})
    return out


SUBS = {'history': replay_history, 'pairs': replay_history}


def run(ctx):
    ctx.regression(SUBS)
    HistoryMachine.quick = ctx.quick
    ctx.machine('history', HistoryMachine, ctx.n(40, 400), 8,
                shrink=True)
    ctx.enumerate('pairs', pair_specs(OPS_QUICK if ctx.quick else OPS_FULL),
                  replay_history, exhaustive=True)

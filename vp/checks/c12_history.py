"""C12 - simulation results are a function of (model, survey), not history."""
import os
import shutil
import tempfile
import warnings

import numpy as np
from hypothesis import strategies as st
from hypothesis.stateful import (RuleBasedStateMachine, initialize, rule,
                                 precondition)

from vp import gen
from vp.framework import (Violation, Rec, VERIF, exception_to_violation,
                          HarnessError)

RULE = ("Rule-based state machine (<= 8 steps after initialisation) over "
        "{compute, misfit, gradient, jvec(v0), jtvec(w0), get_efield, "
        "get_hfield, clean(computed|keepresults|all), copy(what), "
        "to_dict/from_dict(what), to_file/from_file(h5|npz|json x what), "
        "model replacement + clean(all|computed), fork-and-mutate} on two "
        "small problems (isotropic / VTI, 8x6x6 cells, 2 sources incl. a "
        "magnetic one, 2 frequencies, 3 receivers incl. a relative and a "
        "magnetic one, observed data with a NaN), in memory and file based, "
        "tol != tol_gradient.  After every query the reported synthetic "
        "data, misfit, gradient, jvec, jtvec must equal those of a FRESH "
        "simulation of the current model (computed once per process); "
        "exceptions on documented operations are violations; a mutated "
        "copy/reloaded simulation must not affect its original.  In "
        "addition every ordered pair of state-changing operations (quick: 15 "
        "operations, thorough: 28) is enumerated after a gradient and "
        "followed by the queries.  "
        "Non-trivial = a query after a state-changing operation other than "
        "compute; distinct by history.")
ASSUMPTIONS = [
    "equality thresholds: data/misfit 1e-6 relative (1e4 x tol), gradient / "
    "jvec / jtvec 1e-3 of the max-norm (1e2 x tol_gradient); on the pinned "
    "tree the results were bit-identical in all explored histories",
    "clean() keeps the observed data and the model; replacing the model is "
    "`sim.model = new` followed by clean('all') or clean('computed') "
    "(gridding='same')",
]
SHARDS = {'quick': 1, 'thorough': 16}

TOL, TOLG = 1e-10, 1e-5
WHATS_CLEAN = ['computed', 'keepresults', 'all']
WHATS_STORE = ['computed', 'results', 'all', 'plain']
FORMATS = ['h5', 'npz', 'json']

_CACHE = {}


def _tmpdir():
    base = os.path.join(VERIF, '.cache', 'tmp')
    os.makedirs(base, exist_ok=True)
    return tempfile.mkdtemp(prefix='c12_', dir=base)


def _problem(case):
    """Fixed small problem; two model variants A/B."""
    import emg3d
    if case in _CACHE:
        return _CACHE[case]
    rng = gen.rng_of(1234, 12)
    hx = np.array([120., 100, 80, 70, 80, 100, 120, 150])
    hy = np.array([100., 90, 80, 90, 100, 110])
    hz = np.array([90., 80, 70, 80, 90, 100])
    grid = emg3d.TensorMesh([hx, hy, hz], origin=(-400, -280, -250))
    shape = grid.shape_cells
    models = {}
    for name in 'AB':
        px = 10**rng.uniform(-0.5, 0.5, size=shape)
        pz = 10**rng.uniform(-0.5, 0.5, size=shape) if case == 'VTI' else None
        models[name] = emg3d.Model(grid, px, None, pz, mapping='Resistivity')
    src = [emg3d.TxElectricDipole((-120, 20, -30, 10, 20)),
           emg3d.TxMagneticPoint((80, -30, 40, 40, -10))]
    rec = [emg3d.RxElectricPoint((130, 100, -60, 0, 0)),
           emg3d.RxMagneticPoint((20, -100, 60, 30, 40)),
           emg3d.RxElectricPoint((60, 40, -20, 20, 5), relative=True)]
    freqs = [0.7, 2.0]
    ncomp = 2 if case == 'VTI' else 1
    v0 = rng.standard_normal(((ncomp,) if ncomp > 1 else ()) + tuple(shape))
    w0 = rng.standard_normal((2, 3, 2)) + 1j*rng.standard_normal((2, 3, 2))
    prob = dict(grid=grid, models=models, src=src, rec=rec, freqs=freqs,
                v0=v0, w0=w0, case=case)
    # observed data from a third model, with one NaN
    sv = emg3d.Survey(src, rec, freqs)
    true = emg3d.Model(grid, 10**rng.uniform(-0.5, 0.5, size=shape),
                       mapping='Resistivity')
    s = _make_sim(prob, sv, true)
    s.compute(observed=True, add_noise=False)
    obs = sv.data.observed.data.copy()
    obs[1, 0, 1] = np.nan
    prob['obs'] = obs
    w0[~np.isfinite(obs)] = 0
    # reference results per model variant from fresh simulations
    prob['ref'] = {}
    for name in 'AB':
        r = {}
        f = _fresh(prob, name)
        f.compute()
        r['synthetic'] = f.data.synthetic.data.copy()
        f = _fresh(prob, name)
        r['misfit'] = float(f.misfit)
        f = _fresh(prob, name)
        r['gradient'] = np.array(f.gradient).copy()
        f = _fresh(prob, name)
        r['jvec'] = np.array(f.jvec(v0)).copy()
        f = _fresh(prob, name)
        _ = f.misfit
        r['jtvec'] = np.array(f.jtvec(w0)).copy()
        f = _fresh(prob, name)
        f.compute()
        r['efield'] = f.get_efield('TxED-1', 'f-1').field.copy()
        r['hfield'] = f.get_hfield('TxMP-2', 'f-2').field.copy()
        prob['ref'][name] = r
    _CACHE[case] = prob
    return prob


def _make_sim(prob, survey, model, file_dir=None):
    import emg3d
    kw = {'file_dir': file_dir} if file_dir else {}
    return emg3d.Simulation(
        survey, model, gridding='same', max_workers=1,
        receiver_interpolation='linear', tqdm_opts=False,
        solver_opts=dict(sslsolver=False, semicoarsening=True,
                         linerelaxation=True, tol=TOL, tol_gradient=TOLG,
                         maxit=100, verb=-1), **kw)


def _fresh(prob, name, file_dir=None):
    import emg3d
    sv = emg3d.Survey(prob['src'], prob['rec'], prob['freqs'],
                      data=prob['obs'].copy(), noise_floor=1e-13,
                      relative_error=0.03)
    return _make_sim(prob, sv, prob['models'][name].copy(), file_dir)


def _opname(op):
    name, args = op[0], op[1:]
    return name + ('(' + ','.join(str(a) for a in args) + ')' if args else '')


class Runner:
    """Executes operations on a real Simulation and compares with fresh
    references.  Used by the state machine and by --replay."""

    STATE_CHANGING = {'clean', 'copy', 'dict', 'file', 'model', 'jtvec',
                      'jvec', 'gradient', 'fork'}

    def __init__(self, config, rec=None):
        self.config = config
        self.prob = _problem(config['case'])
        self.dirs = []
        self.file_dir = None
        if config['file']:
            self.file_dir = _tmpdir()
            self.dirs.append(self.file_dir)
        self.variant = 'A'
        self.sim = _fresh(self.prob, 'A', self.file_dir)
        self.history = []
        self.rec = rec or Rec()
        self.nontrivial = False

    def close(self):
        for d in self.dirs:
            shutil.rmtree(d, ignore_errors=True)

    # ------------------------------------------------------------------
    def prev(self, k=1):
        """Name of the k-th previous state-changing operation."""
        ops = [o for o in self.history[:-1]
               if o[0] in self.STATE_CHANGING or o[0] == 'compute']
        return _opname(ops[-k]) if len(ops) >= k else 'init'

    def step(self, op):
        self.history.append(list(op))
        name = op[0]
        try:
            with warnings.catch_warnings():
                warnings.simplefilter('ignore')
                getattr(self, 'op_'+name)(*op[1:])
        except (Violation, HarnessError):
            raise
        except Exception as e:
            v = exception_to_violation(e)
            if v is None:
                raise
            base = v.signature.split('[')[0]
            raise Violation(f"{base}:op={_opname(op)}:prev={self.prev()}",
                            f"{type(e).__name__}: {str(e)[:300]} in history "
                            f"{[_opname(o) for o in self.history]}",
                            v.details) from e
        if name not in ('compute',) and any(
                o[0] in self.STATE_CHANGING for o in self.history[:-1]):
            if name in ('misfit', 'gradient', 'jvec', 'jtvec', 'synthetic',
                        'efield', 'hfield'):
                self.nontrivial = True

    def _cmp(self, what, got, tol):
        ref = np.atleast_1d(np.asarray(self.prob['ref'][self.variant][what]))
        got = np.atleast_1d(np.asarray(got))
        if got.shape != np.shape(ref):
            raise Violation(f"{what}_shape:prev={self.prev()}",
                            f"{got.shape} vs {np.shape(ref)}; history "
                            f"{[_opname(o) for o in self.history]}")
        nan_g, nan_r = np.isnan(got), np.isnan(ref)
        if not np.array_equal(nan_g, nan_r):
            raise Violation(f"{what}_nan_pattern:prev={self.prev()}",
                            f"NaN pattern differs; history "
                            f"{[_opname(o) for o in self.history]}")
        scale = np.max(np.abs(ref[~nan_r])) if np.any(~nan_r) else 0
        diff = np.max(np.abs((got-ref)[~nan_r])) if np.any(~nan_r) else 0
        if diff > tol*scale:
            raise Violation(
                f"{what}_differs_from_fresh:prev={self.prev()}",
                f"max|diff| = {diff:.3e} vs scale {scale:.3e} "
                f"(rel {diff/max(scale, 1e-300):.2e}); history "
                f"{[_opname(o) for o in self.history]}")

    # --- operations -----------------------------------------------------
    def op_compute(self):
        self.sim.compute()
        self._cmp('synthetic', self.sim.data.synthetic.data, 1e-6)

    def op_synthetic(self):
        if self.sim._computed:
            self._cmp('synthetic', self.sim.data.synthetic.data, 1e-6)

    def op_misfit(self):
        m = self.sim.misfit
        if isinstance(m, (memoryview, bytes, str)) or np.ndim(m) != 0 or \
                not np.isrealobj(np.asarray(m)):
            raise Violation(f"misfit_not_a_real_number:prev={self.prev()}",
                            f"misfit is {type(m).__name__}: {m!r}; history "
                            f"{[_opname(o) for o in self.history]}")
        self._cmp('misfit', float(m), 1e-6)
        self._cmp('synthetic', self.sim.data.synthetic.data, 1e-6)

    def op_gradient(self):
        self._cmp('gradient', self.sim.gradient, 1e-3)

    def op_jvec(self):
        self._cmp('jvec', self.sim.jvec(self.prob['v0']), 1e-3)

    def op_jtvec(self):
        self._cmp('jtvec', self.sim.jtvec(self.prob['w0']), 1e-3)

    def op_efield(self):
        f = self.sim.get_efield('TxED-1', 'f-1')
        self._cmp('efield', f.field, 1e-6)

    def op_hfield(self):
        f = self.sim.get_hfield('TxMP-2', 'f-2')
        self._cmp('hfield', f.field, 1e-6)

    def op_clean(self, what):
        self.sim.clean(what)

    def op_copy(self, what):
        self.sim = self.sim.copy(what)

    def op_dict(self, what):
        import emg3d
        self.sim = emg3d.Simulation.from_dict(self.sim.to_dict(what, True))

    def op_file(self, fmt, what):
        import emg3d
        d = _tmpdir()
        self.dirs.append(d)
        fn = os.path.join(d, 'sim.'+fmt)
        self.sim.to_file(fn, what=what, verb=0)
        self.sim = emg3d.Simulation.from_file(fn, verb=0)

    def op_model(self, clean):
        self.variant = 'B' if self.variant == 'A' else 'A'
        self.sim.model = self.prob['models'][self.variant].copy()
        self.sim.clean(clean)

    def op_fork(self, how, what):
        """Copy / reload, mutate the copy, original must be unaffected."""
        import emg3d
        sim = self.sim
        before_syn = sim.data.synthetic.data.copy()
        before_obs = sim.data.observed.data.copy()
        before_px = np.array(sim.model.property_x).copy()
        before_m = None if sim._misfit is None else float(sim.misfit)
        before_g = None if sim._gradient is None else np.array(
            sim.gradient).copy()
        e0 = None
        if sim._computed and sim._dict_efield['TxED-1']['f-1'] is not None:
            e0 = sim.get_efield('TxED-1', 'f-1').field.copy()
        if how == 'copy':
            c = sim.copy(what)
        elif how == 'dict':
            c = emg3d.Simulation.from_dict(sim.to_dict(what, True))
        elif how == 'dictref':
            # to_dict without deep copy: input arrays are shared by design,
            # so no in-place edits here, only public operations on the new
            # simulation (clean, model replacement, compute).
            c = emg3d.Simulation.from_dict(sim.to_dict(what))
        else:
            d = _tmpdir()
            self.dirs.append(d)
            fn = os.path.join(d, 'fork.'+how)
            sim.to_file(fn, what=what, verb=0)
            c = emg3d.Simulation.from_file(fn, verb=0)
        if how == 'dictref':
            if not c.file_dir:
                c.clean('computed')
                other = 'B' if self.variant == 'A' else 'A'
                c.model = self.prob['models'][other].copy()
                c.compute()
                c.clean('all')
        else:
            self._mutate(c)
        self._unaffected(sim, how, what, before_syn, before_obs, before_px,
                         before_m, before_g, e0)

    def _mutate(self, c):
        # mutate the copy in every way
        c.model.property_x[...] *= 3.0
        c.survey.data.observed.data[...] *= 2.0
        c.survey.data.synthetic.data[...] = 7.0
        if c._gradient is not None:
            np.asarray(c._gradient)[...] = -1.0
        if c._computed and c._dict_efield['TxED-1']['f-1'] is not None \
                and not c.file_dir:
            c.get_efield('TxED-1', 'f-1').field[:] = 5.0
        c.survey.noise_floor = 1.0
        if not c.file_dir:
            c.clean('all')

    def _unaffected(self, sim, how, what, before_syn, before_obs, before_px,
                    before_m, before_g, e0):
        def same(a, b):
            return np.array_equal(a, b, equal_nan=True)
        bad = []
        if not same(before_syn, sim.data.synthetic.data):
            bad.append('synthetic')
        if not same(before_obs, sim.data.observed.data):
            bad.append('observed')
        if not same(before_px, sim.model.property_x):
            bad.append('model')
        if before_g is not None and not same(before_g, sim.gradient):
            bad.append('gradient')
        if before_m is not None and float(sim.misfit) != before_m:
            bad.append('misfit')
        if e0 is not None and not same(
                e0, sim.get_efield('TxED-1', 'f-1').field):
            bad.append('efield')
        if sim.survey.noise_floor != 1e-13:
            bad.append('noise_floor')
        if bad:
            raise Violation(f"copy_not_independent:{how}:{'+'.join(bad)}",
                            f"mutating a {how}({what}) changed the original's "
                            f"{bad}; history "
                            f"{[_opname(o) for o in self.history]}")


# ---------------------------------------------------------------- machine
class HistoryMachine(RuleBasedStateMachine):
    ctx = None
    sub = 'history'
    skip = set()

    def __init__(self):
        super().__init__()
        self.runner = None
        self.dead = False
        self.rec = Rec()
        self.history = []
        self.config = None

    @initialize(case=st.sampled_from(['isotropic', 'VTI']),
                file=st.sampled_from([False, False, True]))
    def init(self, case, file):
        self.config = {'case': case, 'file': file}
        self.runner = Runner(self.config, self.rec)
        self.history = self.runner.history

    def _do(self, *op):
        if self.dead or self.runner is None:
            return
        self.ctx.machine_step(self, lambda: self.runner.step(op))

    @rule()
    def compute(self):
        self._do('compute')

    @rule()
    def misfit(self):
        self._do('misfit')

    @rule()
    def gradient(self):
        self._do('gradient')

    @rule()
    def jvec(self):
        self._do('jvec')

    @rule()
    def jtvec(self):
        self._do('jtvec')

    @rule()
    def synthetic(self):
        self._do('synthetic')

    @rule()
    def efield(self):
        self._do('efield')

    @rule()
    def hfield(self):
        self._do('hfield')

    @rule(what=st.sampled_from(WHATS_CLEAN))
    def clean(self, what):
        self._do('clean', what)

    @rule(what=st.sampled_from(WHATS_STORE))
    def copy(self, what):
        self._do('copy', what)

    @rule(what=st.sampled_from(WHATS_STORE))
    def dict(self, what):
        self._do('dict', what)

    @rule(fmt=st.sampled_from(FORMATS), what=st.sampled_from(WHATS_STORE))
    def file(self, fmt, what):
        self._do('file', fmt, what)

    @rule(clean=st.sampled_from(['all', 'computed']))
    def model(self, clean):
        self._do('model', clean)

    @rule(how=st.sampled_from(['copy', 'dict', 'dictref'] + FORMATS),
          what=st.sampled_from(WHATS_STORE))
    def fork(self, how, what):
        self._do('fork', how, what)

    def teardown(self):
        if self.runner is None:
            return
        self.runner.close()
        names = [o[0] for o in self.history]
        for n in set(names):
            self.rec.cls(f"op={n}")
        self.rec.cls(f"case={self.config['case']}",
                     f"file={self.config['file']}", f"len={len(names)}")
        if self.runner.nontrivial and not self.dead:
            self.rec.nt([self.config, self.history])
        self.rec.note({'config': self.config,
                       'history': [_opname(o) for o in self.history]})
        self.ctx.machine_done(self)


def replay_history(spec, rec):
    r = Runner(spec['config'], rec)
    try:
        for op in spec['history']:
            r.step(tuple(op))
    finally:
        r.close()
    rec.nt(spec)


# Systematic complement of the random histories: from a fully computed state
# (gradient), EVERY ordered pair of state-changing operations, followed by the
# queries.  Hypothesis needs luck for a specific chain of four operations
# (e.g. gradient -> copy('results') -> model+clean -> gradient); this
# enumeration does not.
OPS_QUICK = [['clean', 'computed'], ['clean', 'keepresults'],
             ['clean', 'all'], ['copy', 'results'], ['copy', 'computed'],
             ['dict', 'results'], ['file', 'h5', 'results'],
             ['model', 'all'], ['model', 'computed'], ['jtvec'],
             ['copy', 'all'], ['dict', 'computed'],
             ['file', 'npz', 'computed'], ['file', 'json', 'results'],
             ['jvec']]
OPS_FULL = ([['clean', w] for w in WHATS_CLEAN] +
            [['copy', w] for w in WHATS_STORE] +
            [['dict', w] for w in WHATS_STORE] +
            [['file', f, w] for f in FORMATS for w in WHATS_STORE] +
            [['model', 'all'], ['model', 'computed'], ['jtvec'], ['jvec'],
             ['compute']])


def pair_specs(ops, cases=('isotropic', 'VTI')):
    out = []
    k = 0
    for a in ops:
        for b in ops:
            k += 1
            out.append({'config': {'case': cases[k % len(cases)],
                                   'file': False},
                        'history': [['gradient'], a, b, ['misfit'],
                                    ['gradient']]})
    return out


SUBS = {'history': replay_history, 'pairs': replay_history}


def run(ctx):
    ctx.regression(SUBS)
    ctx.machine('history', HistoryMachine, ctx.n(80, 400), 8,
                shrink=True)
    ctx.enumerate('pairs', pair_specs(OPS_QUICK if ctx.quick else OPS_FULL),
                  replay_history, exhaustive=True)

"""C14 - the physical model is invariant under the property mapping; chain
rule exact; non-positive / non-finite material parameters are rejected.

Sub-checks
----------
maps    the six Map* classes on conductivities over twelve decades
        (1e-8 ... 1e4 S/m): forward = documented formula, backward = documented
        formula, backward(forward(sigma)) = sigma (1e-12 rel),
        forward(backward(x)) = x (1e-12 relative to the conditioning of the
        map: |x| + sigma |dx/dsigma|), inputs untouched; derivative_chain
        called exactly as simulations.py calls it (in place on a strided
        slice of a (3, nx, ny, nz) Fortran array, `mapped` = the model
        property) multiplies by d sigma/dx: analytic formula (1e-12), complex
        step of emg3d's own `backward` (1e-11) and central difference of
        emg3d's `backward` (1e-7); nothing else is written.  forward /
        backward receive F- and C-ordered arrays, strided views, read-only
        arrays, numpy scalars and 0-d arrays (the forms emg3d itself hands
        over); the gradient is a strided slice of an F-ordered or a
        contiguous slice of a C-ordered (3, ...) array; one case in eight
        draws from sixty decades (1e-30 ... 1e30 S/m).
coeff   the same conductivities expressed in the six parametrisations
        (constructor, or assignment through the setters) give VolumeModel
        eta_x/eta_y/eta_z/zeta equal to -s mu0 V (sigma + s eps0 eps_r) and
        V/mu_r componentwise (real and imaginary part) to 1e-12, hence equal
        to each other; all anisotropy cases, mu_r/epsilon_r on/off, frequency
        and Laplace domain, up to twelve decades in one model (one case in
        eight: anywhere in 1e-30 ... 1e30).  The mapping is selected by name,
        by the documented default (kwarg omitted for 'Resistivity'; plus the
        all-defaults Model(grid) = 1 Ohm m) or by a Map instance; each
        property is handed over as full array, flat F-ordered vector, z-/x-/y-
        profile to be broadcast, scalar, nested list or float32 array; the
        model is built by the constructor, by the setters (all, or a drawn
        subset = mixture of old and new values) or by writing into the arrays
        in place, optionally after a VolumeModel for another source field has
        been taken, and optionally passed through copy() / from_dict(to_dict())
        / pickle / deepcopy before the coefficients are computed.
reject  constructor and attribute assignment (property_x/y/z, mu_r,
        epsilon_r) raise ValueError exactly for values whose conductivity
        (back-mapped in float64: 0, -0, negative, +-inf, NaN, overflow to inf,
        underflow to 0) resp. mu_r/epsilon_r is non-positive or non-finite,
        and accept every positive finite one; a rejected assignment leaves
        the model untouched, an accepted one stores exactly the given values.
        Assigning (valid values) to property_y / property_z of a model that
        was initiated without it is refused (any exception) and leaves the
        model and its anisotropy case untouched (Model docstring).
        The discrete product mapping x target x route x kind x form is
        enumerated completely in every run (Hypothesis alone starves late
        `sampled_from` draws), followed by free exploration.
solve   real emg3d.solve runs (<= 3 decades, <= 6 cells per direction) under
        2-3 mappings of the same conductivities: the field solved under
        mapping A satisfies the system assembled by the checker from the
        conductivities of mapping B (every ordered pair, and the original
        sigma) to the solver tolerance; data sampled at interior receivers
        agree within |w| (||r_A|| + ||r_B||) / sigma_min(A) (rigorous
        first-order bound; w = sampling functional, probed for 'cubic',
        |w|_2 <= 1 for 'linear').
"""
import itertools
import math
import warnings

import numpy as np
import scipy.linalg as sla
from hypothesis import strategies as st

from vp import gen, refop
from vp.framework import HarnessError, Inconclusive, Violation

RULE = ("maps: 1..64 conductivities (log-uniform / exact powers of ten / "
        "window ends) from a drawn window of up to 12 decades inside "
        "[1e-8, 1e4] S/m (end points included), six mappings, gradient "
        "values normal / 20 decades wide / with zeros, 1-3 dimensional "
        "arrays; forward/backward input as F array / C array / strided view "
        "/ read-only / numpy scalar / 0-d array; gradient slice of an F- or "
        "C-ordered (3,...) array; 1 in 8 cases: sixty decades 1e-30..1e30; "
        "non-trivial = non-identity mapping and window >= 6 decades. "
        "coeff: grid 1..5 cells per direction (uniform/stretched/random "
        "widths), four anisotropy cases, homogeneous/blocks/noise "
        "conductivities spanning up to 12 decades inside [1e-8, 1e4], "
        "optional mu_r in [0.5, 5] and epsilon_r in [1, 80], frequency "
        "1e-2..1e3 Hz or Laplace, built by constructor or through the "
        "setters, all six mappings per case; added: mapping given by name / "
        "omitted (default) / Map instance, and Model(grid) all-defaults; per "
        "property the input form full / flat-F vector / z-, x-, y-profile / "
        "scalar / nested list / float32; routes constructor / all setters / "
        "drawn subset of setters / in-place writes; optional decoy "
        "VolumeModel (other domain, 3x frequency; also judged) before the "
        "assignments; optional copy / from_dict(to_dict) / pickle / deepcopy "
        "before VolumeModel; 1 in 8 cases: window anywhere in 1e-30..1e30; "
        "non-trivial = heterogeneous, >= 3 decades. "
        "reject: mapping x target (property_x/y/z, mu_r, "
        "epsilon_r) x route (constructor, assignment) x kind (valid in the "
        "twelve decades, valid integer, valid extreme 1e+-300, zero, -0, "
        "negative, +inf, -inf, NaN, finite overflow, finite underflow) x form "
        "(float, numpy scalar, int, full array, array with a single special "
        "entry, int array, nested list): the full discrete product (4620 "
        "combinations) is enumerated in every run with drawn values / shapes "
        "/ positions, plus mapping x {property_y, property_z} x valid kind x "
        "form (168) assigned to a model initiated WITHOUT that property, "
        "plus free Hypothesis exploration (1 in 6 of the y/z targets: "
        "absent); non-trivial = every "
        "case; distinct by the tuple and seed.  solve: grid 3..6 cells, <= 3 decades, dipole / point "
        "/ random interior source, tol 1e-9..1e-5, MG or bicgstab+MG, 2-3 "
        "distinct mappings; non-trivial = all solves converged with >= 1 "
        "iteration on a heterogeneous model.")
ASSUMPTIONS = [
    "checker-side mapping formulas gen.map_forward / gen.map_backward and "
    "d sigma/dx = {1, sigma ln10, sigma, -sigma^2, -sigma ln10, -sigma} are "
    "the documented ones (class docstrings of emg3d.maps)",
    "reference operator vp/refop.py (validated against emg3d by C02) for the "
    "cross-mapping residuals; residual slack tol*||s||*1e-9 + 1e4*eps*"
    "|| |A||e|+|s| ||",
    "a finite mapped value whose float64 back-mapped conductivity overflows "
    "to inf or underflows to 0 counts as non-finite / non-positive "
    "conductivity (that is what the solver would receive)",
    "input forms are the documented ones: 'must be broadcastable to that "
    "shape' (numpy rules: (nz,), (nx,1,1), (1,ny,1), scalar, nested list, "
    "float32), a 1-D vector of n_cells is taken in Fortran order (models.py "
    "_init_parameter; emg3d's own test_models passes .ravel('F')) - "
    "constructor only; float32 input stands for its float64 value; a Map "
    "instance as `mapping` is what Model.extract_1d passes; Models are "
    "pickled by emg3d itself (process_map), in-place edits of "
    "model.property_x[...] are used by emg3d's tests",
    "'If a property is not initiated it cannot be set later on' (Model "
    "docstring) = assignment raises (any exception type) and changes "
    "nothing; only property_y / property_z, for which the docstring says so",
    "wide window 1e-30..1e30 S/m: float64 formulas only, the tolerances are "
    "the same (|ln sigma| <= 69: rounding of log/exp <= 2e-14, central "
    "difference truncation 8e-10 < 1e-7; complex step relative to |x| for "
    "the linear maps)",
    "data bound: |R(e_A) - R(e_B)| <= ||w||_2 (||r_A|| + ||r_B||) / "
    "sigma_min(A_interior), R linear in the field (sampling weights probed "
    "column by column for 'cubic'; convex weights and unit rotation vector "
    "for 'linear')",
]
SHARDS = {'quick': 1, 'thorough': 16}

C_EPS = 1e4*np.finfo(float).eps
LN10 = math.log(10.0)
MAPS = list(gen.MAPPINGS)
FAMILY = {'Conductivity': 'lin', 'Resistivity': 'lin',
          'LgConductivity': 'lg', 'LgResistivity': 'lg',
          'LnConductivity': 'ln', 'LnResistivity': 'ln'}
# sign of d lg(sigma) / d (mapped value in its own log units)
SIGN = {'Conductivity': 1, 'LgConductivity': 1, 'LnConductivity': 1,
        'Resistivity': -1, 'LgResistivity': -1, 'LnResistivity': -1}
LG_LO, LG_HI = -8.0, 4.0          # the twelve decades of the quantifier
# 'wide' cases: the twelve decades (maps: sixty) anywhere in 1e-30 ... 1e30
# S/m (air at 1e12 ... 1e16 Ohm m is routine input); pure float64 formulas,
# far from over-/underflow also after squaring and multiplying by mu0 V s.
WIDE_LO, WIDE_HI = -30.0, 30.0
# forms in which forward / backward receive their argument (emg3d itself
# calls them with strided views (meshes.py get_min, _multiprocessing.layered),
# numpy scalars (meshes.py m.forward(min(data)), simulations.py prop[ind]),
# 0-d arrays (models.py _check_positive_finite of a scalar) and whatever
# array the user hands to Model: C-ordered, read-only)
AFORMS = ['F', 'F', 'C', 'view', 'readonly', 'np64', '0d']


def ref_dsdx(mapping, x):
    """d sigma / d x at mapped value x (documented maps)."""
    s = gen.map_backward(mapping, x)
    return {
        'Conductivity': lambda: np.ones_like(s),
        'LgConductivity': lambda: s*LN10,
        'LnConductivity': lambda: s,
        'Resistivity': lambda: -s*s,
        'LgResistivity': lambda: -s*LN10,
        'LnResistivity': lambda: -s,
    }[mapping]()


def x_scale(mapping, x):
    """Conditioning of x = forward(sigma): |x| + sigma |dx/dsigma|."""
    fam = FAMILY[mapping]
    ax = np.abs(x)
    if fam == 'lin':
        return 2*ax
    if fam == 'lg':
        return ax + 1/LN10
    return ax + 1.0


def _emap(emg3d, mapping):
    return getattr(emg3d.maps, 'Map' + mapping)()


# ====================================================================
# maps
# ====================================================================
def maps_strategy():
    return st.fixed_dictionaries({
        'mapping': st.sampled_from(MAPS),
        'shape': st.lists(st.integers(1, 4), min_size=1, max_size=3),
        'span': st.one_of(st.just(12.0), st.floats(0.0, 12.0)),
        'pos': st.floats(0.0, 1.0),
        'dist': st.sampled_from(['loguniform', 'loguniform', 'powers10',
                                 'ends']),
        'gkind': st.sampled_from(['normal', 'wide', 'zeros']),
        'seed': gen.SEED,
        # --- added later (old replay specs lack them: spec.get defaults) ---
        'aform': st.sampled_from(AFORMS),
        'gorder': st.sampled_from(['F', 'C']),
        'wide': st.sampled_from([False]*7 + [True]),
    })


def _window(spec):
    span = float(spec['span'])
    if spec.get('wide', False):
        # sixty decades: the drawn span (<= 12) is stretched fivefold
        span *= (WIDE_HI - WIDE_LO)/(LG_HI - LG_LO)
        lo = WIDE_LO + float(spec['pos'])*(WIDE_HI - WIDE_LO - span)
        return lo, lo + span
    lo = LG_LO + float(spec['pos'])*(LG_HI - LG_LO - span)
    return lo, lo + span


def _as_form(aform, a):
    """`a` (Fortran-ordered float64 array) in the input form `aform`
    -> (object handed to emg3d, its owner (for views), reference values in
    the shape of the input as float64 array)."""
    if aform == 'C':
        v = np.ascontiguousarray(a)
        if v is a or np.shares_memory(v, a):
            v = a.copy(order='C')
        return v, None, a.copy()
    if aform == 'view':
        # every second entry along the first axis of a larger array
        big = np.full((2*a.shape[0],) + a.shape[1:], 7.25, order='F')
        big[::2] = a
        return big[::2], big, a.copy()
    if aform == 'readonly':
        v = a.copy(order='F')
        v.flags.writeable = False
        return v, None, a.copy()
    if aform == 'np64':
        return np.float64(a.ravel('F')[0]), None, np.array(a.ravel('F')[0])
    if aform == '0d':
        v = np.array(a.ravel('F')[0])
        return v, None, v.copy()
    return a.copy(order='F'), None, a.copy()


def _relerr(got, ref):
    with np.errstate(all='ignore'):
        return float(np.max(np.abs(got-ref)/np.maximum(np.abs(ref), 1e-300)))


def case_maps(spec, rec):
    import emg3d
    m = spec['mapping']
    fam = FAMILY[m]
    emap = _emap(emg3d, m)
    shape = tuple(int(k) for k in spec['shape'])
    n = int(np.prod(shape))
    rng = gen.rng_of(spec['seed'], 141)
    lo, hi = _window(spec)
    if spec['dist'] == 'loguniform':
        lg = rng.uniform(lo, hi, n)
    elif spec['dist'] == 'powers10':
        a, b = math.ceil(lo), math.floor(hi)
        lg = rng.integers(a, b+1, n).astype(float) if b >= a else \
            np.full(n, lo)
    else:
        lg = rng.choice([lo, hi], n)
    if n >= 2:
        lg[0], lg[-1] = lo, hi
    sig = np.asfortranarray((10.0**lg).reshape(shape, order='F'))
    sig0 = sig.copy()

    aform = spec.get('aform', 'F')
    wide = bool(spec.get('wide', False))
    gorder = spec.get('gorder', 'F')

    def chk_shape(name, out, like):
        """-> float64 array of the result; `like`: the reference array in the
        shape of the input.  Array in -> float64 array of that shape out;
        scalar / 0-d in -> anything real of shape () (numpy scalar, 0-d)."""
        if like.ndim == 0:
            if np.shape(out) != () or isinstance(out, (bool, np.bool_)) or \
                    not isinstance(out, (float, np.floating, np.ndarray)) or \
                    np.asarray(out).dtype.kind != 'f':
                raise Violation(f"{name}_shape:{m}",
                                f"{name} returned {type(out).__name__} "
                                f"{out!r} for a scalar ({aform}) input")
            return np.asarray(out, dtype=np.float64)
        if not isinstance(out, np.ndarray) or out.shape != like.shape:
            raise Violation(f"{name}_shape:{m}",
                            f"{name} returned {type(out).__name__} of shape "
                            f"{getattr(out, 'shape', None)} for input shape "
                            f"{like.shape}")
        if out.dtype != np.float64:
            raise Violation(f"{name}_dtype:{m}", f"{out.dtype}")
        return out

    def untouched(inp, owner, before, obefore):
        if not np.array_equal(np.asarray(inp), before):
            return False
        return owner is None or np.array_equal(owner, obefore)

    def give(a):
        inp, owner, like = _as_form(aform, a)
        return inp, owner, like, (None if owner is None else owner.copy())

    with warnings.catch_warnings():
        warnings.simplefilter('ignore')
        # ---- forward = documented expression -----------------------------
        s_in, s_own, s_like, s_own0 = give(sig0)
        x = chk_shape('forward', emap.forward(s_in), s_like)
        if not untouched(s_in, s_own, s_like, s_own0):
            raise Violation(f"forward_modifies_input:{m}", f"input {aform}")
        x_like = gen.map_forward(m, s_like)
        x_ref = gen.map_forward(m, sig0)
        tolx = 1e-12*x_scale(m, x_like)
        if not np.all(np.abs(x - x_like) <= tolx):
            k = int(np.argmax(np.abs(x-x_like)/tolx))
            raise Violation(
                f"forward_formula:{m}",
                f"forward({s_like.ravel('F')[k]!r}) = {x.ravel('F')[k]!r}, "
                f"documented {x_like.ravel('F')[k]!r} (input {aform})")
        # ---- backward = documented expression ----------------------------
        xin, x_own, xl, x_own0 = give(np.asfortranarray(x_ref.copy()))
        b = chk_shape('backward', emap.backward(xin), xl)
        if not untouched(xin, x_own, xl, x_own0):
            raise Violation(f"backward_modifies_input:{m}", f"input {aform}")
        b_ref = gen.map_backward(m, xl)
        if not np.all(np.abs(b - b_ref) <= 1e-12*np.abs(b_ref)):
            k = int(np.argmax(np.abs(b-b_ref)/np.abs(b_ref)))
            raise Violation(
                f"backward_formula:{m}",
                f"backward({xl.ravel('F')[k]!r}) = {b.ravel('F')[k]!r}, "
                f"documented {b_ref.ravel('F')[k]!r} (input {aform})")
        # ---- inverse pair ------------------------------------------------
        bf = np.asarray(emap.backward(emap.forward(s_in)), dtype=float)
        if bf.shape != s_like.shape or \
                not np.all(np.abs(bf - s_like) <= 1e-12*s_like):
            k = int(np.argmax(np.abs(bf-s_like)/s_like)) \
                if bf.shape == s_like.shape else 0
            raise Violation(
                f"inverse_pair:backward_forward:{m}",
                f"backward(forward({s_like.ravel('F')[k]!r})) = "
                f"{bf.ravel('F')[k]!r} (input {aform})")
        fb = np.asarray(emap.forward(emap.backward(xin)), dtype=float)
        if fb.shape != xl.shape or not np.all(np.abs(fb - xl) <= tolx):
            k = int(np.argmax(np.abs(fb-xl)/tolx)) \
                if fb.shape == xl.shape else 0
            raise Violation(
                f"inverse_pair:forward_backward:{m}",
                f"forward(backward({xl.ravel('F')[k]!r})) = "
                f"{fb.ravel('F')[k]!r} (input {aform})")
        if not untouched(s_in, s_own, s_like, s_own0) or \
                not untouched(xin, x_own, xl, x_own0):
            raise Violation(f"inverse_pair_modifies_input:{m}",
                            f"input {aform}")

        # ---- derivative_chain, called like simulations.py does ------------
        # 'F': slice of a Fortran-ordered (3, ...) array (strided; gradient);
        # 'C': slice of a C-ordered copy (contiguous; what jvec hands over:
        # `vector[None, ...].copy()`), `mapped` Fortran-ordered in both
        G = np.zeros((3, *shape), order=gorder)
        if spec['gkind'] == 'normal':
            G[...] = rng.standard_normal(G.shape)
        elif spec['gkind'] == 'wide':
            G[...] = (10.0**rng.uniform(-10, 10, G.shape) *
                      rng.choice([-1.0, 1.0], G.shape))
        else:
            G[...] = rng.standard_normal(G.shape)*(rng.random(G.shape) < 0.5)
        G0 = G.copy()
        k3 = int(rng.integers(0, 3))
        xprop = np.asfortranarray(x_ref.copy())
        emap.derivative_chain(G[k3, ...], xprop)
        if not np.array_equal(xprop, x_ref):
            raise Violation(f"derivative_chain_modifies_mapped:{m}", "")
        others = [j for j in range(3) if j != k3]
        if not np.array_equal(G[others], G0[others]):
            raise Violation(f"derivative_chain_writes_elsewhere:{m}", "")
        got = G[k3]
        if not np.all(np.isfinite(got)):
            raise Violation(f"derivative_chain_nonfinite:{m}", "")
        fac = ref_dsdx(m, x_ref)
        exp = G0[k3]*fac
        if not np.all(np.abs(got - exp) <= 1e-12*np.abs(exp)):
            j = int(np.argmax(np.abs(got-exp) /
                              np.maximum(np.abs(exp), 1e-300)))
            g0 = G0[k3].ravel('F')[j]
            raise Violation(
                f"chain_rule_analytic:{m}",
                f"x={x_ref.ravel('F')[j]!r} (sigma={sig0.ravel('F')[j]!r}): "
                f"factor applied {got.ravel('F')[j]/g0 if g0 else None!r}, "
                f"d sigma/dx = {fac.ravel('F')[j]!r}")
        # numeric derivative of emg3d's own backward: complex step ...
        cs = 'complex_step'
        try:
            h = 1e-20*np.maximum(1.0, np.abs(x_ref))
            if wide and fam == 'lin':
                # |x| may be far below 1e-20: step relative to x
                h = 1e-20*np.abs(x_ref)
            bc = emap.backward(x_ref.astype(complex) + 1j*h)
            num = np.imag(bc)/h
            if not np.iscomplexobj(bc) or not np.all(np.isfinite(num)):
                cs = 'no_complex_step'
        except (TypeError, ValueError):
            cs = 'no_complex_step'
        if cs == 'complex_step':
            expn = G0[k3]*num
            if not np.all(np.abs(got - expn) <= 1e-11*np.abs(expn)):
                j = int(np.argmax(np.abs(got-expn) /
                                  np.maximum(np.abs(expn), 1e-300)))
                raise Violation(
                    f"chain_rule_vs_complex_step:{m}",
                    f"x={x_ref.ravel('F')[j]!r}: derivative_chain gives "
                    f"{got.ravel('F')[j]!r}, gradient * Im backward(x+ih)/h "
                    f"= {expn.ravel('F')[j]!r}")
        # ... and central difference (relative step for the linear maps)
        hf = 1e-6*(np.abs(x_ref) if fam == 'lin'
                   else np.maximum(1.0, np.abs(x_ref)))
        xp, xm = x_ref + hf, x_ref - hf
        fd = (emap.backward(xp) - emap.backward(xm))/(xp - xm)
        expf = G0[k3]*fd
        if not np.all(np.abs(got - expf) <= 1e-7*np.abs(expf)):
            j = int(np.argmax(np.abs(got-expf) /
                              np.maximum(np.abs(expf), 1e-300)))
            raise Violation(
                f"chain_rule_vs_central_difference:{m}",
                f"x={x_ref.ravel('F')[j]!r}: derivative_chain gives "
                f"{got.ravel('F')[j]!r}, gradient * FD of backward = "
                f"{expf.ravel('F')[j]!r}")

    rec.cls(f"map={m}", f"dist={spec['dist']}", f"gkind={spec['gkind']}",
            f"ndim={len(shape)}", cs, f"aform={aform}", f"gorder={gorder}",
            f"wide={wide}", f"wide={wide}:fam={fam}",
            'span=12' if spec['span'] == 12.0 else
            ('span>=6' if spec['span'] >= 6 else 'span<6'))
    if m != 'Conductivity' and spec['span'] >= 6 and n >= 2:
        rec.nt([m, spec['seed'], list(shape), spec['dist']])
    rec.note({'mapping': m, 'n': n, 'lg_sigma': [lo, hi]})


# ====================================================================
# coeff
# ====================================================================
def _model_spec(decades):
    """Same keys as gen.model_spec (expanded by gen.build_cond), but with an
    explicit distribution of the number of decades."""
    return st.fixed_dictionaries({
        'case': st.sampled_from(gen.CASES),
        'mapping': st.just('Conductivity'),       # not used: all six are built
        'decades': decades,
        'hetero': st.sampled_from(['homog', 'blocks', 'noise', 'noise']),
        'mur': st.booleans(),
        'epsr': st.booleans(),
        'seed': gen.SEED,
    })


CFORMS = ['full', 'full', 'full', 'flatF', 'bcast_z', 'bcast_x', 'bcast_y',
          'scalar', 'list', 'f32']
PROPS = ('property_x', 'property_y', 'property_z', 'mu_r', 'epsilon_r')
ROUTES = ['ctor', 'ctor', 'setter', 'inplace', 'subset']
POSTS = ['none', 'none', 'none', 'copy', 'dict', 'pickle', 'deepcopy']
MAPSEL = ['name', 'name', 'kw_default', 'instance']


def coeff_strategy():
    return st.fixed_dictionaries({
        'grid': gen.grid_spec([1, 2, 2, 3, 3, 4, 5]),
        'model': _model_spec(st.one_of(
            st.just(12.0), st.floats(8.0, 12.0), st.floats(3.0, 8.0),
            st.floats(3.0, 8.0), st.floats(0.0, 3.0))),
        'pos': st.floats(0.0, 1.0),
        'freq': st.fixed_dictionaries({'f': gen.lgfloat(1e-2, 1e3),
                                       'laplace': st.booleans()}),
        'route': st.sampled_from(ROUTES),
        'corder': st.booleans(),
        # --- added later (old replay specs lack them: spec.get defaults) ---
        'mapsel': st.sampled_from(MAPSEL),
        'forms': st.lists(st.sampled_from(CFORMS), min_size=5, max_size=5),
        'post': st.sampled_from(POSTS),
        'decoy': st.booleans(),
        'wide': st.sampled_from([False]*7 + [True]),
    })


def _coeff_ref(h, sx, sy, sz, mur, epsr, s):
    vol = h[0][:, None, None]*h[1][None, :, None]*h[2][None, None, :]
    ee = 0 if epsr is None else s*refop.epsilon_0*epsr
    out = {}
    for name, sig in (('eta_x', sx), ('eta_y', sy), ('eta_z', sz)):
        out[name] = -s*refop.mu_0*vol*(sig + ee)
    out['zeta'] = vol/(1.0 if mur is None else mur)
    return out


def _cmp_componentwise(got, ref, rtol):
    """max over entries of |d re|/|re ref|, |d im|/|im ref| <= rtol ?"""
    got = np.asarray(got)
    if got.shape != ref.shape:
        return False, float('inf')
    worst = 0.0
    parts = [(np.real(got), np.real(ref))]
    if np.iscomplexobj(ref) or np.iscomplexobj(got):
        parts.append((np.imag(got), np.imag(ref)))
    ok = True
    for g, r in parts:
        d = np.abs(g - r)
        if not np.all(d <= rtol*np.abs(r)):
            ok = False
        with np.errstate(all='ignore'):
            q = np.where(d == 0, 0.0, d/np.abs(r))
        worst = max(worst, float(np.max(q)))
    return ok, worst


def _form_effective(form, a):
    """Full-shape linear values (conductivity, mu_r, epsilon_r) that the
    input form `form` of the full-shape array `a` stands for (before any
    float32 rounding): broadcast forms repeat a profile of `a`."""
    if a is None:
        return None
    sl = {'bcast_z': a[:1, :1, :], 'bcast_x': a[:, :1, :1],
          'bcast_y': a[:1, :, :1], 'scalar': a[:1, :1, :1]}.get(form)
    if sl is None:
        return np.array(a, dtype=float)
    return np.array(np.broadcast_to(sl, a.shape), dtype=float)


def _form_value(form, full, corder):
    """The object handed to emg3d for the full-shape mapped array `full`
    (always freshly allocated: Model keeps views of Fortran-ordered input,
    and no two properties may share memory), and the float64 full-shape
    array emg3d has to hold afterwards."""
    order = 'C' if corder else 'F'
    if form == 'flatF':          # 1-D of size n: documented reshape, order F
        return full.ravel('F').copy(), full
    if form == 'bcast_z':        # (nz,)      numpy broadcasting rules
        return full[0, 0, :].copy(), full
    if form == 'bcast_x':        # (nx, 1, 1)
        return np.array(full[:, :1, :1], order=order), full
    if form == 'bcast_y':        # (1, ny, 1)
        return np.array(full[:1, :, :1], order=order), full
    if form == 'scalar':
        return float(full[0, 0, 0]), full
    if form == 'list':
        return np.array(full, order=order).tolist(), full
    if form == 'f32':
        v = np.array(full, order=order, dtype=np.float32)
        return v, v.astype(np.float64)
    return np.array(full, order=order), full


def _mapping_kw(emg3d, mapsel, m):
    if mapsel == 'instance':        # an instantiated map (as extract_1d does)
        return {'mapping': _emap(emg3d, m)}
    if mapsel == 'kw_default' and m == 'Resistivity':
        return {}                   # documented default
    return {'mapping': m}


def case_coeff(spec, rec):
    import copy as _copy
    import pickle
    import emg3d
    h, origin = gen.build_widths(spec['grid'])
    grid = emg3d.TensorMesh(h, origin=origin)
    shape = tuple(int(k) for k in grid.shape_cells)
    ms = spec['model']
    case = ms['case']
    d = float(ms['decades'])
    wide = bool(spec.get('wide', False))
    w_lo, w_hi = (WIDE_LO, WIDE_HI) if wide else (LG_LO, LG_HI)
    lo = w_lo + float(spec['pos'])*(w_hi - w_lo - d)
    bg = 10.0**(lo + d/2)
    route = spec['route']
    mapsel = spec.get('mapsel', 'name')
    post = spec.get('post', 'none')
    decoy = bool(spec.get('decoy', False))
    forms = list(spec.get('forms', ['full']*5))
    if route != 'ctor':
        # assignment broadcasts by numpy's rules: no flat vectors there
        forms = ['full' if f == 'flatF' else f for f in forms]
    lin = gen.build_cond(ms, shape, bg)           # sx, sy, sz, mur, epsr
    present = [a is not None for a in lin]
    forms = [f if p else 'absent' for f, p in zip(forms, present)]
    # the values each input form stands for
    lin = [_form_effective(f, a) for f, a in zip(forms, lin)]
    # the state before the assignments (all routes but 'ctor')
    other = None
    assign = [False]*5
    if route != 'ctor':
        ms2 = dict(ms, seed=(ms['seed'] + 1) % 2**32)
        other = [None if a is None else np.array(a, dtype=float)
                 for a in gen.build_cond(ms2, shape, bg)]
        if route == 'subset':
            draw = gen.rng_of(ms['seed'], 147).integers(0, 2, 5)
            assign = [bool(k) and p for k, p in zip(draw, present)]
        else:
            assign = list(present)
    freq = gen.freq_of(spec['freq'])
    s = gen.sval_of(spec['freq'])
    sfield = emg3d.Field(grid, frequency=freq)
    # a second source field in the other domain (decoy VolumeModel)
    freq2 = -3.0*freq
    s2 = -freq2 if freq2 < 0 else 2j*np.pi*freq2

    def judge(vm, lin5, sval, bad, m):
        sx, sy, sz, mur, epsr = lin5
        ref = _coeff_ref(h, sx, sx if sy is None else sy,
                         sx if sz is None else sz, mur, epsr, sval)
        w_ = 0.0
        for nm in ('eta_x', 'eta_y', 'eta_z', 'zeta'):
            ok, w = _cmp_componentwise(getattr(vm, nm), ref[nm], 1e-12)
            w_ = max(w_, w)
            if not ok:
                bad.setdefault(nm, []).append((m, w))
        return w_

    bad, bad_decoy = {}, {}
    worst = 0.0
    for m in MAPS:
        mkw = _mapping_kw(emg3d, mapsel, m)
        # objects handed over / arrays to be held / values they stand for
        vals, hold, eff = [], [], []
        for k, (f, a) in enumerate(zip(forms, lin)):
            if a is None:
                vals.append(None), hold.append(None), eff.append(None)
                continue
            full = gen.map_forward(m, a) if k < 3 else a
            v, st_ = _form_value(f, full, spec['corder'])
            if f == 'f32':         # float32 input: what it is in float64
                e = gen.map_backward(m, st_) if k < 3 else st_
            else:
                e = a
            vals.append(v), hold.append(np.array(st_)), eff.append(e)
        with warnings.catch_warnings():
            warnings.simplefilter('ignore')
            if route == 'ctor':
                model = emg3d.Model(grid, vals[0], vals[1], vals[2],
                                    mu_r=vals[3], epsilon_r=vals[4], **mkw)
                state = eff
            else:
                # other (valid) values first ...
                ini = [None if a is None else
                       np.array(gen.map_forward(m, a) if k < 3 else a,
                                order='F') for k, a in enumerate(other)]
                model = emg3d.Model(grid, ini[0], ini[1], ini[2],
                                    mu_r=ini[3], epsilon_r=ini[4], **mkw)
                state = list(other)
            if decoy:
                # coefficients for another source field (other domain), taken
                # before the assignments / before the ones compared below
                vm2 = emg3d.models.VolumeModel(
                    model, emg3d.Field(grid, frequency=freq2))
                judge(vm2, state, s2, bad_decoy, m)
            if route != 'ctor':
                # ... then assignment via the setters / in place
                state = list(other)
                for k, nm in enumerate(PROPS):
                    if not assign[k]:
                        if other[k] is not None:
                            hold[k] = np.array(
                                gen.map_forward(m, other[k]) if k < 3
                                else other[k])
                        continue
                    if route == 'inplace':
                        getattr(model, nm)[...] = vals[k]
                    else:
                        setattr(model, nm, vals[k])
                    state[k] = eff[k]
            if post == 'copy':
                model = model.copy()
            elif post == 'dict':
                model = emg3d.Model.from_dict(model.to_dict())
            elif post == 'pickle':
                model = pickle.loads(pickle.dumps(model))
            elif post == 'deepcopy':
                model = _copy.deepcopy(model)
            if model.case != case:
                raise Violation(f"case:{case}", f"model.case={model.case}")
            if model.map.name != m:
                raise Violation("map_name", f"{model.map.name} for {m} "
                                            f"(mapping given by {mapsel}, "
                                            f"post {post})")
            for nm, a in zip(PROPS, hold):
                st_ = getattr(model, nm)
                if (a is None) != (st_ is None) or (
                        a is not None and not np.array_equal(st_, a)):
                    raise Violation(f"stored_property_differs:{route}",
                                    f"{nm} under {m} is not what was given "
                                    f"(forms {forms}, post {post})")
            vm = emg3d.models.VolumeModel(model, sfield)
            worst = max(worst, judge(vm, state, s, bad, m))
    for which, bd, sv in (('', bad, s), ('decoy_', bad_decoy, s2)):
        if not bd:
            continue
        nm = sorted(bd)[0]
        who = bd[nm]
        tag = 'all_mappings' if len(who) == len(MAPS) else who[0][0]
        raise Violation(
            f"coefficients_differ:{which}{nm}:{tag}",
            f"VolumeModel.{nm} differs from -s mu0 V (sigma + s eps) resp. "
            f"V/mu_r for the same conductivities under "
            f"{[(a, float(f'{b:.2e}')) for a, b in who]} (rel, componentwise)"
            f"; case {case}, route {route}, s={sv}, forms {forms}, mapping "
            f"by {mapsel}, post {post}, decoy {decoy}")

    # ---- the all-defaults model: resistivity 1 Ohm m, isotropic -------------
    if mapsel == 'kw_default':
        with warnings.catch_warnings():
            warnings.simplefilter('ignore')
            model = emg3d.Model(grid)
            vm = emg3d.models.VolumeModel(model, sfield)
        px = model.property_x
        if model.map.name != 'Resistivity' or model.case != 'isotropic' or \
                px is None or px.shape != shape or not np.all(px == 1.0) or \
                model.mu_r is not None or model.epsilon_r is not None:
            raise Violation(
                "default_model",
                f"Model(grid): map {model.map.name}, case {model.case}, "
                f"property_x {None if px is None else px.ravel()[:3]}, "
                f"documented: resistivity 1, isotropic, no mu_r/epsilon_r")
        bd = {}
        judge(vm, [np.ones(shape), None, None, None, None], s, bd, 'default')
        if bd:
            raise Violation(
                f"coefficients_differ:default_model:{sorted(bd)[0]}",
                f"Model(grid) (documented defaults: 1 Ohm m) gives "
                f"{sorted(bd)} != -s mu0 V resp. V; {bd}")

    het = ms['hetero'] != 'homog'
    used = sorted({f for f in forms if f != 'absent'})
    rec.cls(f"case={case}", f"route={route}",
            f"mur={present[3]}", f"epsr={present[4]}",
            f"laplace={spec['freq']['laplace']}",
            'decades>=8' if d >= 8 else ('decades>=3' if d >= 3 else
                                         'decades<3'),
            f"hetero={ms['hetero']}", f"mapsel={mapsel}", f"post={post}",
            f"decoy={decoy}", f"wide={wide}",
            *[f"form={f}" for f in used],
            *[f"form_x={forms[0]}:hetero={het}"],
            *([f"subset_assigned={sum(assign)}of{sum(present)}"]
              if route == 'subset' else []))
    if het and d >= 3:
        rec.nt([list(shape), case, ms['seed'], route,
                spec['grid']['seed']])
    rec.note({'shape': list(shape), 'case': case,
              'lg_sigma': [lo, lo+d], 'worst_rel': worst})


# ====================================================================
# reject
# ====================================================================
TARGETS = ['property_x', 'property_x', 'property_y', 'property_z', 'mu_r',
           'epsilon_r']
KINDS = ['valid', 'valid', 'valid_int', 'valid_int', 'extreme', 'zero',
         'negzero', 'negative', 'posinf', 'neginf', 'nan', 'overflow',
         'underflow']
FORMS = ['scalar', 'np0d', 'int', 'array_all', 'array_one', 'array_one',
         'int_array', 'list']


def reject_strategy():
    return st.fixed_dictionaries({
        'mapping': st.sampled_from(MAPS),
        'case': st.sampled_from(gen.CASES),
        'mur': st.booleans(),
        'epsr': st.booleans(),
        'n': st.lists(st.integers(1, 3), min_size=3, max_size=3),
        'target': st.sampled_from(TARGETS),
        'route': st.sampled_from(['ctor', 'assign']),
        'kind': st.sampled_from(KINDS),
        'form': st.sampled_from(FORMS),
        'corder': st.booleans(),
        'seed': gen.SEED,
        # added later (old replay specs lack it: spec.get default False):
        # assignment to property_y / property_z of a model built without it
        'absent': st.sampled_from([False]*5 + [True]),
    })


def absent_product(seed):
    """mapping x target (property_y, property_z) x valid kind x form for
    the assignment to a property the model was initiated without."""
    rng = gen.rng_of(seed, 148)
    forms = sorted(set(FORMS), key=FORMS.index)
    out = []
    for m, t, k, f in itertools.product(
            MAPS, ['property_y', 'property_z'], ['valid', 'valid_int'],
            forms):
        out.append({
            'mapping': m, 'case': gen.CASES[int(rng.integers(0, 4))],
            'mur': bool(rng.integers(0, 2)), 'epsr': bool(rng.integers(0, 2)),
            'n': [int(v) for v in rng.integers(1, 4, 3)],
            'target': t, 'route': 'assign', 'kind': k, 'form': f,
            'corder': bool(rng.integers(0, 2)),
            'seed': int(rng.integers(0, 2**32)), 'absent': True,
        })
    return out


def reject_product(seed, reps):
    """The full discrete product mapping x target x route x kind x form,
    `reps` times, the remaining fields filled from a generator derived from
    the run seed (Hypothesis favours the first elements of late
    `sampled_from` draws, which starves e.g. integer forms and assignment;
    the product guarantees every combination in every run)."""
    rng = gen.rng_of(seed, 146)
    kinds = sorted(set(KINDS), key=KINDS.index)
    forms = sorted(set(FORMS), key=FORMS.index)
    targets = sorted(set(TARGETS), key=TARGETS.index)
    out = []
    for _ in range(reps):
        for m, t, r, k, f in itertools.product(
                MAPS, targets, ['ctor', 'assign'], kinds, forms):
            out.append({
                'mapping': m, 'case': gen.CASES[int(rng.integers(0, 4))],
                'mur': bool(rng.integers(0, 2)),
                'epsr': bool(rng.integers(0, 2)),
                'n': [int(v) for v in rng.integers(1, 4, 3)],
                'target': t, 'route': r, 'kind': k, 'form': f,
                'corder': bool(rng.integers(0, 2)),
                'seed': int(rng.integers(0, 2**32)),
            })
    return out


def _special_value(target, mapping, kind, rng):
    """-> (raw value (float), expect 'accept'|'reject', effective kind).

    The expectation follows from the kind by construction: the float64
    conductivity (or mu_r / epsilon_r) the value stands for is positive and
    finite for 'valid', 'valid_int', 'extreme' and is 0, -0, negative, inf,
    -inf or NaN for every other kind.  Finite overflow / underflow values
    keep a margin of > 0.2 decades from the float64 limits (1.8e308, 2.5e-324)
    so that no rounding of pow/exp can change the side."""
    nan, inf = float('nan'), float('inf')
    elec = target.startswith('property_')
    fam = FAMILY[mapping] if elec else 'lin'
    sgn = SIGN[mapping] if elec else 1
    unit = LN10 if fam == 'ln' else 1.0
    if fam == 'lin':
        # kinds without a finite representative in a linear parameter
        if kind == 'underflow':
            kind = 'zero'
        if kind == 'overflow' and sgn == 1:
            kind = 'posinf'
    else:
        kind = {'negzero': 'zero', 'negative': 'nan',
                'neginf': 'posinf'}.get(kind, kind)

    def in_range():
        if not elec:
            return (float(rng.uniform(0.5, 5)) if target == 'mu_r'
                    else float(rng.uniform(1, 80)))
        return float(gen.map_forward(mapping,
                                     10.0**rng.uniform(LG_LO, LG_HI)))

    if kind == 'valid':
        return in_range(), 'accept', kind
    if kind == 'valid_int':
        if not elec:
            v = int(rng.integers(1, 6 if target == 'mu_r' else 81))
        elif fam == 'lin':
            v = int(rng.choice([1, 2, 3, 7, 10, 100, 2500, 10000]))
        elif fam == 'lg':
            v = sgn*int(rng.integers(-8, 5))
        else:
            v = sgn*int(rng.integers(-18, 10))
        return float(v), 'accept', kind
    if kind == 'extreme':
        L = (float(rng.uniform(4.01, 300)) if rng.random() < 0.5
             else -float(rng.uniform(8.01, 300)))
        if fam == 'lin':
            return float(10.0**(sgn*L)), 'accept', kind
        return sgn*L*unit, 'accept', kind
    # ---- values that must be rejected ------------------------------------
    if kind == 'nan':
        return nan, 'reject', kind
    if fam == 'lin':
        if kind == 'negative':
            return -abs(in_range()), 'reject', kind
        if kind == 'neginf':
            return -inf, 'reject', kind       # sigma = -inf or -0.0
        if kind == 'negzero':
            return -0.0, 'reject', kind       # sigma = -0.0 or -inf
        if kind == 'zero':                    # sigma = 0
            return (0.0 if sgn == 1 else inf), 'reject', kind
        if kind == 'posinf':                  # sigma = +inf
            return (inf if sgn == 1 else 0.0), 'reject', kind
        if kind == 'overflow':                # Resistivity, subnormal rho
            return float(10.0**(-rng.uniform(308.5, 323.0))), 'reject', kind
    else:
        if kind == 'zero':                    # sigma = 10**-inf = 0
            return -sgn*inf, 'reject', kind
        if kind == 'posinf':
            return sgn*inf, 'reject', kind
        if kind == 'overflow':
            return sgn*float(rng.uniform(308.5, 5000))*unit, 'reject', kind
        if kind == 'underflow':
            return -sgn*float(rng.uniform(324.5, 5000))*unit, 'reject', kind
    raise AssertionError(f"unhandled kind {kind} / {fam}")


def _value_class(target, mapping, val):
    """Class of the conductivity (mu_r, epsilon_r) a raw value stands for,
    from the checker-side back-mapping: nan / zero / negative / inf / ok."""
    with np.errstate(all='ignore'):
        c = float(gen.map_backward(mapping, np.float64(val))) \
            if target.startswith('property_') else float(val)
    if math.isnan(c):
        return 'nan'
    if c == 0:
        return 'zero'
    if c < 0:
        return 'negative'
    if math.isinf(c):
        return 'inf'
    return 'ok'


def _same(a, b):
    if a is None or b is None:
        return a is None and b is None
    return np.array_equal(a, b, equal_nan=True)


def case_reject(spec, rec):
    import emg3d
    m = spec['mapping']
    target = spec['target']
    route = spec['route']
    elec = target.startswith('property_')
    fam = FAMILY[m] if elec else 'lin'
    rng = gen.rng_of(spec['seed'], 142)
    # ---- a valid model that has the target --------------------------------
    case = spec['case']
    absent = bool(spec.get('absent', False)) and \
        target in ('property_y', 'property_z')
    if absent:
        # ... or, for 'absent', a valid model that lacks the target
        route = 'assign'
        case = ({'HTI': 'isotropic', 'triaxial': 'VTI'}
                if target == 'property_y' else
                {'VTI': 'isotropic', 'triaxial': 'HTI'}).get(case, case)
    else:
        if target == 'property_y' and case in ('isotropic', 'VTI'):
            case = 'HTI' if case == 'isotropic' else 'triaxial'
        if target == 'property_z' and case in ('isotropic', 'HTI'):
            case = 'VTI' if case == 'isotropic' else 'triaxial'
    has_mur = spec['mur'] or target == 'mu_r'
    has_eps = spec['epsr'] or target == 'epsilon_r'
    shape = tuple(int(k) for k in spec['n'])
    grid = emg3d.TensorMesh([np.ones(k)*10.0 for k in shape],
                            origin=(0, 0, 0))

    def valid_el():
        return gen.map_forward(m, 10.0**rng.uniform(LG_LO, LG_HI, shape))
    base = {
        'property_x': valid_el(),
        'property_y': valid_el() if case in ('HTI', 'triaxial') else None,
        'property_z': valid_el() if case in ('VTI', 'triaxial') else None,
        'mu_r': rng.uniform(0.5, 5, shape) if has_mur else None,
        'epsilon_r': rng.uniform(1, 80, shape) if has_eps else None,
    }
    base = {k: (None if v is None else np.asfortranarray(v))
            for k, v in base.items()}

    # ---- the value ---------------------------------------------------------
    skind = spec['kind']
    if absent and skind not in ('valid', 'valid_int', 'extreme'):
        skind = 'valid'
    val, expect, kind = _special_value(target, m, skind, rng)
    vcls = _value_class(target, m, val)
    if (vcls == 'ok') != (expect == 'accept'):
        raise HarnessError(f"reject: kind {kind} under {m} gives class "
                           f"{vcls} but expectation {expect} (value {val!r})")
    form = spec['form']
    integral = math.isfinite(val) and float(val).is_integer() and \
        abs(val) < 2**53 and not (val == 0 and math.copysign(1, val) < 0)
    if form in ('int', 'int_array') and not integral:
        form = 'scalar' if form == 'int' else 'array_all'
    if form == 'scalar':
        value = float(val)
    elif form == 'np0d':
        value = np.float64(val)
    elif form == 'int':
        value = int(val)
    elif form == 'int_array':
        value = np.full(shape, int(val), dtype=np.int64)
    else:
        if form == 'array_all':
            a = np.full(shape, float(val))
        else:   # array_one / list: valid entries plus one special
            if elec:
                a = valid_el()
            else:
                a = (rng.uniform(0.5, 5, shape) if target == 'mu_r'
                     else rng.uniform(1, 80, shape))
            pos = tuple(int(rng.integers(0, k)) for k in shape)
            a[pos] = val
        a = np.ascontiguousarray(a) if spec['corder'] else \
            np.asfortranarray(a)
        value = a.tolist() if form == 'list' else a
    stored_expect = np.empty(shape, order='F')
    stored_expect[...] = np.asarray(value, dtype=np.float64)
    dkind = 'int' if form in ('int', 'int_array') else 'float'
    tkind = 'property' if elec else target
    vclass = 'range12' if kind in ('valid', 'valid_int') else 'extreme'

    # ---- assignment to a property the model was initiated without ----------
    if absent:
        with warnings.catch_warnings():
            warnings.simplefilter('ignore')
            model = emg3d.Model(grid, base['property_x'], base['property_y'],
                                base['property_z'], mu_r=base['mu_r'],
                                epsilon_r=base['epsilon_r'], mapping=m)
            if model.case != case or getattr(model, target) is not None:
                raise Violation(f"case:{case}", f"model.case={model.case}")
            snap = {k: (None if getattr(model, k) is None
                        else np.array(getattr(model, k)))
                    for k in base}
            raised = None
            try:
                setattr(model, target, value)
            except Exception as e:      # noqa: any refusal is a refusal
                raised = e
        changed = [k for k in base if not _same(getattr(model, k), snap[k])]
        if model.case != case:
            changed.append('case')
        if raised is None:
            raise Violation(
                f"absent_property_assigned:{target}",
                f"assignment {target}={val!r} ({form}) to a {case} model "
                f"under {m} (initiated without {target}; documented: cannot "
                f"be set later on) raised nothing; afterwards {target} is "
                f"{'None' if getattr(model, target) is None else 'set'}, "
                f"case {model.case}")
        if changed:
            raise Violation(
                f"rejected_assignment_modified_model:{tkind}:{fam}",
                f"assignment to the absent {target} raised "
                f"{type(raised).__name__} but {changed} changed")
        rec.cls(f"map={m}", f"target={target}", "route=assign_absent",
                f"kind={kind}", f"form={form}", "expect=refuse_absent",
                f"case={case}")
        rec.nt([m, target, 'absent', kind, form, case, spec['seed']])
        rec.note({'mapping': m, 'target': target, 'route': 'assign_absent',
                  'kind': kind, 'form': form, 'value': val,
                  'raised': type(raised).__name__})
        return

    # ---- act -----------------------------------------------------------------
    raised = None
    with warnings.catch_warnings():
        warnings.simplefilter('ignore')
        if route == 'ctor':
            kw = dict(base)
            kw[target] = value
            try:
                model = emg3d.Model(grid, kw['property_x'], kw['property_y'],
                                    kw['property_z'], mu_r=kw['mu_r'],
                                    epsilon_r=kw['epsilon_r'], mapping=m)
            except ValueError as e:
                raised = e
        else:
            model = emg3d.Model(grid, base['property_x'], base['property_y'],
                                base['property_z'], mu_r=base['mu_r'],
                                epsilon_r=base['epsilon_r'], mapping=m)
            snap = {k: (None if getattr(model, k) is None
                        else np.array(getattr(model, k)))
                    for k in base}
            try:
                setattr(model, target, value)
            except ValueError as e:
                raised = e

    # ---- judge ----------------------------------------------------------------
    if expect == 'reject':
        if raised is None:
            raise Violation(
                f"invalid_accepted:{route}:{tkind}:{vcls}",
                f"{route} of {target}={val!r} ({form}) under mapping {m} was "
                f"accepted although it stands for a non-positive or "
                f"non-finite value (kind {kind})")
        if route == 'assign':
            for k in base:
                if not _same(getattr(model, k), snap[k]):
                    raise Violation(
                        f"rejected_assignment_modified_model:{tkind}:{fam}",
                        f"assignment {target}={val!r} raised ValueError but "
                        f"{k} changed")
    else:
        if raised is not None:
            raise Violation(
                f"valid_rejected:{route}:{tkind}:{fam}:{dkind}:{vclass}",
                f"{route} of {target}={value if form != 'list' else val!r} "
                f"(form {form}, kind {kind}) under mapping {m} raised "
                f"ValueError({str(raised)[:120]!r}) although the value is "
                f"positive and finite on the linear scale")
        got = getattr(model, target)
        if got is None or got.shape != shape or \
                not np.array_equal(got, stored_expect):
            raise Violation(
                f"accepted_value_not_stored:{route}:{tkind}:{fam}:{dkind}",
                f"{target} after {route} of {val!r} ({form}) is not the "
                f"given value")
        if route == 'assign':
            for k in base:
                if k != target and not _same(getattr(model, k), snap[k]):
                    raise Violation(
                        f"assignment_changed_other_property:{tkind}",
                        f"assigning {target} changed {k}")

    rec.cls(f"map={m}", f"target={target}", f"route={route}",
            f"kind={kind}", f"form={form}", f"expect={expect}",
            f"fam={fam}:kind={kind}", f"case={case}")
    rec.nt([m, target, route, kind, form, case, spec['seed']])
    rec.note({'mapping': m, 'target': target, 'route': route, 'kind': kind,
              'form': form, 'value': val, 'expect': expect})


# ====================================================================
# solve
# ====================================================================
SOLVERS = [
    {'sslsolver': False, 'cycle': 'F', 'semicoarsening': True,
     'linerelaxation': True},
    {'sslsolver': False, 'cycle': 'F', 'semicoarsening': False,
     'linerelaxation': False},
    {'sslsolver': False, 'cycle': 'V', 'semicoarsening': True,
     'linerelaxation': False},
    {'sslsolver': 'bicgstab', 'cycle': 'F', 'semicoarsening': True,
     'linerelaxation': True},
    {'sslsolver': 'bicgstab', 'cycle': 'F', 'semicoarsening': False,
     'linerelaxation': False},
]
PROBE_MAX = 260     # interior edges up to which 'cubic' weights are probed


def solve_strategy():
    return st.fixed_dictionaries({
        'grid': gen.grid_spec([3, 4, 4, 4, 5, 5, 6]),
        'model': _model_spec(st.one_of(
            st.floats(1.0, 3.0), st.floats(1.0, 3.0), st.floats(0.2, 1.0),
            st.floats(0.0, 0.2))),
        'maps': st.lists(st.sampled_from(MAPS), min_size=2, max_size=3,
                         unique=True),
        'freq': gen.freq_spec(),
        'tol': gen.lgfloat(1e-9, 1e-5),
        'source': st.sampled_from(['dipole', 'point', 'random']),
        'solver': st.integers(0, len(SOLVERS)-1),
        'method': st.sampled_from(['cubic', 'linear']),
        'nrec': st.integers(1, 4),
        'seed': gen.SEED,
    })


def _source(emg3d, grid, spec, freq):
    rng = gen.rng_of(spec['seed'], 143)
    nodes = [grid.nodes_x, grid.nodes_y, grid.nodes_z]

    def pt():
        out = []
        for x in nodes:
            if rng.random() < 0.2 and len(x) > 3:
                out.append(float(rng.choice(x[1:-1])))
            else:
                out.append(float(rng.uniform(x[1], x[-2])))
        return out
    kind = spec['source']
    with warnings.catch_warnings():
        warnings.simplefilter('ignore')
        if kind == 'point':
            src = emg3d.TxElectricPoint(
                pt() + [float(rng.uniform(-180, 180)),
                        float(rng.uniform(-90, 90))],
                strength=float(rng.uniform(0.5, 2)))
            return emg3d.get_source_field(grid, src, freq)
        if kind == 'dipole':
            p0, p1 = pt(), pt()
            if np.allclose(p0, p1):
                p1[0] = 0.5*(p0[0] + (nodes[0][1] if p0[0] > 0.5*(
                    nodes[0][1]+nodes[0][-2]) else nodes[0][-2]))
            src = emg3d.TxElectricDipole(np.array([p0, p1]))
            return emg3d.get_source_field(grid, src, freq)
    return gen.random_field(grid, spec['seed'], freq, salt=144)


def _receivers(grid, spec):
    rng = gen.rng_of(spec['seed'], 145)
    n = spec['nrec']
    coo = []
    for nodes, cc in ((grid.nodes_x, grid.cell_centers_x),
                      (grid.nodes_y, grid.cell_centers_y),
                      (grid.nodes_z, grid.cell_centers_z)):
        v = rng.uniform(nodes[1], nodes[-2], n)
        for j in range(n):
            r = rng.random()
            if r < 0.15:
                v[j] = rng.choice(nodes[1:-1])
            elif r < 0.3 and len(cc) > 2:
                v[j] = rng.choice(cc[1:-1])
        coo.append(v)
    azm = rng.uniform(-180, 180, n)
    elv = rng.uniform(-90, 90, n)
    for j in range(n):
        if rng.random() < 0.3:
            azm[j] = float(rng.choice([0, 90, 180, -90]))
            elv[j] = float(rng.choice([0, 0, 90, -90]))
    return (coo[0], coo[1], coo[2], azm, elv)


def case_solve(spec, rec):
    import emg3d
    h, origin = gen.build_widths(spec['grid'])
    grid = emg3d.TensorMesh(h, origin=origin)
    shape = tuple(int(k) for k in grid.shape_cells)
    fs = spec['freq']
    freq = gen.freq_of(fs)
    s = gen.sval_of(fs)
    bg = gen.bg_cond(fs, spec['grid']['scale'])
    ms = spec['model']
    case = ms['case']
    sx, sy, sz, mur, epsr = gen.build_cond(ms, shape, bg)
    rsy = sy if sy is not None else sx
    rsz = sz if sz is not None else sx
    A0, interior, *_ = refop.assemble(*h, sx, rsy, rsz, mur, epsr, s)
    sf = _source(emg3d, grid, spec, freq)
    svec = np.array(sf.field)
    if np.any(svec[~interior] != 0) or not np.any(svec):
        rec.cls('source_unusable_skipped')
        return
    snorm = float(np.linalg.norm(svec))
    tol = float(spec['tol'])
    cfg = SOLVERS[spec['solver']]
    mlist = list(spec['maps'])

    # ---- solve under every mapping -------------------------------------------
    fields, mats, infos = {}, {}, {}
    for m in mlist:
        with warnings.catch_warnings():
            warnings.simplefilter('ignore')
            model = emg3d.Model(grid, gen.map_forward(m, sx),
                                gen.map_forward(m, sy),
                                gen.map_forward(m, sz), mu_r=mur,
                                epsilon_r=epsr, mapping=m)
            sfm = emg3d.Field(grid, data=svec.copy(), frequency=freq)
            ef, info = emg3d.solve(model, sfm, tol=tol, maxit=60, verb=-1,
                                   return_info=True, **cfg)
        if info['exit'] != 0:
            raise Inconclusive(f"no convergence ({cfg['sslsolver']})")
        e = np.array(ef.field)
        if not np.all(np.isfinite(e)):
            raise Inconclusive("non-finite field")
        fields[m], infos[m] = ef, info
        # the system this model stands for, from what the model stores
        cb = [gen.map_backward(m, None if p is None else np.asarray(p))
              for p in (model.property_x, model.property_y,
                        model.property_z)]
        by = cb[1] if cb[1] is not None else cb[0]
        bz = cb[2] if cb[2] is not None else cb[0]
        mats[m] = refop.assemble(*h, cb[0], by, bz, mur, epsr, s)[0]
    mats['sigma'] = A0
    absA = refop.absmat(A0)

    # ---- cross residuals: field of A in the system of B ----------------------
    rn = {}
    floor_r = {}
    # (1) against the system of the original conductivities, (2) against the
    # systems assembled from what the models of the other mappings store
    for b in ['sigma'] + mlist:
        for a in mlist:
            e = np.asarray(fields[a].field)
            if b == 'sigma':
                floor_r[a] = C_EPS*float(np.linalg.norm(
                    (absA @ np.abs(e) + np.abs(svec))[interior]))
            r = svec - mats[b] @ e
            r[~interior] = 0
            nr = float(np.linalg.norm(r))
            if b == 'sigma':
                rn[a] = nr
            if nr >= tol*snorm*(1+1e-9) + floor_r[a]:
                sig = (f"field_not_solution_of_true_system:{a}"
                       if b == 'sigma' else f"cross_system_residual:{b}")
                raise Violation(
                    sig,
                    f"field solved under {a} (reported converged, tol "
                    f"{tol:.2e}) has ||s - A_{b} e||/||s|| = {nr/snorm:.3e} "
                    f"in the system assembled from the conductivities of "
                    f"{b}; shape {shape}, case {case}")

    # ---- data at receivers ------------------------------------------------------
    rcv = _receivers(grid, spec)
    method = spec['method']
    ii = np.flatnonzero(interior)
    if method == 'cubic' and (ii.size > PROBE_MAX or min(shape) < 4):
        # probing too expensive / scipy's cubic spline needs >= 4 points per
        # direction (receiver sampling on tiny grids is not C14's subject)
        method = 'linear'
    data = {}
    with warnings.catch_warnings():
        warnings.simplefilter('ignore')
        for a in mlist:
            data[a] = np.asarray(fields[a].get_receiver(rcv, method=method))
    nrec = spec['nrec']
    if method == 'linear':
        w2 = np.ones(nrec)
        w1 = np.full(nrec, math.sqrt(3.0))
    else:
        dt = svec.dtype
        W = np.zeros((nrec, ii.size), dtype=dt)
        probe = emg3d.Field(grid, frequency=freq)
        with warnings.catch_warnings():
            warnings.simplefilter('ignore')
            for k, j in enumerate(ii):
                probe.field[j] = 1.0
                W[:, k] = np.asarray(probe.get_receiver(rcv, method=method))
                probe.field[j] = 0.0
        if not np.all(np.isfinite(W)):
            raise Inconclusive("sampling weights not finite")
        w2 = np.linalg.norm(W, axis=1)
        w1 = np.abs(W).sum(axis=1)
    Aii = A0[ii][:, ii].toarray()
    smin = float(sla.svdvals(Aii)[-1])
    if not smin > 0:
        raise Inconclusive("singular reference operator")
    emax = max(float(np.max(np.abs(fields[a].field))) for a in mlist)
    for i, a in enumerate(mlist):
        if np.any(np.isnan(data[a])):
            raise Violation(f"data_nan_inside:{method}",
                            "NaN response for a receiver inside "
                            "[nodes[1], nodes[-2]]")
        for b in mlist[i+1:]:
            bound = (w2*(rn[a] + rn[b] + floor_r[a] + floor_r[b])/smin *
                     (1+1e-6) + C_EPS*(np.abs(data[a]) + np.abs(data[b]) +
                                       w1*emax))
            dd = np.abs(data[a] - data[b])
            if not np.all(dd <= bound):
                j = int(np.argmax(dd/bound))
                raise Violation(
                    f"data_differ:{method}",
                    f"receiver {j}: data under {a} = {data[a][j]!r}, under "
                    f"{b} = {data[b][j]!r}; |diff| = {dd[j]:.3e} > bound "
                    f"{bound[j]:.3e} from residuals {rn[a]:.2e}, {rn[b]:.2e}"
                    f", sigma_min {smin:.2e}")

    its = [int(infos[a]['it_mg']) + int(infos[a]['it_ssl']) for a in mlist]
    het = ms['hetero'] != 'homog' and ms['decades'] > 0.1
    rec.cls(f"case={case}", f"nmaps={len(mlist)}", f"method={method}",
            f"source={spec['source']}", f"ssl={cfg['sslsolver']}",
            f"laplace={fs['laplace']}", gen.regime(fs),
            f"mur={mur is not None}", f"epsr={epsr is not None}",
            *[f"map={a}" for a in mlist])
    if het and min(its) >= 1:
        rec.nt([list(shape), mlist, case, spec['seed'], ms['seed'],
                spec['grid']['seed']])
    rec.note({'shape': list(shape), 'maps': mlist, 'case': case, 'tol': tol,
              'relres': {a: rn[a]/snorm for a in mlist}, 'its': its,
              'method': method})


SUBS = {'maps': case_maps, 'coeff': case_coeff, 'reject': case_reject,
        'solve': case_solve}


FUZZ = {'reject': (reject_strategy(), case_reject),
        'coeff': (coeff_strategy(), case_coeff)}


def run(ctx):
    ctx.regression(SUBS)
    ctx.explore('maps', maps_strategy(), case_maps, ctx.n(2000, 8000))
    ctx.explore('coeff', coeff_strategy(), case_coeff, ctx.n(1000, 5000))
    # every combination mapping x target x route x kind x form (4620) ...
    reps = 1 if ctx.quick else 3*ctx.shard[1]
    if ctx.scale < 1:
        reps = max(1, int(round(reps*ctx.scale)))
    ctx.enumerate('reject', reject_product(ctx.seed, reps), case_reject)
    ctx.notes['reject_product'] = (
        "discrete product mapping(6) x target(5) x route(2) x kind(11) x "
        f"form(7) = 4620 combinations enumerated completely, {reps}x in total"
        " (values, shapes, positions drawn)")
    # ... the assignments to a property the model lacks (168) ...
    ctx.enumerate('reject', absent_product(ctx.seed), case_reject)
    ctx.notes['reject_absent'] = (
        "mapping(6) x target(property_y, property_z) x valid kind(2) x "
        "form(7) = 168 assignments to a property the model lacks, 1x")
    # ... plus free exploration
    ctx.explore('reject', reject_strategy(), case_reject, ctx.n(800, 4000))
    ctx.explore('solve', solve_strategy(), case_solve, ctx.n(120, 700))
    ctx.fuzz('reject', ctx.n(300, 6000))
    ctx.fuzz('coeff', ctx.n(150, 3000))

"""C01 - reported solver success certifies the returned field."""
import contextlib
import io
import warnings

import numpy as np
import scipy.sparse.linalg as spla
from hypothesis import strategies as st

from vp import gen, refop
from vp.framework import Violation

RULE = ("Grid (2..12 cells per direction, any parity, uniform/stretched/"
        "random), model (4 anisotropy cases, <=3 decades, optional mu_r/"
        "epsilon_r), frequency or Laplace s with drawn induction number, "
        "source (electric dipole/point via get_source_field or solve_source, "
        "random field vanishing on outermost cells, random field vanishing "
        "on the boundary, zero), initial field (none, zeros, random with "
        "non-zero boundary, exact solution, near solution) and a solver "
        "configuration from the full product cycle x sslsolver x "
        "semicoarsening x linerelaxation x nu's x clevel x tol x maxit x "
        "plain x return_info x verb x log.  Oracle: checker-assembled "
        "operator; success => residual < tol*||s||, PEC, dtype, error "
        "figures describe the field, zero source => zero field, report "
        "consistency.  Non-trivial = non-zero source, >=1 iteration, "
        "success reported; distinct by (shape, config, seeds).")
ASSUMPTIONS = [
    "reference operator vp/refop.py (validated against emg3d by C02)",
    "residual slack tol*||s||*1e-9 + 1e4*eps*|| |A||e|+|s| ||",
    "with return_info=False the outcome is read from the printed "
    "warning/one-liner/log; verb=-1 without info has no observable report",
]
SHARDS = {'quick': 1, 'thorough': 16}
C_EPS = 1e4*np.finfo(float).eps

COUNTS = [2, 2, 3, 3, 4, 4, 5, 6, 6, 7, 8, 8, 10, 12]


def config_spec():
    return st.fixed_dictionaries({
        'cycle': st.sampled_from(['F', 'V', 'W', 'F', 'V', 'W', None]),
        'sslsolver': st.sampled_from([False, False, 'bicgstab', 'cgs',
                                      'gcrotmk', True]),
        'semicoarsening': st.sampled_from(
            [False, True, 0, 1, 2, 3, 12, 1213, 3210, 123, 20]),
        'linerelaxation': st.sampled_from(
            [False, True, 0, 1, 2, 3, 4, 5, 6, 7, 1213, 4567, 70, 456]),
        'nu_init': st.sampled_from([0, 0, 0, 1, 2, 3]),
        'nu_pre': st.sampled_from([0, 1, 2, 2, 3]),
        'nu_coarse': st.sampled_from([0, 1, 1, 2, 3]),
        'nu_post': st.sampled_from([0, 1, 2, 2, 3]),
        'clevel': st.sampled_from([-1, -1, -1, 0, 1, 2, 3]),
        'tol': gen.lgfloat(1e-10, 1e-1),
        'maxit': st.sampled_from([1, 2, 3, 5, 10, 20, 40]),
        'plain': st.booleans(),
        'return_info': st.sampled_from([True, True, True, False]),
        'verb': st.sampled_from([-1, 0, 0, 1, 2, 3, 4, 5]),
        'log': st.sampled_from([-1, 0, 1]),
    })


def spec_strategy():
    return st.fixed_dictionaries({
        'grid': gen.grid_spec(COUNTS),
        'model': gen.model_spec(max_decades=3.0),
        'freq': gen.freq_spec(),
        'source': st.sampled_from(['dipole', 'dipole', 'solve_source',
                                   'random_inner', 'random_inner',
                                   'random_pec', 'zero']),
        'init': st.sampled_from(['none', 'none', 'none', 'zeros', 'random',
                                 'random', 'exact', 'near']),
        # how the caller obtained the supplied Field object
        'prov': st.sampled_from(['direct', 'direct', 'touched', 'copy',
                                 'dict', 'pickle', 'deepcopy']),
        'cfg': config_spec(),
        # source amplitude 10**lgamp: weak and strong sources are as legitimate
        # as O(1) ones (the system is linear)
        'lgamp': st.sampled_from([0, 0, 0, 0, -6, -12, -20, 6, 12]),
        'seed': gen.SEED,
    }).filter(lambda s: np.prod(s['grid']['n']) <= 800)


def _make_source(emg3d, grid, spec, freq):
    """-> (kind actually used, sfield or None, source object or None)."""
    kind = spec['source']
    rng = gen.rng_of(spec['seed'], 71)
    amp = 10.0**spec.get('lgamp', 0)
    n = grid.shape_cells
    if kind in ('dipole', 'solve_source') and min(n) < 3:
        kind = 'random_pec'
    if kind == 'random_inner' and min(n) < 4:
        kind = 'random_pec'
    if kind in ('dipole', 'solve_source'):
        nodes = [grid.nodes_x, grid.nodes_y, grid.nodes_z]

        def pt():
            out = []
            for x in nodes:
                lo, hi = x[1], x[-2]
                r = rng.random()
                if r < 0.2 and len(x) > 3:
                    out.append(float(rng.choice(x[1:-1])))
                else:
                    out.append(float(rng.uniform(lo, hi)))
            return out
        if rng.random() < 0.5:
            coo = pt() + [float(rng.uniform(-180, 180)),
                          float(rng.uniform(-90, 90))]
            src = emg3d.TxElectricPoint(coo, strength=float(
                rng.uniform(0.5, 2))*amp)
        else:
            p0, p1 = pt(), pt()
            if np.allclose(p0, p1):
                p1[0] = p0[0] + 0.3*(nodes[0][-2]-nodes[0][1]) \
                    if p0[0] < nodes[0][-2]*0.5+nodes[0][1]*0.5 else \
                    p0[0] - 0.3*(nodes[0][-2]-nodes[0][1])
            src = emg3d.TxElectricDipole(np.array([p0, p1]), strength=amp)
        with warnings.catch_warnings():
            warnings.simplefilter('ignore')
            sf = emg3d.get_source_field(grid, src, freq)
        return kind, sf, src
    if kind == 'zero':
        return kind, emg3d.Field(grid, frequency=freq), None
    sf = gen.random_field(grid, spec['seed'], freq, salt=72, scale=amp)
    if kind == 'random_inner':
        # zero on every edge of an outermost cell
        sf.fx[0, :, :] = sf.fx[-1, :, :] = 0
        sf.fx[:, :2, :] = sf.fx[:, -2:, :] = 0
        sf.fx[:, :, :2] = sf.fx[:, :, -2:] = 0
        sf.fy[:, 0, :] = sf.fy[:, -1, :] = 0
        sf.fy[:2, :, :] = sf.fy[-2:, :, :] = 0
        sf.fy[:, :, :2] = sf.fy[:, :, -2:] = 0
        sf.fz[:, :, 0] = sf.fz[:, :, -1] = 0
        sf.fz[:2, :, :] = sf.fz[-2:, :, :] = 0
        sf.fz[:, :2, :] = sf.fz[:, -2:, :] = 0
        if not np.any(sf.field):
            kind = 'zero'
    return kind, sf, None


def _reported(cfg, out, info):
    """Reported outcome: 'success' / 'failure' / None (not observable)."""
    if info is not None:
        return 'success' if info['exit'] == 0 else 'failure'
    v = cfg['verb']
    if v < 0 or cfg['log'] < 0:
        # nothing is printed (verb=-1, or log=-1 = 'log only')
        return None
    if v == 0:
        return 'failure' if '* WARNING ::' in out else 'success'
    if v in (1, 2):
        lines = [ln for ln in out.replace('\r', '\n').split('\n')
                 if ln.startswith(':: emg3d ::')]
        if not lines:
            return None
        last = lines[-1]
        return 'success' if last.rstrip().endswith('; CONVERGED') \
            else 'failure'
    # verb >= 3
    if ('NOTHING DONE' in out) or ('RETURN ZERO E-FIELD' in out):
        return 'success'
    if '> CONVERGED' in out:
        return 'success'
    if ('* ERROR' in out) or ('   > ' in out):
        return 'failure'
    return None


def case_solve(spec, rec):
    import emg3d
    h, origin = gen.build_widths(spec['grid'])
    grid = emg3d.TensorMesh(h, origin=origin)
    shape = tuple(int(n) for n in grid.shape_cells)
    fs = spec['freq']
    freq = gen.freq_of(fs)
    s = gen.sval_of(fs)
    bg = gen.bg_cond(fs, spec['grid']['scale'])
    model, (sx, sy, sz, mur, epsr) = gen.build_model(grid, spec['model'], bg)
    case = spec['model']['case']
    rsy = sy if case in ('HTI', 'triaxial') else sx
    rsz = sz if case in ('VTI', 'triaxial') else sx
    A, interior, *_ = refop.assemble(*h, sx, rsy, rsz, mur, epsr, s)
    absA = refop.absmat(A)
    cfg = dict(spec['cfg'])
    skind, sf, src = _make_source(emg3d, grid, spec, freq)
    dt = sf.field.dtype
    snorm = np.linalg.norm(sf.field)
    if np.any(sf.field[~interior] != 0):
        # outside the property's domain (source on the PEC boundary)
        rec.cls('source_on_boundary_skipped')
        return

    # ----- initial field -------------------------------------------------
    init = spec['init']
    if skind == 'solve_source':
        init = 'none'
    ef = None
    if init == 'zeros':
        ef = emg3d.Field(grid, frequency=freq)
    elif init == 'random':
        ef = gen.random_field(grid, spec['seed'], freq, salt=73, pec=False)
    elif init in ('exact', 'near'):
        ii = np.flatnonzero(interior)
        x = np.zeros(A.shape[0], dtype=dt)
        if snorm > 0:
            try:
                x[ii] = spla.spsolve(A[ii][:, ii].tocsc(), sf.field[ii])
            except Exception:
                x[:] = 0
        if not np.all(np.isfinite(x)):
            x[:] = 0
        if init == 'near':
            rng = gen.rng_of(spec['seed'], 74)
            x = x*(1 + 1e-3*rng.standard_normal(x.size))
        ef = emg3d.Field(grid, frequency=freq)
        ef.field[:] = x
    supplied = ef is not None
    prov = spec.get('prov', 'direct') if supplied else 'none'
    if supplied and prov != 'direct':
        # Fields reach solve() through many legitimate routes (a previous
        # result, a copy, a de-serialised or un-pickled object ...)
        import copy as _copy
        import pickle
        _ = (ef.fx.shape, ef.fy.shape, ef.fz.shape)      # components used
        if prov == 'copy':
            ef = ef.copy()
        elif prov == 'dict':
            ef = emg3d.Field.from_dict(ef.to_dict())
        elif prov == 'pickle':
            ef = pickle.loads(pickle.dumps(ef))
        elif prov == 'deepcopy':
            ef = _copy.deepcopy(ef)

    # ----- call ------------------------------------------------------------
    kw = {k: cfg[k] for k in ('cycle', 'nu_init', 'nu_pre', 'nu_coarse',
                              'nu_post', 'clevel', 'tol', 'maxit',
                              'return_info', 'log')}
    if cfg['plain']:
        kw['plain'] = True
    if supplied:
        kw['efield'] = ef
    eff_ssl = cfg['sslsolver']
    if cfg['plain'] and eff_ssl is True:
        eff_ssl = False
    invalid = (cfg['cycle'] is None and not eff_ssl)
    buf = io.StringIO()
    with contextlib.redirect_stdout(buf), warnings.catch_warnings():
        warnings.simplefilter('ignore')
        try:
            if skind == 'solve_source':
                ret = emg3d.solve_source(
                    model, src, freq, sslsolver=cfg['sslsolver'],
                    semicoarsening=cfg['semicoarsening'],
                    linerelaxation=cfg['linerelaxation'], verb=cfg['verb'],
                    **kw)
            else:
                ret = emg3d.solve(
                    model, sf, sslsolver=cfg['sslsolver'],
                    semicoarsening=cfg['semicoarsening'],
                    linerelaxation=cfg['linerelaxation'], verb=cfg['verb'],
                    **kw)
        except ValueError as e:
            if invalid and 'At least `cycle` or `sslsolver`' in str(e):
                rec.cls('invalid_config_rejected')
                return
            raise
    if invalid:
        raise Violation("invalid_config_accepted",
                        "cycle=None with sslsolver=False did not raise")
    out = buf.getvalue()

    # ----- documented return shape -----------------------------------------
    info = None
    if supplied:
        res = ef
        if cfg['return_info']:
            if not isinstance(ret, dict):
                raise Violation("return_shape:supplied+info",
                                f"expected info dict, got {type(ret)}")
            info = ret
        elif ret is not None:
            raise Violation("return_shape:supplied",
                            f"expected None, got {type(ret)}")
    else:
        if cfg['return_info']:
            if not (isinstance(ret, tuple) and len(ret) == 2 and
                    isinstance(ret[1], dict)):
                raise Violation("return_shape:info",
                                f"expected (field, info), got {type(ret)}")
            res, info = ret
        else:
            res = ret
        if not isinstance(res, emg3d.Field):
            raise Violation("return_shape:field",
                            f"expected Field, got {type(res)}")

    e = res.field
    # ----- unconditional parts ------------------------------------------------
    comp = np.r_[res.fx.ravel('F'), res.fy.ravel('F'), res.fz.ravel('F')]
    if comp.shape != e.shape or not np.array_equal(comp, e, equal_nan=True):
        raise Violation(
            f"field_components_detached:{'supplied' if supplied else 'returned'}:prov={prov}",
            "Field.field and the components fx/fy/fz of the "
            f"{'supplied' if supplied else 'returned'} field hold different "
            f"values after solve (provenance {prov}, init={init}): max "
            f"|diff| {float(np.nanmax(np.abs(comp - e))):.3e}")
    if e.dtype != dt:
        raise Violation("dtype", f"result {e.dtype}, source {dt}")
    if e.shape != sf.field.shape:
        raise Violation("shape", "result has wrong size")
    if np.any(e[~interior] != 0):
        raise Violation(f"pec_violated:init={init}",
                        "tangential boundary components are not zero")
    if skind == 'zero' or snorm == 0:
        if np.any(e != 0):
            which = 'supplied' if supplied else 'returned'
            raise Violation(f"zero_source_nonzero_field:{which}",
                            f"zero source, but the {which} field has max "
                            f"|e| = {np.abs(e).max():.3e} (init={init})")
    rep = _reported(cfg, out, info)

    # ----- info consistency -----------------------------------------------------
    if info is not None:
        if (info['exit'] == 0) != (info['exit_message'] == 'CONVERGED'):
            raise Violation("exit_vs_message",
                            f"exit={info['exit']} message="
                            f"{info['exit_message']!r}")
        if info['exit'] not in (0, 1):
            raise Violation("exit_value", f"exit={info['exit']}")
        if info['exit'] == 1 and not str(info['exit_message']).strip():
            raise Violation("failure_without_message", "empty exit message")
        if cfg['verb'] == 0 and cfg['log'] >= 0:
            if ('* WARNING ::' in out) != (info['exit'] == 1):
                raise Violation("warning_vs_exit",
                                f"exit={info['exit']} but printed: {out!r}")
        if snorm > 0:
            if abs(info['ref_error']-snorm) > 1e-12*snorm:
                raise Violation("ref_error", f"{info['ref_error']} vs ||s||="
                                             f"{snorm}")
            if info['tol'] != cfg['tol']:
                raise Violation("tol_reported", f"{info['tol']}")

    # ----- the certificate -------------------------------------------------------
    r = sf.field - A @ e
    r[~interior] = 0
    rn = float(np.linalg.norm(r))
    floor = C_EPS*float(np.linalg.norm((absA @ np.abs(e) +
                                        np.abs(sf.field))[interior]))
    finite = bool(np.all(np.isfinite(e)))
    sslname = 'bicgstab' if eff_ssl is True else eff_ssl
    meth = f"ssl={sslname}:cycle={cfg['cycle']}"
    if rep == 'success' and snorm > 0:
        if not finite:
            raise Violation(f"success_with_nonfinite_field:{meth}",
                            "CONVERGED reported, field has NaN/inf")
        if rn >= cfg['tol']*snorm*(1+1e-9) + floor:
            raise Violation(
                f"success_without_convergence:{meth}:source={skind}",
                f"reported success but ||s-Ae||/||s|| = {rn/snorm:.3e} >= "
                f"tol = {cfg['tol']:.3e} (floor {floor/snorm:.1e}); shape "
                f"{shape}, init {init}")
    if info is not None and snorm > 0 and finite:
        ae = info['abs_error']
        if info['exit'] == 0:
            if not (abs(ae-rn) <= 1e-6*rn + 10*floor):
                raise Violation(
                    f"abs_error_not_of_returned_field:{meth}",
                    f"abs_error={ae:.6e} but the returned field has "
                    f"||s-Ae|| = {rn:.6e} (it_ssl={info['it_ssl']}, "
                    f"it_mg={info['it_mg']}, init={init})")
            if not (abs(info['rel_error'] - ae/snorm) <=
                    1e-12*abs(ae/snorm)):
                raise Violation("rel_error", "rel_error != abs_error/"
                                             "ref_error")
    # ----- classification ---------------------------------------------------------
    its = None
    if info is not None:
        its = (int(info['it_mg']), int(info['it_ssl']))
    rec.cls(f"source={skind}", f"init={init}", f"prov={prov}", f"reported={rep}",
            f"ssl={sslname}", f"cycle={cfg['cycle']}", f"case={case}",
            f"laplace={fs['laplace']}", gen.regime(fs),
            f"lgamp={spec.get('lgamp', 0)}",
            f"return_info={cfg['return_info']}", f"verb={cfg['verb']}",
            f"parity={'odd' if any(n % 2 for n in shape) else 'even'}")
    if info is not None and info['exit'] == 1:
        rec.cls(f"fail={str(info['exit_message'])[:24]}")
    if (rep == 'success' and snorm > 0 and its is not None and
            (its[0] > 0 or its[1] > 0)):
        rec.nt([list(shape), spec['cfg'], spec['seed'],
                spec['grid']['seed']])
    rec.note({'shape': list(shape), 'source': skind, 'init': init,
              'reported': rep, 'its': its,
              'relres': None if snorm == 0 else rn/snorm,
              'tol': cfg['tol']})


LARGE = [8, 12, 16, 16, 20, 24, 32, 40, 48]


def large_strategy():
    """Larger grids (thorough tier): up to 20 000 cells, MG-friendly and
    unfriendly counts, default-like configurations dominate."""
    return st.fixed_dictionaries({
        'grid': gen.grid_spec(LARGE, kinds=('uniform', 'stretch')),
        'model': gen.model_spec(max_decades=2.0),
        'freq': gen.freq_spec(),
        'source': st.sampled_from(['dipole', 'solve_source', 'random_inner']),
        'init': st.sampled_from(['none', 'none', 'random', 'near']),
        'cfg': config_spec(),
        'lgamp': st.sampled_from([0, 0, -12, 6]),
        'seed': gen.SEED,
    }).filter(lambda s: 2000 < np.prod(s['grid']['n']) <= 20000)


SUBS = {'solve': case_solve, 'large': case_solve}


def run(ctx):
    ctx.regression(SUBS)
    ctx.explore('solve', spec_strategy(), case_solve, ctx.n(1500, 4000))
    if not ctx.quick:
        ctx.explore('large', large_strategy(), case_solve, ctx.n(0, 8),
                    shrink=False)

"""C01 - reported solver success certifies the returned field."""
import contextlib
import io
import re
import warnings

import numpy as np
import scipy.sparse.linalg as spla
from hypothesis import strategies as st

from vp import gen, refop
from vp.framework import HarnessError, Violation

RULE = ("Grid (2..12 cells per direction, also 16/24/32; <=800 cells, "
        "any parity, uniform/stretched/random), model (4 "
        "anisotropy cases, <=3 decades, optional mu_r/epsilon_r; given as "
        "full/Fortran/flat/scalar arrays or with a map instance; direct or "
        "via copy/dict/pickle/deepcopy), frequency or Laplace s with drawn "
        "induction number, source (electric dipole/point via "
        "get_source_field or solve_source, random field vanishing on "
        "outermost cells, random field vanishing on the boundary, zero; "
        "direct or via touched/copy/dict/pickle/deepcopy), initial field "
        "(none, zeros, random with non-zero boundary, exact/near solution, "
        "exact/near solution with non-zero tangential boundary; carrying "
        "the source's frequency, none, or another one; also through "
        "solve_source) and a solver configuration from the full product "
        "cycle x sslsolver x semicoarsening x linerelaxation x nu's x "
        "clevel x tol (incl. 1e-14 and 0) x maxit (incl. 50) x plain x "
        "return_info x verb x log, any subset of the keywords omitted "
        "(documented defaults).  Object re-use: the drawn call may be "
        "preceded by another solve on the same objects (same system; same "
        "Model at another frequency / Laplace sign; Model changed and "
        "restored through its setters; restart from the first result).  "
        "Oracle: checker-assembled operator and the source as it was "
        "BEFORE all calls; success => residual < tol*||s||, PEC, dtype, "
        "frequency label, error figures (info dict, printed one-liner / "
        "final rel. error, last error_at_cycle of pure MG) describe the "
        "field, zero source => zero field, tol=0 never success, the "
        "outcome told by info, by the screen and by the stored log "
        "agree.  Non-trivial = non-zero source, >=1 iteration, success "
        "reported; distinct by (shape, config, omitted, seeds).")
ASSUMPTIONS = [
    "reference operator vp/refop.py (validated against emg3d by C02)",
    "residual slack tol*||s||*1e-9 + 1e4*eps*|| |A||e|+|s| ||",
    "with return_info=False the outcome is read from the printed "
    "warning/one-liner/log; verb=-1 without info has no observable report",
    "an omitted keyword means the default of the solve() docstring; for "
    "`log` (docstring 1, code 0) only 'is printed' is used, the stored log "
    "is not inspected then",
    "printed figures are compared to their printed precision (.1e: 6 %, "
    ".3e: 6e-4) plus 10x the rounding floor",
    "NaN/inf on the boundary is a PEC violation only under reported "
    "success (an overflowed Krylov run reported as failure is honest)",
    "frequency label: required for returned fields and for supplied "
    "fields that carried the source's frequency; a supplied field without "
    "frequency may stay None or get the source's; another frequency is "
    "not judged",
    "norms: emg3d uses BLAS nrm2, the checker numpy; compared at 1e-10",
]
SHARDS = {'quick': 1, 'thorough': 16}
C_EPS = 1e4*np.finfo(float).eps

COUNTS = [2, 2, 3, 3, 4, 4, 5, 6, 6, 7, 8, 8, 10, 12, 16, 24, 32]

# documented defaults of solve() (used when a keyword is omitted)
DEFAULTS = {'cycle': 'F', 'sslsolver': True, 'semicoarsening': True,
            'linerelaxation': True, 'nu_init': 0, 'nu_pre': 2,
            'nu_coarse': 1, 'nu_post': 2, 'clevel': -1, 'tol': 1e-6,
            'maxit': 50, 'return_info': False, 'verb': 0, 'log': 0}
OMITTABLE = sorted(DEFAULTS)
PROVS = ['direct', 'direct', 'touched', 'copy', 'dict', 'pickle', 'deepcopy']


def config_spec():
    return st.fixed_dictionaries({
        'cycle': st.sampled_from(['F', 'V', 'W', 'F', 'V', 'W', None]),
        'sslsolver': st.sampled_from([False, False, 'bicgstab', 'cgs',
                                      'gcrotmk', True]),
        'semicoarsening': st.sampled_from(
            [False, True, 0, 1, 2, 3, 12, 1213, 3210, 123, 20]),
        'linerelaxation': st.sampled_from(
            [False, True, 0, 1, 2, 3, 4, 5, 6, 7, 1213, 4567, 70, 456]),
        'nu_init': st.sampled_from([0, 0, 0, 1, 2, 3]),
        'nu_pre': st.sampled_from([0, 1, 2, 2, 3]),
        'nu_coarse': st.sampled_from([0, 1, 1, 2, 3]),
        'nu_post': st.sampled_from([0, 1, 2, 2, 3]),
        'clevel': st.sampled_from([-1, -1, -1, 0, 1, 2, 3]),
        # 1e-14 / 0.0: unreachable in double precision; must end as failure
        'tol': st.tuples(st.sampled_from([None]*12 + [1e-14, 0.0]),
                         gen.lgfloat(1e-10, 1e-1)
                         ).map(lambda t: t[1] if t[0] is None else t[0]),
        'maxit': st.sampled_from([1, 2, 3, 5, 10, 20, 40, 50]),
        'plain': st.booleans(),
        'return_info': st.sampled_from([True, True, True, False]),
        'verb': st.sampled_from([-1, 0, 0, 1, 2, 3, 4, 5]),
        'log': st.sampled_from([-1, 0, 1]),
    })


def new_keys():
    """Spec keys added after the first findings were recorded; every one is
    read with spec.get(key, <value reproducing the old behaviour>)."""
    return {
        # keywords left out of the call (documented defaults apply)
        'omit': st.one_of(
            st.just([]), st.just([]), st.just([]), st.just([]), st.just([]),
            st.lists(st.sampled_from(OMITTABLE), unique=True,
                     max_size=len(OMITTABLE)).map(sorted),
            st.lists(st.sampled_from(OMITTABLE), unique=True,
                     max_size=len(OMITTABLE)).map(sorted),
            st.just(list(OMITTABLE))),
        # another solve on the same objects precedes the judged one
        'reuse': st.sampled_from([None, None, None, None, 'same_all',
                                  'new_freq', 'model_setter', 'restart']),
        # provenance of the source field / the model, form of model input
        'sprov': st.sampled_from(PROVS),
        'mprov': st.sampled_from(['direct', 'direct', 'direct', 'copy',
                                  'dict', 'pickle', 'deepcopy']),
        'mform': st.sampled_from(['full', 'full', 'full', 'fortran', 'flat',
                                  'scalar', 'scalar', 'mapinst']),
        # frequency label of a supplied initial field
        'efreq': st.sampled_from(['same', 'same', 'same', 'none', 'other']),
        # solve_source(..., efield=...) instead of forcing a fresh field
        'ss_init': st.just(True),
    }


def _tame(spec):
    """Budget only: gcrotmk runs 20 inner steps (each one preconditioner
    call) per counted iteration; with an unreachable tolerance it never
    stops early, so the iteration count is capped there."""
    cfg, omit = spec['cfg'], spec.get('omit', [])
    tol = DEFAULTS['tol'] if 'tol' in omit else cfg['tol']
    ssl = DEFAULTS['sslsolver'] if 'sslsolver' in omit else cfg['sslsolver']
    if tol < 1e-10 and ssl == 'gcrotmk':
        spec = dict(spec, cfg=dict(cfg, maxit=min(cfg['maxit'], 2)),
                    omit=[k for k in omit if k != 'maxit'])
    return spec


def spec_strategy():
    return st.fixed_dictionaries({
        'grid': gen.grid_spec(COUNTS),
        'model': gen.model_spec(max_decades=3.0),
        'freq': gen.freq_spec(),
        'source': st.sampled_from(['dipole', 'dipole', 'solve_source',
                                   'random_inner', 'random_inner',
                                   'random_pec', 'zero']),
        'init': st.sampled_from(['none', 'none', 'none', 'zeros', 'random',
                                 'random', 'exact', 'near', 'exact_dirty',
                                 'near_dirty']),
        # how the caller obtained the supplied Field object
        'prov': st.sampled_from(PROVS),
        'cfg': config_spec(),
        # source amplitude 10**lgamp: weak and strong sources are as legitimate
        # as O(1) ones (the system is linear)
        'lgamp': st.sampled_from([0, 0, 0, 0, -6, -12, -20, 6, 12]),
        'seed': gen.SEED,
        **new_keys(),
    }).filter(lambda s: np.prod(s['grid']['n']) <= 800).map(_tame)


def _make_source(emg3d, grid, spec, freq):
    """-> (kind actually used, sfield or None, source object or None)."""
    kind = spec['source']
    rng = gen.rng_of(spec['seed'], 71)
    amp = 10.0**spec.get('lgamp', 0)
    n = grid.shape_cells
    if kind in ('dipole', 'solve_source') and min(n) < 3:
        kind = 'random_pec'
    if kind == 'random_inner' and min(n) < 4:
        kind = 'random_pec'
    if kind in ('dipole', 'solve_source'):
        nodes = [grid.nodes_x, grid.nodes_y, grid.nodes_z]

        def pt():
            out = []
            for x in nodes:
                lo, hi = x[1], x[-2]
                r = rng.random()
                if r < 0.2 and len(x) > 3:
                    out.append(float(rng.choice(x[1:-1])))
                else:
                    out.append(float(rng.uniform(lo, hi)))
            return out
        if rng.random() < 0.5:
            coo = pt() + [float(rng.uniform(-180, 180)),
                          float(rng.uniform(-90, 90))]
            src = emg3d.TxElectricPoint(coo, strength=float(
                rng.uniform(0.5, 2))*amp)
        else:
            p0, p1 = pt(), pt()
            if np.allclose(p0, p1):
                p1[0] = p0[0] + 0.3*(nodes[0][-2]-nodes[0][1]) \
                    if p0[0] < nodes[0][-2]*0.5+nodes[0][1]*0.5 else \
                    p0[0] - 0.3*(nodes[0][-2]-nodes[0][1])
            src = emg3d.TxElectricDipole(np.array([p0, p1]), strength=amp)
        with warnings.catch_warnings():
            warnings.simplefilter('ignore')
            sf = emg3d.get_source_field(grid, src, freq)
        return kind, sf, src
    if kind == 'zero':
        return kind, emg3d.Field(grid, frequency=freq), None
    sf = gen.random_field(grid, spec['seed'], freq, salt=72, scale=amp)
    if kind == 'random_inner':
        # zero on every edge of an outermost cell
        sf.fx[0, :, :] = sf.fx[-1, :, :] = 0
        sf.fx[:, :2, :] = sf.fx[:, -2:, :] = 0
        sf.fx[:, :, :2] = sf.fx[:, :, -2:] = 0
        sf.fy[:, 0, :] = sf.fy[:, -1, :] = 0
        sf.fy[:2, :, :] = sf.fy[-2:, :, :] = 0
        sf.fy[:, :, :2] = sf.fy[:, :, -2:] = 0
        sf.fz[:, :, 0] = sf.fz[:, :, -1] = 0
        sf.fz[:2, :, :] = sf.fz[-2:, :, :] = 0
        sf.fz[:, :2, :] = sf.fz[:, -2:, :] = 0
        if not np.any(sf.field):
            kind = 'zero'
    return kind, sf, None


def _parse_report(verb, out):
    """Outcome told by a printed (or stored) report text of verbosity
    `verb` >= 0: 'success' / 'failure' / None (nothing to read)."""
    if verb == 0:
        return 'failure' if '* WARNING ::' in out else 'success'
    if verb in (1, 2):
        lines = [ln for ln in out.replace('\r', '\n').split('\n')
                 if ln.startswith(':: emg3d ::')]
        if not lines:
            return None
        last = lines[-1]
        return 'success' if last.rstrip().endswith('; CONVERGED') \
            else 'failure'
    # verb >= 3
    if ('NOTHING DONE' in out) or ('RETURN ZERO E-FIELD' in out):
        return 'success'
    if '> CONVERGED' in out:
        return 'success'
    if ('* ERROR' in out) or ('   > ' in out):
        return 'failure'
    return None


def _reported(cfg, out, info):
    """Reported outcome: 'success' / 'failure' / None (not observable)."""
    if info is not None:
        return 'success' if info['exit'] == 0 else 'failure'
    v = cfg['verb']
    if v < 0 or cfg['log'] < 0:
        # nothing is printed (verb=-1, or log=-1 = 'log only')
        return None
    return _parse_report(v, out)


_NUM = r'([-+]?(?:\d+\.?\d*(?:[eE][-+]?\d+)?|nan|inf))'


def _printed_rel_error(verb, text):
    """(value, relative printing precision) of the final relative error in
    a report text, or None."""
    if verb in (1, 2):
        lines = [ln for ln in text.replace('\r', '\n').split('\n')
                 if ln.startswith(':: emg3d ::')]
        if not lines:
            return None
        m = re.match(r':: emg3d :: ' + _NUM + ';', lines[-1])
        prec = 0.06      # '.1e': half a unit of the 2nd digit is <= 5 %
    elif verb >= 3:
        m = re.search(r'Final rel\. error : ' + _NUM, text)
        prec = 6e-4      # '.3e'
    else:
        return None
    if not m:
        return None
    return float(m.group(1)), prec


def _provenance(emg3d, obj, prov):
    """The same Field/Model as the caller may legitimately hold it."""
    import copy as _copy
    import pickle
    if prov == 'copy':
        return obj.copy()
    if prov == 'dict':
        return type(obj).from_dict(obj.to_dict())
    if prov == 'pickle':
        return pickle.loads(pickle.dumps(obj))
    if prov == 'deepcopy':
        return _copy.deepcopy(obj)
    return obj                                   # direct, touched


def _build_model(emg3d, grid, mspec, bg, form):
    """-> (Model, conductivities..., form actually used).  form 'full'
    is gen.build_model (3-D C-ordered arrays); the others are the further
    input forms Model accepts: Fortran-ordered 3-D arrays, flat 1-D arrays
    in Fortran order, scalars (homogeneous properties only), the mapping
    given as map instance."""
    if form == 'full':
        model, conds = gen.build_model(grid, mspec, bg)
        return model, conds, form
    conds = gen.build_cond(mspec, grid.shape_cells, bg)
    sx, sy, sz, mur, epsr = conds
    m = mspec['mapping']
    props = [gen.map_forward(m, sx), gen.map_forward(m, sy),
             gen.map_forward(m, sz), mur, epsr]
    mapping = m
    if form == 'scalar' and mspec['hetero'] != 'homog':
        form = 'fortran'
    if form == 'scalar':
        # sx, sy, sz are constant arrays; mu_r / epsilon_r are not
        props[:3] = [None if p is None else float(p.flat[0])
                     for p in props[:3]]
    elif form == 'fortran':
        props = [None if p is None else np.asfortranarray(p) for p in props]
    elif form == 'flat':
        props = [None if p is None else p.ravel('F') for p in props]
    elif form == 'mapinst':
        mapping = getattr(emg3d.maps, 'Map'+m)()
    model = emg3d.Model(grid, props[0], props[1], props[2], mu_r=props[3],
                        epsilon_r=props[4], mapping=mapping)
    return model, conds, form


def _perturb_model(model, mspec, conds, rng, restore):
    """Write other (restore=False) or the original (True) values into every
    defined property of `model` through the documented setters."""
    m = mspec['mapping']
    names = ['property_x', 'property_y', 'property_z', 'mu_r', 'epsilon_r']
    for name, c in zip(names, conds):
        if c is None:
            continue
        v = c if restore else c*10.0**rng.uniform(-0.5, 0.5, size=c.shape)
        if name.startswith('property'):
            v = gen.map_forward(m, v)
        setattr(model, name, v)


def case_solve(spec, rec):
    import emg3d
    h, origin = gen.build_widths(spec['grid'])
    grid = emg3d.TensorMesh(h, origin=origin)
    shape = tuple(int(n) for n in grid.shape_cells)
    fs = spec['freq']
    freq = gen.freq_of(fs)
    s = gen.sval_of(fs)
    bg = gen.bg_cond(fs, spec['grid']['scale'])
    model, (sx, sy, sz, mur, epsr), mform = _build_model(
        emg3d, grid, spec['model'], bg, spec.get('mform', 'full'))
    conds = (sx, sy, sz, mur, epsr)
    mprov = spec.get('mprov', 'direct')
    model = _provenance(emg3d, model, mprov)
    case = spec['model']['case']
    rsy = sy if case in ('HTI', 'triaxial') else sx
    rsz = sz if case in ('VTI', 'triaxial') else sx
    A, interior, *_ = refop.assemble(*h, sx, rsy, rsz, mur, epsr, s)
    absA = refop.absmat(A)
    omit = [k for k in spec.get('omit', []) if k in DEFAULTS]
    cfg = dict(spec['cfg'])
    for k in omit:
        cfg[k] = DEFAULTS[k]
    skind, sf, src = _make_source(emg3d, grid, spec, freq)
    dt = sf.field.dtype
    # the system the caller poses: the source as it is BEFORE any call
    s0 = np.array(sf.field, copy=True)
    snorm = np.linalg.norm(s0)
    if np.any(s0[~interior] != 0):
        # outside the property's domain (source on the PEC boundary)
        rec.cls('source_on_boundary_skipped')
        return
    sprov = spec.get('sprov', 'direct')
    if sprov != 'direct':
        _ = (sf.sval, sf.smu0, sf.fx.shape)      # lazily cached attributes
        sf = _provenance(emg3d, sf, sprov)

    # ----- initial field -------------------------------------------------
    init = spec['init']
    if skind == 'solve_source' and not spec.get('ss_init', False):
        init = 'none'
    ef = None
    if init == 'zeros':
        ef = emg3d.Field(grid, frequency=freq)
    elif init == 'random':
        ef = gen.random_field(grid, spec['seed'], freq, salt=73, pec=False)
    elif init in ('exact', 'near', 'exact_dirty', 'near_dirty'):
        ii = np.flatnonzero(interior)
        x = np.zeros(A.shape[0], dtype=dt)
        if snorm > 0:
            try:
                x[ii] = spla.spsolve(A[ii][:, ii].tocsc(), s0[ii])
            except Exception:
                x[:] = 0
        if not np.all(np.isfinite(x)):
            x[:] = 0
        if init.startswith('near'):
            rng = gen.rng_of(spec['seed'], 74)
            x = x*(1 + 1e-3*rng.standard_normal(x.size))
        if init.endswith('_dirty'):
            # good interior, but non-zero tangential boundary values
            rng = gen.rng_of(spec['seed'], 77)
            nb = int((~interior).sum())
            v = rng.standard_normal(nb)
            if np.iscomplexobj(x):
                v = v + 1j*rng.standard_normal(nb)
            x[~interior] = v*(np.abs(x).max() or 1.0)
        ef = emg3d.Field(grid, frequency=freq)
        ef.field[:] = x
    supplied = ef is not None
    efreq = spec.get('efreq', 'same') if supplied else 'n/a'
    if supplied and efreq == 'none':
        # a Field without frequency information (documented: data + dtype)
        ef = emg3d.Field(grid, np.array(ef.field, copy=True))
    elif supplied and efreq == 'other':
        # e.g. the result for a neighbouring frequency as starting guess
        fac = 10.0**gen.rng_of(spec['seed'], 78).uniform(0.05, 1.0)
        if gen.rng_of(spec['seed'], 79).random() < 0.5:
            fac = 1/fac
        ef = emg3d.Field(grid, np.array(ef.field, copy=True),
                         frequency=freq*fac)
    if supplied and ef.field.dtype != dt:
        raise HarnessError("initial field of wrong dtype generated")
    prov = spec.get('prov', 'direct') if supplied else 'none'
    if supplied and prov != 'direct':
        # Fields reach solve() through many legitimate routes (a previous
        # result, a copy, a de-serialised or un-pickled object ...)
        _ = (ef.fx.shape, ef.fy.shape, ef.fz.shape)      # components used
        ef = _provenance(emg3d, ef, prov)

    # ----- call ------------------------------------------------------------
    call = {k: cfg[k] for k in OMITTABLE if k not in omit}
    if cfg['plain']:
        call['plain'] = True
    eff_ssl = cfg['sslsolver']
    if cfg['plain'] and eff_ssl is True:
        eff_ssl = False
    invalid = (cfg['cycle'] is None and not eff_ssl)
    reuse = spec.get('reuse', None)
    buf = io.StringIO()
    with contextlib.redirect_stdout(buf), warnings.catch_warnings():
        warnings.simplefilter('ignore')
        # ----- optional earlier use of the same objects --------------------
        pre = dict(plain=True, maxit=2, verb=-1)
        if reuse == 'same_all':
            emg3d.solve(model, sf, **pre)
        elif reuse == 'new_freq':
            rng = gen.rng_of(spec['seed'], 76)
            fo = freq*10.0**rng.uniform(-1, 1)
            if rng.random() < 0.6:
                fo = -fo
            emg3d.solve(model, gen.random_field(grid, spec['seed'], fo,
                                                salt=75), **pre)
        elif reuse == 'model_setter':
            rng = gen.rng_of(spec['seed'], 76)
            _perturb_model(model, spec['model'], conds, rng, False)
            emg3d.solve(model, sf, **pre)
            _perturb_model(model, spec['model'], conds, rng, True)
        elif reuse == 'restart':
            if supplied:
                emg3d.solve(model, sf, efield=ef, **pre)
            else:
                ef = emg3d.solve(model, sf, **pre)
                supplied = True
                efreq = 'same'        # emg3d's own result for this source
            if not np.all(np.isfinite(ef.field)):
                rec.cls('restart_from_nonfinite_skipped')
                return
        if supplied:
            call['efield'] = ef
        buf.seek(0)
        buf.truncate()
        try:
            if skind == 'solve_source':
                ret = emg3d.solve_source(model, src, freq, **call)
            else:
                ret = emg3d.solve(model, sf, **call)
        except ValueError as e:
            if invalid and 'At least `cycle` or `sslsolver`' in str(e):
                rec.cls('invalid_config_rejected')
                return
            raise
    if invalid:
        raise Violation("invalid_config_accepted",
                        "cycle=None with sslsolver=False did not raise")
    out = buf.getvalue()
    ctx_txt = (f"init={init}, prov={prov}, efreq={efreq}, sprov={sprov}, "
               f"mprov={mprov}, mform={mform}, reuse={reuse}, omit={omit}")

    # ----- documented return shape -----------------------------------------
    info = None
    if supplied:
        res = ef
        if cfg['return_info']:
            if not isinstance(ret, dict):
                raise Violation("return_shape:supplied+info",
                                f"expected info dict, got {type(ret)}")
            info = ret
        elif ret is not None:
            raise Violation("return_shape:supplied",
                            f"expected None, got {type(ret)}")
    else:
        if cfg['return_info']:
            if not (isinstance(ret, tuple) and len(ret) == 2 and
                    isinstance(ret[1], dict)):
                raise Violation("return_shape:info",
                                f"expected (field, info), got {type(ret)}")
            res, info = ret
        else:
            res = ret
        if not isinstance(res, emg3d.Field):
            raise Violation("return_shape:field",
                            f"expected Field, got {type(res)}")

    e = res.field
    which = 'supplied' if supplied else 'returned'
    # ----- what was reported, by every channel --------------------------------
    printing = cfg['verb'] >= 0 and cfg['log'] >= 0
    stored = (info is not None and cfg['verb'] >= 0 and cfg['log'] != 0 and
              'log' not in omit)
    rep = _reported(cfg, out, info)
    rep_print = _parse_report(cfg['verb'], out) if printing else None
    rep_log = None
    if stored:
        if not isinstance(info.get('log'), str):
            raise Violation("log_missing", f"info['log'] = {info.get('log')!r}")
        rep_log = _parse_report(cfg['verb'], info['log'])
    # ----- unconditional parts ------------------------------------------------
    comp = np.r_[res.fx.ravel('F'), res.fy.ravel('F'), res.fz.ravel('F')]
    if comp.shape != e.shape or not np.array_equal(comp, e, equal_nan=True):
        raise Violation(
            f"field_components_detached:{which}:prov={prov}",
            "Field.field and the components fx/fy/fz of the "
            f"{which} field hold different "
            f"values after solve (provenance {prov}, init={init}): max "
            f"|diff| {float(np.nanmax(np.abs(comp - e))):.3e}")
    if e.dtype != dt:
        raise Violation("dtype", f"result {e.dtype}, source {dt}")
    if e.shape != s0.shape:
        raise Violation("shape", "result has wrong size")
    eb = e[~interior]
    bad = eb != 0
    if rep != 'success':
        # NaN/inf everywhere (overflow of an un-preconditioned Krylov run) is
        # not a PEC defect of a run that is not reported as success
        bad &= np.isfinite(eb)
    if np.any(bad):
        raise Violation(f"pec_violated:init={init}",
                        "tangential boundary components are not zero "
                        f"({ctx_txt})")
    if skind == 'zero' or snorm == 0:
        if np.any(e != 0):
            raise Violation(f"zero_source_nonzero_field:{which}",
                            f"zero source, but the {which} field has max "
                            f"|e| = {np.abs(e).max():.3e} (init={init})")
    # frequency label of the result
    if not supplied or efreq in ('same', 'none'):
        sv = res.sval
        ok = sv is not None and abs(complex(sv) - complex(s)) <= \
            1e-12*abs(complex(s))
        if supplied and efreq == 'none' and sv is None:
            ok = True
        if not ok:
            raise Violation(
                f"field_frequency:{which}:efreq={efreq}",
                f"the {which} field has Laplace parameter {sv!r} "
                f"(frequency {res.frequency!r}), the source {s!r} "
                f"({ctx_txt})")

    # ----- info consistency -----------------------------------------------------
    if info is not None:
        if (info['exit'] == 0) != (info['exit_message'] == 'CONVERGED'):
            raise Violation("exit_vs_message",
                            f"exit={info['exit']} message="
                            f"{info['exit_message']!r}")
        if info['exit'] not in (0, 1):
            raise Violation("exit_value", f"exit={info['exit']}")
        if info['exit'] == 1 and not str(info['exit_message']).strip():
            raise Violation("failure_without_message", "empty exit message")
        if cfg['verb'] == 0 and cfg['log'] >= 0:
            if ('* WARNING ::' in out) != (info['exit'] == 1):
                raise Violation("warning_vs_exit",
                                f"exit={info['exit']} but printed: {out!r}")
        if rep_print is not None and rep_print != rep:
            raise Violation(
                f"report_mismatch:screen_vs_info:verb={cfg['verb']}",
                f"info says {rep} (exit={info['exit']}, "
                f"{info['exit_message']!r}), the screen says {rep_print}: "
                f"{out[-400:]!r}")
        if rep_log is not None and rep_log != rep:
            raise Violation(
                f"report_mismatch:log_vs_info:verb={cfg['verb']}",
                f"info says {rep} (exit={info['exit']}, "
                f"{info['exit_message']!r}), info['log'] says {rep_log}: "
                f"{info['log'][-400:]!r}")
        if snorm > 0:
            if abs(info['ref_error']-snorm) > 1e-10*snorm:
                raise Violation("ref_error", f"{info['ref_error']} vs ||s||="
                                             f"{snorm} ({ctx_txt})")
            if info['tol'] != cfg['tol']:
                raise Violation("tol_reported", f"{info['tol']}")

    # ----- the certificate -------------------------------------------------------
    r = s0 - A @ e
    r[~interior] = 0
    rn = float(np.linalg.norm(r))
    floor = C_EPS*float(np.linalg.norm((absA @ np.abs(e) +
                                        np.abs(s0))[interior]))
    finite = bool(np.all(np.isfinite(e)))
    sslname = 'bicgstab' if eff_ssl is True else eff_ssl
    meth = f"ssl={sslname}:cycle={cfg['cycle']}"
    pr = None
    if rep == 'success' and snorm > 0:
        if not finite:
            raise Violation(f"success_with_nonfinite_field:{meth}",
                            "CONVERGED reported, field has NaN/inf")
        if rn >= cfg['tol']*snorm*(1+1e-9) + floor:
            raise Violation(
                f"success_without_convergence:{meth}:source={skind}",
                f"reported success but ||s-Ae||/||s|| = {rn/snorm:.3e} >= "
                f"tol = {cfg['tol']:.3e} (floor {floor/snorm:.1e}); shape "
                f"{shape}, init {init} ({ctx_txt})")
        if cfg['tol'] == 0:
            raise Violation(
                f"success_with_zero_tol:{meth}",
                "tol=0 cannot be reached (||r|| < 0), but success is "
                f"reported; ||s-Ae||/||s|| = {rn/snorm:.3e} ({ctx_txt})")
        # printed figures describe the field
        txt = out if printing else (info['log'] if stored else None)
        pr = None if txt is None else _printed_rel_error(cfg['verb'], txt)
        if pr is not None and finite:
            pv, prec = pr
            if not (abs(pv*snorm - rn) <= prec*rn + 1e-6*rn + 10*floor):
                raise Violation(
                    f"printed_error_not_of_field:{meth}:verb={cfg['verb']}",
                    f"printed rel. error {pv:.3e}, but the {which} field "
                    f"has ||s-Ae||/||s|| = {rn/snorm:.6e} (floor "
                    f"{floor/snorm:.1e}; {ctx_txt})")
    if info is not None and snorm > 0 and finite:
        ae = info['abs_error']
        if info['exit'] == 0:
            if not (abs(ae-rn) <= 1e-6*rn + 10*floor):
                raise Violation(
                    f"abs_error_not_of_returned_field:{meth}",
                    f"abs_error={ae:.6e} but the returned field has "
                    f"||s-Ae|| = {rn:.6e} (it_ssl={info['it_ssl']}, "
                    f"it_mg={info['it_mg']}, init={init}; {ctx_txt})")
            if not (abs(info['rel_error'] - ae/snorm) <=
                    1e-10*abs(ae/snorm)):
                raise Violation("rel_error", "rel_error != abs_error/"
                                             "ref_error")
            eac = np.atleast_1d(info['error_at_cycle'])
            if not eff_ssl and info['it_mg'] >= 1:
                # pure multigrid: 'absolute error after each cycle'; the
                # last cycle produced the returned field
                if not (abs(float(eac[-1])-rn) <= 1e-6*rn + 10*floor):
                    raise Violation(
                        f"error_at_cycle_not_of_returned_field:{meth}",
                        f"error_at_cycle[-1]={float(eac[-1]):.6e} but the "
                        f"returned field has ||s-Ae|| = {rn:.6e} "
                        f"(it_mg={info['it_mg']}; {ctx_txt})")
    # ----- classification ---------------------------------------------------------
    its = None
    if info is not None:
        its = (int(info['it_mg']), int(info['it_ssl']))
    rec.cls(f"source={skind}", f"init={init}", f"prov={prov}", f"reported={rep}",
            f"ssl={sslname}", f"cycle={cfg['cycle']}", f"case={case}",
            f"laplace={fs['laplace']}", gen.regime(fs),
            f"lgamp={spec.get('lgamp', 0)}",
            f"return_info={cfg['return_info']}", f"verb={cfg['verb']}",
            f"parity={'odd' if any(n % 2 for n in shape) else 'even'}",
            f"reuse={reuse}", f"sprov={sprov}", f"mprov={mprov}",
            f"mform={mform}", f"efreq={efreq}",
            "omit=" + ('none' if not omit else 'all' if
                       len(omit) == len(OMITTABLE) else 'some'),
            f"maxcells={'>12' if max(shape) > 12 else '<=12'}",
            f"channels={'info' if info is not None else ''}"
            f"{'+screen' if rep_print is not None else ''}"
            f"{'+log' if rep_log is not None else ''}")
    for k in omit:
        rec.cls(f"omitted:{k}")
    if cfg['tol'] < 1e-10:
        rec.cls(f"tol={cfg['tol']:g}:reported={rep}")
    if cfg['maxit'] == 50:
        rec.cls("maxit=50")
    if skind == 'solve_source' and supplied:
        rec.cls("solve_source+efield")
    if init.endswith('_dirty') and its is not None:
        rec.cls(f"{init}:reported={rep}:it_mg+ssl={'0' if its == (0, 0) else '>0'}")
    if pr is not None:
        rec.cls("printed_figure_checked")
    if info is not None and info['exit'] == 1:
        rec.cls(f"fail={str(info['exit_message'])[:24]}")
    if (rep == 'success' and snorm > 0 and its is not None and
            (its[0] > 0 or its[1] > 0)):
        rec.nt([list(shape), spec['cfg'], omit, spec['seed'],
                spec['grid']['seed']])
    rec.note({'shape': list(shape), 'source': skind, 'init': init,
              'reported': rep, 'its': its,
              'relres': None if snorm == 0 else rn/snorm,
              'tol': cfg['tol'], 'reuse': reuse, 'omit': omit})


LARGE = [8, 12, 16, 16, 20, 24, 32, 40, 48]


def large_strategy():
    """Larger grids (thorough tier): up to 20 000 cells, MG-friendly and
    unfriendly counts, default-like configurations dominate."""
    return st.fixed_dictionaries({
        'grid': gen.grid_spec(LARGE, kinds=('uniform', 'stretch')),
        'model': gen.model_spec(max_decades=2.0),
        'freq': gen.freq_spec(),
        'source': st.sampled_from(['dipole', 'solve_source', 'random_inner']),
        'init': st.sampled_from(['none', 'none', 'random', 'near']),
        'cfg': config_spec(),
        'lgamp': st.sampled_from([0, 0, -12, 6]),
        'seed': gen.SEED,
        **new_keys(),
    }).filter(lambda s: 2000 < np.prod(s['grid']['n']) <= 20000).map(_tame)


SUBS = {'solve': case_solve, 'large': case_solve}


def run(ctx):
    ctx.regression(SUBS)
    ctx.explore('solve', spec_strategy(), case_solve, ctx.n(1500, 4000))
    if not ctx.quick:
        ctx.explore('large', large_strategy(), case_solve, ctx.n(0, 8),
                    shrink=False)
